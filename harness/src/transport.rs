//! C19: end to end over real Unix-domain sockets with the tokio and the smol runtime crates.
//!
//! Every scenario opens 1..8 connections through a listener (bound, or built from an inherited
//! descriptor), exchanges seeded message sequences (1 B .. 1 MiB) in both directions at once with
//! readers of different speeds, optionally abandons sends (timeouts while the peer is not reading)
//! and then lets the peer drain. No global order is reconstructed: for each connection and
//! direction the program-ordered list of sends and the program-ordered list of receives are
//! logged after the tasks were joined.

use crate::{
    targets::MEnum,
    util::{ev, fnv, Rng},
};
use futures_util::future::{join, join_all, select, Either};
use serde_json::{json, Value};
use std::{future::Future, os::fd::OwnedFd, pin::Pin, time::Duration};
use zlink_core::{connection::Socket, Call, Connection, Listener};

type Sleep = fn(u64) -> Pin<Box<dyn Future<Output = ()>>>;

fn tokio_sleep(ms: u64) -> Pin<Box<dyn Future<Output = ()>>> {
    Box::pin(tokio::time::sleep(Duration::from_millis(ms)))
}
fn smol_sleep(ms: u64) -> Pin<Box<dyn Future<Output = ()>>> {
    Box::pin(async move {
        async_io::Timer::after(Duration::from_millis(ms)).await;
    })
}

#[derive(Debug, Clone)]
pub struct DirPlan {
    /// message sizes (pad lengths)
    pub sizes: Vec<usize>,
    /// the reader sleeps 1 ms after every `slow`-th message (0 = never)
    pub slow: usize,
    /// sends at these indices are abandoned after `cancel_ms` while the peer is not reading
    pub cancel_at: Vec<usize>,
    /// messages at these indices are only enqueued (they go out with the next send, or with the flush at the end)
    pub queued: Vec<usize>,
}

#[derive(Debug, Clone)]
pub struct Scenario {
    pub sid: String,
    pub runtime: String, // tokio | smol
    pub inherited: bool,
    pub conns: Vec<(DirPlan, DirPlan)>, // (client -> server, server -> client)
    pub cancel_ms: u64,
    /// connections after the first are made while the earlier ones are already exchanging traffic
    /// (the listener waits in `accept` meanwhile)
    pub staggered: bool,
    /// "exchange" (default) | "hangup" (the server end closes with unread data behind it) | "mux" (a zlink Server
    /// serving several clients, one of which delivers its calls in pieces)
    pub kind: String,
    pub mux: Vec<MuxStep>,
}

/// One step of a `mux` scenario, executed strictly one after the other.
#[derive(Debug, Clone, serde::Serialize, serde::Deserialize)]
pub enum MuxStep {
    /// the raw client writes the bytes `from..to` of its call `call` (a frame of `len` pad bytes); the reply is
    /// read after the last piece
    Piece { call: usize, len: usize, from_pm: u32, to_pm: u32 },
    /// zlink client `client` makes one complete call with a pad of `len` bytes
    Call { client: usize, len: usize },
}

fn plan_to_json(p: &DirPlan) -> Value {
    json!({"sizes": p.sizes, "slow": p.slow, "cancel_at": p.cancel_at, "queued": p.queued})
}
fn plan_from_json(v: &Value) -> DirPlan {
    let arr = |x: &Value| x.as_array().map(|a| a.iter().map(|y| y.as_u64().unwrap() as usize).collect()).unwrap_or_default();
    DirPlan { sizes: arr(&v["sizes"]), slow: v["slow"].as_u64().unwrap_or(0) as usize, cancel_at: arr(&v["cancel_at"]), queued: arr(&v["queued"]) }
}
impl Scenario {
    pub fn to_json(&self) -> Value {
        json!({"family":"transport","sid":self.sid,"runtime":self.runtime,"inherited":self.inherited,"cancel_ms":self.cancel_ms,"staggered":self.staggered,
               "kind": self.kind, "mux": serde_json::to_value(&self.mux).unwrap(),
               "conns": self.conns.iter().map(|(a,b)| json!([plan_to_json(a), plan_to_json(b)])).collect::<Vec<_>>()})
    }
    pub fn from_json(v: &Value) -> Scenario {
        Scenario {
            sid: v["sid"].as_str().unwrap_or("replay").into(),
            runtime: v["runtime"].as_str().unwrap_or("tokio").into(),
            inherited: v["inherited"].as_bool().unwrap_or(false),
            cancel_ms: v["cancel_ms"].as_u64().unwrap_or(20),
            staggered: v["staggered"].as_bool().unwrap_or(false),
            kind: v["kind"].as_str().unwrap_or("exchange").into(),
            mux: v.get("mux").and_then(|m| serde_json::from_value(m.clone()).ok()).unwrap_or_default(),
            conns: v["conns"].as_array().unwrap().iter().map(|c| (plan_from_json(&c[0]), plan_from_json(&c[1]))).collect(),
        }
    }
}

/// Position-sensitive content: a shifted or duplicated byte changes the digest.
fn pad_for(conn: usize, dir: usize, seq: usize, len: usize) -> String {
    let mut r = Rng::new(((conn as u64) << 40) ^ ((dir as u64) << 32) ^ seq as u64);
    let mut s = String::with_capacity(len);
    let mut x = r.next();
    for i in 0..len {
        if i % 8 == 0 {
            x = r.next();
        }
        s.push((b'a' + ((x >> ((i % 8) * 8)) & 0xff) as u8 % 26) as char);
    }
    s
}

#[derive(Debug)]
struct SentRec {
    seq: usize,
    len: usize,
    h: String,
    res: &'static str,
}
#[derive(Debug)]
struct RcvdRec {
    cls: &'static str,
    i: u32,
    len: usize,
    h: String,
}

type Done = std::rc::Rc<std::cell::Cell<bool>>;

async fn sender<S: Socket>(
    mut w: zlink_core::connection::WriteConnection<S::WriteHalf>,
    conn: usize,
    dir: usize,
    plan: DirPlan,
    cancel_ms: u64,
    sleep: Sleep,
    done: Done,
) -> Vec<SentRec> {
    let mut out = Vec::new();
    for (seq, len) in plan.sizes.iter().enumerate() {
        let pad = pad_for(conn, dir, seq, *len);
        let h = fnv(pad.as_bytes());
        let call = Call::new(MEnum::Echo { i: seq as u32, pad });
        let res = if plan.cancel_at.contains(&seq) {
            // abandon the send if it does not complete in time (the peer is not reading yet)
            let fut = Box::pin(w.send_call(&call));
            match select(fut, sleep(cancel_ms)).await {
                Either::Left((Ok(()), _)) => "ok",
                Either::Left((Err(_), _)) => "err",
                Either::Right(((), fut)) => {
                    drop(fut);
                    "cancelled"
                }
            }
        } else if plan.queued.contains(&seq) {
            match w.enqueue_call(&call) {
                Ok(()) => "ok",
                Err(_) => "err",
            }
        } else {
            match w.send_call(&call).await {
                Ok(()) => "ok",
                Err(_) => "err",
            }
        };
        out.push(SentRec { seq, len: *len, h, res });
    }
    if !plan.queued.is_empty() {
        let _ = w.flush().await;
    }
    // (dropping the write half closes the stream only with tokio: the smol halves share the
    // socket, so the reader is told through `done` that nothing more will come)
    done.set(true);
    drop(w);
    out
}

async fn receiver<S: Socket>(
    mut r: zlink_core::connection::ReadConnection<S::ReadHalf>,
    plan: DirPlan,
    delay_start_ms: u64,
    sleep: Sleep,
    done: Done,
) -> Vec<RcvdRec> {
    let mut out = Vec::new();
    if delay_start_ms > 0 {
        sleep(delay_start_ms).await;
    }
    let mut n = 0usize;
    loop {
        // Once the sender is through, everything it wrote sits in the kernel's buffers: a receive
        // that stays pending for a generous while after that means there is nothing left.
        let watch = {
            let done = done.clone();
            Box::pin(async move {
                loop {
                    sleep(5).await;
                    if done.get() {
                        sleep(400).await;
                        return;
                    }
                }
            })
        };
        let got = match select(Box::pin(r.receive_call::<MEnum<'_>>()), watch).await {
            Either::Left((res, _)) => res,
            Either::Right(((), fut)) => {
                drop(fut);
                out.push(RcvdRec { cls: "idle", i: 0, len: 0, h: String::new() });
                break;
            }
        };
        let rec = match got {
            Ok(c) => match c.method() {
                MEnum::Echo { i, pad } => RcvdRec { cls: "msg", i: *i, len: pad.len(), h: fnv(pad.as_bytes()) },
                _ => RcvdRec { cls: "other_msg", i: 0, len: 0, h: String::new() },
            },
            Err(e) => RcvdRec { cls: crate::util::err_class(&e), i: 0, len: 0, h: String::new() },
        };
        let stop = rec.cls != "msg" && rec.cls != "decode_err";
        let dead = rec.cls == "decode_err" && out.len() > plan.sizes.len() + 4;
        out.push(rec);
        if stop || dead {
            break;
        }
        n += 1;
        if plan.slow > 0 && n % plan.slow == 0 {
            sleep(1).await;
        }
    }
    out
}

struct Pair<S: Socket> {
    client: Connection<S>,
    server: Connection<S>,
}

type ExchangeResult = (usize, (usize, usize), Vec<SentRec>, Vec<RcvdRec>, Vec<SentRec>, Vec<RcvdRec>);

/// The server end closes while data the client sent is still unread behind it (the kernel then reports a
/// reset to the client once the client has read everything): what the server wrote before closing must
/// still arrive, whole and in order, before the client is told about the end.
async fn hangup_one<S: Socket>(sc: &Scenario, k: usize, p: Pair<S>, sleep: Sleep) -> ExchangeResult {
    let ids = (p.client.id(), p.server.id());
    let (plan_cs, plan_sc) = sc.conns[k].clone();
    let (cr, cw) = p.client.split();
    let (sr, sw) = p.server.split();
    let (d0, d1): (Done, Done) = Default::default();
    let client_send = sender::<S>(cw, k, 0, plan_cs.clone(), sc.cancel_ms, sleep, d0.clone());
    let server_side = {
        let d0 = d0.clone();
        let d1 = d1.clone();
        let plan_sc = plan_sc.clone();
        async move {
            while !d0.get() {
                sleep(1).await;
            }
            sleep(2).await;
            let sent = sender::<S>(sw, k, 1, plan_sc, 0, sleep, d1).await;
            // never read: the client's messages stay in the kernel's queue when the socket goes away
            drop(sr);
            sent
        }
    };
    // the client starts to read late (often after the close) and possibly slowly
    let client_recv = receiver::<S>(cr, plan_sc, sc.cancel_ms, sleep, d1);
    let ((mut s0, s1), r1) = join(join(client_send, server_side), client_recv).await;
    for x in s0.iter_mut() {
        if x.res == "ok" {
            x.res = "unread";
        }
    }
    (k, ids, s0, Vec::new(), s1, r1)
}

async fn exchange_one<S: Socket>(sc: &Scenario, k: usize, p: Pair<S>, sleep: Sleep) -> ExchangeResult {
    if sc.kind == "hangup" {
        return hangup_one(sc, k, p, sleep).await;
    }
    let ids = (p.client.id(), p.server.id());
    {
        let (plan_cs, plan_sc) = sc.conns[k].clone();
        let (cr, cw) = p.client.split();
        let (sr, sw) = p.server.split();
        let any_cancel_cs = !plan_cs.cancel_at.is_empty();
        let any_cancel_sc = !plan_sc.cancel_at.is_empty();
        // a direction with abandoned sends is read only after the sender is through with them
        let delay = |any: bool, plan: &DirPlan| if any { sc.cancel_ms * (plan.cancel_at.len() as u64 + 2) + 30 } else { 0 };
        let d_cs = delay(any_cancel_cs, &plan_cs);
        let d_sc = delay(any_cancel_sc, &plan_sc);
        let cancel_ms = sc.cancel_ms;
        {
            let (d0, d1): (Done, Done) = Default::default();
            let a = join(sender::<S>(cw, k, 0, plan_cs.clone(), cancel_ms, sleep, d0.clone()), receiver::<S>(sr, plan_cs, d_cs, sleep, d0));
            let b = join(sender::<S>(sw, k, 1, plan_sc.clone(), cancel_ms, sleep, d1.clone()), receiver::<S>(cr, plan_sc, d_sc, sleep, d1));
            let ((s0, r0), (s1, r1)) = join(a, b).await;
            (k, ids, s0, r0, s1, r1)
        }
    }
}

fn log_results(sc: &Scenario, results: Vec<ExchangeResult>) {
    ev(json!({"ev":"conns","ids": results.iter().flat_map(|r| [r.1.0, r.1.1]).collect::<Vec<_>>(), "n": results.len(), "inherited": sc.inherited, "runtime": sc.runtime}));
    for (k, _ids, s0, r0, s1, r1) in results {
        for (dir, (s, r)) in [(s0, r0), (s1, r1)].into_iter().enumerate() {
            for x in &s {
                ev(json!({"ev":"sent","id":k,"dir":dir,"seq":x.seq,"len":x.len,"h":x.h,"res":x.res}));
            }
            for (j, x) in r.iter().enumerate() {
                ev(json!({"ev":"rcvd","id":k,"dir":dir,"k":j,"cls":x.cls,"i":x.i,"len":x.len,"h":x.h}));
            }
            ev(json!({"ev":"dir_end","id":k,"dir":dir}));
        }
    }
}


// ------------------------------------------------------------------ a Server serving several clients

#[derive(Debug, serde::Serialize, serde::Deserialize)]
#[serde(tag = "method", content = "parameters")]
enum MuxCall {
    #[serde(rename = "t.m.Echo")]
    Echo { i: u32, pad: String },
}
#[derive(Debug, serde::Serialize, serde::Deserialize)]
struct MuxReply {
    i: u32,
    pad: String,
}
#[derive(Debug, PartialEq, zlink_core::ReplyError)]
#[zlink(interface = "t.m", crate = "zlink_core")]
enum MuxErr {
    Nope,
}
struct MuxSvc;
impl zlink_core::Service for MuxSvc {
    type MethodCall<'de> = MuxCall;
    type ReplyParams<'ser> = MuxReply;
    type ReplyStreamParams = MuxReply;
    type ReplyStream = futures_util::stream::Empty<zlink_core::Reply<MuxReply>>;
    type ReplyError<'ser> = MuxErr;
    async fn handle<'ser>(
        &'ser mut self,
        call: Call<Self::MethodCall<'_>>,
    ) -> zlink_core::service::MethodReply<Self::ReplyParams<'ser>, Self::ReplyStream, Self::ReplyError<'ser>> {
        match call.method() {
            MuxCall::Echo { i, pad } => zlink_core::service::MethodReply::Single(Some(MuxReply { i: *i, pad: pad.clone() })),
        }
    }
}

type MuxResult = Vec<(Vec<SentRec>, Vec<RcvdRec>)>;

/// Client 0 is not zlink: it writes its calls in the pieces the scenario prescribes; between two pieces the
/// other (zlink) clients complete whole calls, so the server's receive on connection 0 is interrupted in the
/// middle of a frame.  Every client must get the echo of each of its calls, in order.
async fn mux_drive<S: Socket>(sc: &Scenario, mut clients: Vec<Connection<S>>, mut raw: std::os::unix::net::UnixStream, sleep: Sleep) -> MuxResult {
    use std::io::{Read, Write};
    let n = clients.len() + 1;
    let mut res: MuxResult = (0..n).map(|_| (Vec::new(), Vec::new())).collect();
    let mut counters = vec![0usize; n];
    let mut dead = vec![false; n];
    let mut inbuf: Vec<u8> = Vec::new();
    for (si, st) in sc.mux.iter().enumerate() {
        match st {
            MuxStep::Piece { call, len, from_pm, to_pm } => {
                if dead[0] {
                    continue;
                }
                let pad = pad_for(0, 0, *call, *len);
                let mut frame = serde_json::to_vec(&json!({"method":"t.m.Echo","parameters":{"i":*call as u32,"pad":pad}})).unwrap();
                frame.push(0);
                let at = |pm: u32| (frame.len() as u64 * pm as u64 / 1000) as usize;
                let (a, b) = (at(*from_pm), if *to_pm >= 1000 { frame.len() } else { at(*to_pm) });
                if *from_pm == 0 {
                    res[0].0.push(SentRec { seq: *call, len: *len, h: fnv(pad.as_bytes()), res: "ok" });
                }
                // (the raw end is non-blocking: a piece larger than the kernel's socket buffer goes out as the
                // server takes it - the server runs whenever this task sleeps)
                let mut at = a;
                let mut failed = false;
                let mut waits = 0;
                while at < b {
                    match raw.write(&frame[at..b]) {
                        Ok(0) => {
                            failed = true;
                            break;
                        }
                        Ok(n) => at += n,
                        Err(e) if e.kind() == std::io::ErrorKind::WouldBlock || e.kind() == std::io::ErrorKind::Interrupted => {
                            waits += 1;
                            if waits > 20_000 {
                                failed = true;
                                break;
                            }
                            sleep(1).await;
                        }
                        Err(_) => {
                            failed = true;
                            break;
                        }
                    }
                }
                if failed {
                    dead[0] = true;
                    res[0].1.push(RcvdRec { cls: "io_err", i: 0, len: 0, h: String::new() });
                    continue;
                }
                // let the server see the piece (and suspend in the middle of the frame)
                sleep(if si % 3 == 2 { 0 } else { 1 }).await;
                if *to_pm >= 1000 {
                    // the reply
                    let mut waited = 0;
                    let rec = loop {
                        if let Some(p) = inbuf.iter().position(|b| *b == 0) {
                            let doc: Vec<u8> = inbuf.drain(..=p).collect();
                            break match serde_json::from_slice::<Value>(&doc[..doc.len() - 1]) {
                                Ok(v) if v["parameters"]["pad"].is_string() => {
                                    let pad = v["parameters"]["pad"].as_str().unwrap();
                                    RcvdRec { cls: "msg", i: v["parameters"]["i"].as_u64().unwrap_or(u32::MAX as u64) as u32, len: pad.len(), h: fnv(pad.as_bytes()) }
                                }
                                _ => RcvdRec { cls: "decode_err", i: 0, len: 0, h: String::new() },
                            };
                        }
                        let mut tmp = [0u8; 65536];
                        match raw.read(&mut tmp) {
                            Ok(0) => break RcvdRec { cls: "eof", i: 0, len: 0, h: String::new() },
                            Ok(k) => inbuf.extend_from_slice(&tmp[..k]),
                            Err(e) if e.kind() == std::io::ErrorKind::WouldBlock => {
                                waited += 1;
                                if waited > 3000 {
                                    break RcvdRec { cls: "idle", i: 0, len: 0, h: String::new() };
                                }
                                sleep(1).await;
                            }
                            Err(_) => break RcvdRec { cls: "io_err", i: 0, len: 0, h: String::new() },
                        }
                    };
                    if rec.cls != "msg" {
                        dead[0] = true;
                    }
                    res[0].1.push(rec);
                }
            }
            MuxStep::Call { client, len } => {
                let c = *client;
                if dead[c] {
                    continue;
                }
                let seq = counters[c];
                counters[c] += 1;
                let pad = pad_for(c, 0, seq, *len);
                res[c].0.push(SentRec { seq, len: *len, h: fnv(pad.as_bytes()), res: "ok" });
                let call = Call::new(MuxCall::Echo { i: seq as u32, pad });
                let fut = Box::pin(clients[c - 1].call_method::<MuxCall, MuxReply, MuxErr>(&call));
                let rec = match select(fut, sleep(3000)).await {
                    Either::Left((Ok(Ok(r)), _)) => match r.into_parameters() {
                        Some(p) => RcvdRec { cls: "msg", i: p.i, len: p.pad.len(), h: fnv(p.pad.as_bytes()) },
                        None => RcvdRec { cls: "decode_err", i: 0, len: 0, h: String::new() },
                    },
                    Either::Left((Ok(Err(_)), _)) => RcvdRec { cls: "method_err", i: 0, len: 0, h: String::new() },
                    Either::Left((Err(e), _)) => RcvdRec { cls: crate::util::err_class(&e), i: 0, len: 0, h: String::new() },
                    Either::Right(_) => RcvdRec { cls: "idle", i: 0, len: 0, h: String::new() },
                };
                if rec.cls != "msg" {
                    dead[c] = true;
                }
                res[c].1.push(rec);
            }
        }
    }
    // nothing further is owed to anybody
    for (c, d) in dead.iter().enumerate() {
        if !*d {
            res[c].1.push(RcvdRec { cls: "idle", i: 0, len: 0, h: String::new() });
        }
    }
    res
}

fn log_mux(sc: &Scenario, ids: Vec<usize>, results: MuxResult) {
    ev(json!({"ev":"conns","ids": ids, "n": ids.len() / 2, "inherited": sc.inherited, "runtime": sc.runtime}));
    for (k, (s, r)) in results.into_iter().enumerate() {
        for x in &s {
            ev(json!({"ev":"sent","id":k,"dir":0,"seq":x.seq,"len":x.len,"h":x.h,"res":x.res}));
        }
        for (j, x) in r.iter().enumerate() {
            ev(json!({"ev":"rcvd","id":k,"dir":0,"k":j,"cls":x.cls,"i":x.i,"len":x.len,"h":x.h}));
        }
        ev(json!({"ev":"dir_end","id":k,"dir":0}));
    }
}

macro_rules! mux_body {
    ($sc:expr, $path:expr, $listener:expr, $connect:path, $sleep:expr) => {{
        let sc = $sc;
        // the kernel queues the connections; the server accepts them in this order once it runs
        let raw = std::os::unix::net::UnixStream::connect(&$path).unwrap();
        raw.set_nonblocking(true).unwrap();
        let nz = sc.mux.iter().filter_map(|s| if let MuxStep::Call { client, .. } = s { Some(*client) } else { None }).max().unwrap_or(0);
        let mut clients = Vec::new();
        for _ in 0..nz {
            clients.push($connect(&$path).await.unwrap());
        }
        // (identifiers: the clients' ends, each counted twice to fit the `conns` event)
        let mut ids: Vec<usize> = clients.iter().map(|c| c.id()).collect();
        let extra: Vec<usize> = ids.iter().map(|i| i + 1_000_000).collect();
        ids.extend(extra);
        let server = zlink_core::Server::new($listener, MuxSvc);
        let results = match select(Box::pin(server.run()), Box::pin(mux_drive(sc, clients, raw, $sleep))).await {
            Either::Right((r, _)) => r,
            Either::Left(_) => Vec::new(),
        };
        log_mux(sc, ids, results);
    }};
}

fn sock_path(sid: &str) -> std::path::PathBuf {
    let dir = std::env::temp_dir().join(format!("zv-c19-{}", std::process::id()));
    std::fs::create_dir_all(&dir).unwrap();
    let p = dir.join(format!("{}.sock", sid.replace(['/', ' '], "_")));
    let _ = std::fs::remove_file(&p);
    p
}

pub struct Stats {
    pub scenarios: u64,
    pub messages: u64,
    pub cancelled: u64,
}

pub fn run(sc: &Scenario, stats: &mut Stats) {
    stats.scenarios += 1;
    stats.messages += sc.conns.iter().map(|(a, b)| (a.sizes.len() + b.sizes.len()) as u64).sum::<u64>();
    stats.cancelled += sc.conns.iter().map(|(a, b)| (a.cancel_at.len() + b.cancel_at.len()) as u64).sum::<u64>();
    ev(json!({"ev":"reset","sid":sc.sid,"runtime":sc.runtime,"inherited":sc.inherited,"n":sc.conns.len(),"kind":sc.kind}));
    let path = sock_path(&sc.sid);
    let n = sc.conns.len();
    let (tx, rx) = std::sync::mpsc::channel::<Vec<String>>();
    let sc2 = sc.clone();
    let path2 = path.clone();
    std::thread::spawn(move || {
        let sc = &sc2;
        let path = path2;
        crate::util::capture_start();
        let outcome = std::panic::catch_unwind(std::panic::AssertUnwindSafe(|| {
        if sc.runtime == "tokio" {
            let rt = tokio::runtime::Builder::new_current_thread().enable_all().build().unwrap();
            rt.block_on(async {
                #[allow(unused_mut)]
                let mut listener = if sc.inherited {
                    let std_l = std::os::unix::net::UnixListener::bind(&path).unwrap();
                    let fd: OwnedFd = std_l.into();
                    zlink_tokio::unix::Listener::try_from(fd).unwrap()
                } else {
                    zlink_tokio::unix::bind(&path).unwrap()
                };
                if sc.kind == "mux" {
                    mux_body!(sc, path, listener, zlink_tokio::unix::connect, tokio_sleep);
                    return;
                }
                let mut results = Vec::new();
                if sc.staggered {
                    // connection k+1 is accepted while connection k is already exchanging traffic
                    let mut pending: Option<Pin<Box<dyn Future<Output = ExchangeResult> + '_>>> = None;
                    for k in 0..n {
                        let est = join(async { tokio_sleep(if k == 0 { 0 } else { 15 }).await; zlink_tokio::unix::connect(&path).await }, listener.accept());
                        let (c, s) = match pending.take() {
                            Some(prev) => {
                                let (r, cs) = join(prev, est).await;
                                results.push(r);
                                cs
                            }
                            None => est.await,
                        };
                        pending = Some(Box::pin(exchange_one(sc, k, Pair { client: c.unwrap(), server: s.unwrap() }, tokio_sleep)));
                    }
                    if let Some(prev) = pending {
                        results.push(prev.await);
                    }
                } else {
                    let mut pairs = Vec::new();
                    for _ in 0..n {
                        // every other connection is already queued when `accept` is first polled, next to something
                        // that is ready at the same moment: an accept that is abandoned loses no connection
                        let (c, s) = if pairs.len() % 2 == 1 {
                            let c = zlink_tokio::unix::connect(&path).await;
                            let first = match select(Box::pin(listener.accept()), Box::pin(std::future::ready(()))).await {
                                Either::Left((s, _)) => Some(s),
                                Either::Right(_) => None,
                            };
                            let s = match first {
                                Some(s) => s,
                                None => match select(Box::pin(listener.accept()), tokio_sleep(5000)).await {
                                    Either::Left((s, _)) => s,
                                    Either::Right(_) => {
                                        ev(json!({"ev":"accept_lost","conn":pairs.len()}));
                                        return;
                                    }
                                },
                            };
                            (c, s)
                        } else {
                            join(zlink_tokio::unix::connect(&path), listener.accept()).await
                        };
                        pairs.push(Pair { client: c.unwrap(), server: s.unwrap() });
                    }
                    results = join_all(pairs.into_iter().enumerate().map(|(k, p)| exchange_one(sc, k, p, tokio_sleep))).await;
                }
                log_results(sc, results);
            });
        } else {
            async_io::block_on(async {
                let mut listener = if sc.inherited {
                    let std_l = std::os::unix::net::UnixListener::bind(&path).unwrap();
                    let fd: OwnedFd = std_l.into();
                    zlink_smol::unix::Listener::try_from(fd).unwrap()
                } else {
                    zlink_smol::unix::bind(&path).unwrap()
                };
                if sc.kind == "mux" {
                    mux_body!(sc, path, listener, zlink_smol::unix::connect, smol_sleep);
                    return;
                }
                let mut results = Vec::new();
                if sc.staggered {
                    // connection k+1 is accepted while connection k is already exchanging traffic
                    let mut pending: Option<Pin<Box<dyn Future<Output = ExchangeResult> + '_>>> = None;
                    for k in 0..n {
                        let est = join(async { smol_sleep(if k == 0 { 0 } else { 15 }).await; zlink_smol::unix::connect(&path).await }, listener.accept());
                        let (c, s) = match pending.take() {
                            Some(prev) => {
                                let (r, cs) = join(prev, est).await;
                                results.push(r);
                                cs
                            }
                            None => est.await,
                        };
                        pending = Some(Box::pin(exchange_one(sc, k, Pair { client: c.unwrap(), server: s.unwrap() }, smol_sleep)));
                    }
                    if let Some(prev) = pending {
                        results.push(prev.await);
                    }
                } else {
                    let mut pairs = Vec::new();
                    for _ in 0..n {
                        // every other connection is already queued when `accept` is first polled, next to something
                        // that is ready at the same moment: an accept that is abandoned loses no connection
                        let (c, s) = if pairs.len() % 2 == 1 {
                            let c = zlink_smol::unix::connect(&path).await;
                            let first = match select(Box::pin(listener.accept()), Box::pin(std::future::ready(()))).await {
                                Either::Left((s, _)) => Some(s),
                                Either::Right(_) => None,
                            };
                            let s = match first {
                                Some(s) => s,
                                None => match select(Box::pin(listener.accept()), smol_sleep(5000)).await {
                                    Either::Left((s, _)) => s,
                                    Either::Right(_) => {
                                        ev(json!({"ev":"accept_lost","conn":pairs.len()}));
                                        return;
                                    }
                                },
                            };
                            (c, s)
                        } else {
                            join(zlink_smol::unix::connect(&path), listener.accept()).await
                        };
                        pairs.push(Pair { client: c.unwrap(), server: s.unwrap() });
                    }
                    results = join_all(pairs.into_iter().enumerate().map(|(k, p)| exchange_one(sc, k, p, smol_sleep))).await;
                }
                log_results(sc, results);
            });
        }
    }));
        if outcome.is_err() {
            ev(json!({"ev":"panic"}));
        }
        let _ = tx.send(crate::util::capture_take());
    });
    // Watchdog: a scenario that does not finish (e.g. an executor thread blocked in a system call)
    // is reported as a hang; the worker thread is abandoned.
    match rx.recv_timeout(Duration::from_secs(60)) {
        Ok(lines) => {
            for l in lines {
                crate::util::emit_raw(&l);
            }
        }
        Err(_) => ev(json!({"ev":"hang"})),
    }
    let _ = std::fs::remove_file(&path);
    ev(json!({"ev":"end"}));
}

// ------------------------------------------------------------------ generators

fn rand_size(r: &mut Rng, big: bool) -> usize {
    match r.below(if big { 10 } else { 7 }) {
        0 => 0,
        1 => r.range(0, 40),
        2 | 3 => r.range(0, 2000),
        4 => r.range(200, 300),
        5 | 6 => r.range(0, 70_000),
        7 => r.range(200_000, 300_000),
        8 => r.range(100_000, 600_000),
        _ => r.range(900_000, 1_048_576),
    }
}

pub fn gen_plain(r: &mut Rng, sid: String, runtime: &str, big: bool) -> Scenario {
    let n = if big { r.range(1, 3) } else { r.range(1, 8) };
    let conns = (0..n)
        .map(|_| {
            let mk = |r: &mut Rng| {
                let sizes: Vec<usize> = (0..r.range(0, if big { 5 } else { 12 })).map(|_| rand_size(r, big)).collect();
                // in a third of the directions some messages are enqueued and leave with a later send (or the
                // final flush): the sequence submitted must still be the sequence received
                let queued: Vec<usize> = if r.chance(1, 3) { (0..sizes.len()).filter(|_| r.chance(1, 2)).collect() } else { vec![] };
                DirPlan { sizes, slow: if r.chance(1, 2) { 0 } else { r.range(1, 3) }, cancel_at: vec![], queued }
            };
            (mk(r), mk(r))
        })
        .collect();
    Scenario { sid, runtime: runtime.into(), inherited: r.chance(1, 2), conns, cancel_ms: 20, staggered: r.chance(1, 2), kind: "exchange".into(), mux: vec![] }
}

/// Sends larger than the kernel socket buffer are abandoned while the peer is not reading.
pub fn gen_cancel(r: &mut Rng, sid: String, runtime: &str) -> Scenario {
    let n = r.range(1, 2);
    let conns = (0..n)
        .map(|_| {
            let nm = r.range(2, 5);
            let mut sizes: Vec<usize> = (0..nm).map(|_| r.range(0, 3000)).collect();
            let at = r.range(0, nm - 2);
            sizes[at] = r.range(400_000, 1_000_000); // cannot fit the socket buffer: the write is partial
            let cs = DirPlan { sizes, slow: 0, cancel_at: vec![at], queued: vec![] };
            let sc = DirPlan { sizes: (0..r.range(0, 3)).map(|_| r.range(0, 500)).collect(), slow: 0, cancel_at: vec![], queued: vec![] };
            (cs, sc)
        })
        .collect();
    Scenario { sid, runtime: runtime.into(), inherited: false, conns, cancel_ms: 15, staggered: false, kind: "exchange".into(), mux: vec![] }
}


/// The server end sends, then closes with the client's messages unread behind it.
pub fn gen_hangup(r: &mut Rng, sid: String, runtime: &str) -> Scenario {
    let n = r.range(1, 3);
    let conns = (0..n)
        .map(|_| {
            let cs = DirPlan { sizes: (0..r.range(1, 4)).map(|_| r.range(0, 2000)).collect(), slow: 0, cancel_at: vec![], queued: vec![] };
            // mostly small enough to sit in the kernel's buffer when the server closes; sometimes more
            let big = r.chance(1, 4);
            let sc = DirPlan {
                sizes: (0..r.range(1, 8)).map(|_| if big { r.range(0, 150_000) } else { r.range(0, 6000) }).collect(),
                slow: if r.chance(1, 2) { 0 } else { r.range(1, 3) },
                cancel_at: vec![],
                queued: vec![],
            };
            (cs, sc)
        })
        .collect();
    // cancel_ms doubles as the delay before the client starts to read
    Scenario { sid, runtime: runtime.into(), inherited: false, conns, cancel_ms: *r.pick(&[0u64, 10, 40]), staggered: false, kind: "hangup".into(), mux: vec![] }
}

/// A zlink Server, a client that delivers its calls in pieces and 1..3 zlink clients calling in between.
pub fn gen_mux(r: &mut Rng, sid: String, runtime: &str) -> Scenario {
    let others = r.range(1, 3);
    let mut mux = Vec::new();
    for call in 0..r.range(1, 4) {
        let len = match r.below(5) {
            0 => r.range(0, 100),
            1 | 2 => r.range(300, 3000),
            3 => r.range(3000, 40_000),
            // (several hundred growth steps of the server's receive buffer, received in pieces between other calls)
            _ => r.range(70_000, 260_000),
        };
        let mut cuts: Vec<u32> = (0..r.range(0, 3)).map(|_| r.range(1, 999) as u32).collect();
        cuts.sort();
        cuts.dedup();
        cuts.push(1000);
        let mut from = 0u32;
        for c in cuts {
            mux.push(MuxStep::Piece { call, len, from_pm: from, to_pm: c });
            from = c;
            if c < 1000 || r.chance(1, 2) {
                for _ in 0..r.range(1, 3) {
                    mux.push(MuxStep::Call { client: r.range(1, others), len: if r.chance(1, 5) { r.range(1000, 30_000) } else { r.range(0, 400) } });
                }
            }
        }
    }
    Scenario { sid, runtime: runtime.into(), inherited: r.chance(1, 3), conns: vec![], cancel_ms: 0, staggered: false, kind: "mux".into(), mux }
}

// ------------------------------------------------------------------ identifiers under contention

#[derive(Debug)]
struct NullSock;
#[derive(Debug)]
struct NullR;
#[derive(Debug)]
struct NullW;
impl zlink_core::connection::socket::Socket for NullSock {
    type ReadHalf = NullR;
    type WriteHalf = NullW;
    fn split(self) -> (NullR, NullW) {
        (NullR, NullW)
    }
}
impl zlink_core::connection::socket::ReadHalf for NullR {
    async fn read(&mut self, _buf: &mut [u8]) -> zlink_core::Result<usize> {
        Ok(0)
    }
}
impl zlink_core::connection::socket::WriteHalf for NullW {
    async fn write(&mut self, _buf: &[u8]) -> zlink_core::Result<()> {
        Ok(())
    }
}

/// Connections created on several threads at once (accept loops and clients of a multi-threaded
/// runtime do that): every identifier handed out must be different from every other.
pub fn id_burst(threads: usize, per: usize) {
    let barrier = std::sync::Arc::new(std::sync::Barrier::new(threads));
    let handles: Vec<_> = (0..threads)
        .map(|_| {
            let b = barrier.clone();
            std::thread::spawn(move || {
                b.wait();
                (0..per).map(|_| zlink_core::Connection::new(NullSock).id()).collect::<Vec<usize>>()
            })
        })
        .collect();
    let mut all: Vec<usize> = handles.into_iter().flat_map(|h| h.join().unwrap_or_default()).collect();
    let total = all.len();
    all.sort_unstable();
    all.dedup();
    ev(json!({"ev":"idburst","threads":threads,"per":per,"total":total,"distinct":all.len()}));
}
