//! C20: notified state of zlink-tokio and zlink-smol, driven in lock-step by the same schedule.
//! Streams are polled by hand (noop waker); every operation is one event carrying what each
//! implementation did.

use crate::util::{ev, Rng};
use futures_util::Stream;
use serde_json::{json, Value};
use std::{
    pin::Pin,
    task::{Context, Poll, Waker},
};

#[derive(Debug, Clone, PartialEq)]
pub enum Op {
    Set,
    CloneState,
    DropState,
    Subscribe(usize),
    Poll(usize),
    DropSub(usize),
    OnceNew,
    Notify,
    DropNotifier,
    PollOnce,
}

#[derive(Debug, Clone)]
pub struct Scenario {
    pub sid: String,
    pub ops: Vec<Op>,
}

impl Scenario {
    pub fn to_json(&self) -> Value {
        json!({"family":"notified","sid":self.sid,"ops": self.ops.iter().map(|o| match o {
            Op::Set => json!(["set"]), Op::CloneState => json!(["clone"]), Op::DropState => json!(["drop_state"]),
            Op::Subscribe(s) => json!(["subscribe", s]), Op::Poll(s) => json!(["poll", s]), Op::DropSub(s) => json!(["drop_sub", s]),
            Op::OnceNew => json!(["once_new"]), Op::Notify => json!(["notify"]), Op::DropNotifier => json!(["drop_notifier"]),
            Op::PollOnce => json!(["poll_once"]) }).collect::<Vec<_>>()})
    }
    pub fn from_json(v: &Value) -> Scenario {
        Scenario {
            sid: v["sid"].as_str().unwrap_or("replay").into(),
            ops: v["ops"]
                .as_array()
                .unwrap()
                .iter()
                .map(|o| {
                    let s = o.get(1).and_then(|x| x.as_u64()).unwrap_or(0) as usize;
                    match o[0].as_str().unwrap() {
                        "set" => Op::Set,
                        "clone" => Op::CloneState,
                        "drop_state" => Op::DropState,
                        "subscribe" => Op::Subscribe(s),
                        "poll" => Op::Poll(s),
                        "drop_sub" => Op::DropSub(s),
                        "once_new" => Op::OnceNew,
                        "notify" => Op::Notify,
                        "drop_notifier" => Op::DropNotifier,
                        _ => Op::PollOnce,
                    }
                })
                .collect(),
        }
    }
}

/// The value type of the notified state.  Values are identified by the number of the `set` that produced
/// them (`seq`, which is what subscribers receive); what the type itself calls equal is the `tag`, and tags
/// repeat: setting a value that equals the previous one (or the initial one) is still a `set`.
#[derive(Debug, Clone)]
pub struct Val {
    pub tag: u32,
    pub seq: u32,
}
impl PartialEq for Val {
    fn eq(&self, o: &Val) -> bool {
        self.tag == o.tag
    }
}
impl From<Val> for u32 {
    fn from(v: Val) -> u32 {
        v.seq
    }
}

fn poll_stream<S: Stream<Item = zlink_core::Reply<u32>> + Unpin>(s: &mut S) -> Value {
    let mut cx = Context::from_waker(Waker::noop());
    match Pin::new(s).poll_next(&mut cx) {
        Poll::Pending => json!({"r":"pending","v":0,"cont":0}),
        Poll::Ready(None) => json!({"r":"end","v":0,"cont":0}),
        Poll::Ready(Some(reply)) => {
            let cont = match reply.continues() {
                None => 0,
                Some(false) => 1,
                Some(true) => 2,
            };
            json!({"r":"item","v":reply.parameters().copied().unwrap_or(0),"cont":cont})
        }
    }
}

fn guarded<F: FnOnce() -> Value>(f: F) -> Value {
    match std::panic::catch_unwind(std::panic::AssertUnwindSafe(f)) {
        Ok(v) => v,
        Err(_) => json!({"r":"panic","v":0,"cont":0}),
    }
}

pub struct Stats {
    pub scenarios: u64,
    pub ops: u64,
    pub items: u64,
}

const NSUBS: usize = 3;

pub fn run(sc: &Scenario, stats: &mut Stats) {
    use zlink_smol::notified as sm;
    use zlink_tokio::notified as tk;
    stats.scenarios += 1;
    ev(json!({"ev":"reset","sid":sc.sid}));
    let mut version: u32 = 0;
    let mut drops = 0u32;
    let mut tk_states: Vec<tk::State<Val, u32>> = vec![tk::State::new(Val { tag: 0, seq: 0 })];
    let mut sm_states: Vec<sm::State<Val, u32>> = vec![sm::State::new(Val { tag: 0, seq: 0 })];
    let mut tk_subs: Vec<Option<tk::Stream<u32>>> = (0..NSUBS).map(|_| None).collect();
    let mut sm_subs: Vec<Option<sm::Stream<u32>>> = (0..NSUBS).map(|_| None).collect();
    let mut tk_once: Option<tk::Once<u32>> = None;
    let mut sm_once: Option<sm::Once<u32>> = None;
    let mut tk_once_stream: Option<tk::Stream<u32>> = None;
    let mut sm_once_stream: Option<sm::Stream<u32>> = None;
    let ok = json!({"r":"ok","v":0,"cont":0});
    for op in &sc.ops {
        stats.ops += 1;
        match op {
            Op::Set => {
                if tk_states.is_empty() {
                    continue;
                }
                version += 1;
                let v = version;
                // tags come in equal pairs (and the first one equals the initial value); the handle used rotates
                // over the clones, each of which remembers the value it was last given itself
                let val = Val { tag: (v / 2) % 3, seq: v };
                let h = v as usize % tk_states.len();
                let t = guarded(|| {
                    crate::util::block_on(tk_states[h].set(val.clone()));
                    ok.clone()
                });
                let s = guarded(|| {
                    crate::util::block_on(sm_states[h].set(val.clone()));
                    ok.clone()
                });
                // what the handle that was just given the value reports as the current one
                let tget: u32 = tk_states[h].get().seq;
                let sget: u32 = sm_states[h].get().seq;
                ev(json!({"ev":"set","v":v,"tokio":t,"smol":s,"tget":tget,"sget":sget}));
            }
            Op::CloneState => {
                if tk_states.is_empty() || tk_states.len() >= 3 {
                    continue;
                }
                tk_states.push(tk_states[0].clone());
                sm_states.push(sm_states[0].clone());
                ev(json!({"ev":"clone_state"}));
            }
            Op::DropState => {
                if tk_states.is_empty() {
                    continue;
                }
                // alternately the oldest handle (the one State::new returned, while clones live on) and the
                // newest one
                drops += 1;
                if drops % 2 == 1 {
                    tk_states.remove(0);
                    sm_states.remove(0);
                } else {
                    tk_states.pop();
                    sm_states.pop();
                }
                ev(json!({"ev":"drop_state","left":tk_states.len()}));
            }
            Op::Subscribe(s) => {
                if tk_states.is_empty() || tk_subs[*s].is_some() {
                    continue;
                }
                let last = tk_states.len() - 1;
                tk_subs[*s] = Some(tk_states[last].stream());
                sm_subs[*s] = Some(sm_states[last].stream());
                ev(json!({"ev":"subscribe","s":s}));
            }
            Op::DropSub(s) => {
                if tk_subs[*s].is_none() {
                    continue;
                }
                tk_subs[*s] = None;
                sm_subs[*s] = None;
                ev(json!({"ev":"drop_sub","s":s}));
            }
            Op::Poll(s) => {
                if tk_subs[*s].is_none() {
                    continue;
                }
                let t = guarded(|| poll_stream(tk_subs[*s].as_mut().unwrap()));
                let m = guarded(|| poll_stream(sm_subs[*s].as_mut().unwrap()));
                if t["r"] == "item" {
                    stats.items += 1;
                }
                ev(json!({"ev":"poll","s":s,"tokio":t,"smol":m}));
            }
            Op::OnceNew => {
                if tk_once_stream.is_some() {
                    continue;
                }
                let (o, st) = tk::Once::<u32>::new();
                tk_once = Some(o);
                tk_once_stream = Some(st);
                let (o, st) = sm::Once::<u32>::new();
                sm_once = Some(o);
                sm_once_stream = Some(st);
                ev(json!({"ev":"once_new"}));
            }
            Op::Notify => {
                if tk_once.is_none() {
                    continue;
                }
                let t = guarded(|| {
                    tk_once.take().unwrap().notify(77u32);
                    ok.clone()
                });
                let s = guarded(|| {
                    sm_once.take().unwrap().notify(77u32);
                    ok.clone()
                });
                ev(json!({"ev":"notify","v":77,"tokio":t,"smol":s}));
            }
            Op::DropNotifier => {
                if tk_once.is_none() {
                    continue;
                }
                tk_once = None;
                sm_once = None;
                ev(json!({"ev":"drop_notifier"}));
            }
            Op::PollOnce => {
                if tk_once_stream.is_none() {
                    continue;
                }
                let t = guarded(|| poll_stream(tk_once_stream.as_mut().unwrap()));
                let m = guarded(|| poll_stream(sm_once_stream.as_mut().unwrap()));
                ev(json!({"ev":"poll_once","tokio":t,"smol":m}));
            }
        }
    }
    ev(json!({"ev":"end"}));
}

pub fn gen_random(r: &mut Rng, sid: String) -> Scenario {
    let n = r.range(4, 30);
    let mut ops = Vec::new();
    for _ in 0..n {
        ops.push(match r.below(20) {
            0..=4 => Op::Set,
            5 => Op::CloneState,
            6 => Op::DropState,
            7 | 8 => Op::Subscribe(r.below(NSUBS as u64) as usize),
            9..=13 => Op::Poll(r.below(NSUBS as u64) as usize),
            14 => Op::DropSub(r.below(NSUBS as u64) as usize),
            15 => Op::OnceNew,
            16 => Op::Notify,
            17 => Op::DropNotifier,
            _ => Op::PollOnce,
        });
    }
    Scenario { sid, ops }
}

/// Scenario from a TLC-exported Notified behaviour: `{"ops":[{"a":"set","s":0},..]}`.
pub fn from_model_behaviour(v: &Value, sid: String) -> Scenario {
    let ops = v["ops"]
        .as_array()
        .unwrap()
        .iter()
        .map(|o| {
            let s = o["s"].as_u64().unwrap_or(0) as usize;
            match o["a"].as_str().unwrap() {
                "set" => Op::Set,
                "clone" => Op::CloneState,
                "drop_state" => Op::DropState,
                "subscribe" => Op::Subscribe(s),
                "poll" => Op::Poll(s),
                "once_new" => Op::OnceNew,
                "notify" => Op::Notify,
                "drop_notifier" => Op::DropNotifier,
                _ => Op::PollOnce,
            }
        })
        .collect();
    Scenario { sid, ops }
}
