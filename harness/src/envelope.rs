//! C05: call / reply / error envelopes. Each case is one event carrying projections of real
//! encodings and decodings (member names in order, flag values, isolated decodes); the laws
//! themselves live in specs/Envelope.tla.

use crate::{
    targets::*,
    util::{block_on, ev, Rng},
    wire::{new_wire, Sock},
};
use serde::{de::DeserializeOwned, Deserialize, Serialize};
use serde_json::{json, Map, Value};
use zlink_core::{varlink_service, Call, Connection, Reply, ReplyError};

// ------------------------------------------------------------------ corpus of types

#[derive(Debug, Serialize, Deserialize, PartialEq, Clone)]
#[serde(tag = "method", content = "parameters")]
pub enum MOwned {
    #[serde(rename = "t.Echo")]
    Echo { i: u32, pad: String },
    #[serde(rename = "t.Ping")]
    Ping,
    #[serde(rename = "t.Set")]
    Set { key: String, value: Option<i64>, tags: Vec<String> },
}

#[derive(Debug, Serialize, Deserialize, PartialEq, Clone)]
pub struct MFlat {
    pub method: String,
    pub a: u8,
    pub b: Option<String>,
}

/// A method type whose own encoding is a *map* (a flattened member makes serde use `serialize_map` instead of
/// `serialize_struct`): the envelope has to treat it like any other method type.
#[derive(Debug, Serialize, Deserialize, PartialEq, Clone)]
pub struct MFlatten {
    pub method: String,
    #[serde(flatten)]
    pub rest: MFlattenRest,
}
#[derive(Debug, Serialize, Deserialize, PartialEq, Clone)]
pub struct MFlattenRest {
    pub parameters: MStructParams,
}

#[derive(Debug, PartialEq, Clone, ReplyError)]
#[zlink(interface = "c.one", crate = "zlink_core")]
pub enum E1 {
    Alpha,
    Beta { x: i64 },
    Gamma {
        #[zlink(rename = "firstName")]
        first_name: String,
        #[zlink(rename = "n")]
        count: Option<u32>,
        plain: bool,
    },
    Delta,
    /// a plain field in front of a renamed one, another plain one behind it (each travels under its own name)
    Zeta {
        limit: u64,
        #[zlink(rename = "usedBytes")]
        used_bytes: Option<u64>,
        note: String,
    },
    /// every field is optional: a value with nothing set still has fields, so it still has `parameters`
    Eps {
        a: Option<u32>,
        #[zlink(rename = "bee")]
        b: Option<String>,
    },
}

#[derive(Debug, PartialEq, ReplyError)]
#[zlink(interface = "c.two", crate = "zlink_core")]
pub enum E2<'a> {
    Only,
    Borrowed { s: &'a str, list: Vec<u8> },
}

#[zlink_core::proxy(interface = "c.prox", crate = "zlink_core")]
pub trait UnitProxy {
    async fn do_nothing(&mut self) -> zlink_core::Result<Result<(), E1>>;
    async fn with_arg(&mut self, a: u32) -> zlink_core::Result<Result<(), E1>>;
    #[zlink(more)]
    async fn watch(&mut self) -> zlink_core::Result<impl futures_util::Stream<Item = zlink_core::Result<Result<(), E1>>>>;
}

// ------------------------------------------------------------------ helpers

fn members(v: &Value) -> Vec<String> {
    v.as_object().map(|m| m.keys().cloned().collect()).unwrap_or_default()
}

fn obj(members: &[(String, Value)]) -> String {
    // serde_json::Map keeps insertion order only with a feature; build the text by hand
    let parts: Vec<String> = members
        .iter()
        .map(|(k, v)| format!("{}:{}", serde_json::to_string(k).unwrap(), serde_json::to_string(v).unwrap()))
        .collect();
    format!("{{{}}}", parts.join(","))
}

fn own_members_text<T: Serialize>(m: &T) -> Vec<(String, Value)> {
    // member order of the method type's own encoding, from its text (Value would sort keys)
    let text = serde_json::to_string(m).unwrap();
    ordered_members(&text)
}

/// Top-level members of a JSON object text, in textual order.
pub fn ordered_members(text: &str) -> Vec<(String, Value)> {
    struct Ordered(Vec<(String, Value)>);
    impl<'de> Deserialize<'de> for Ordered {
        fn deserialize<D: serde::Deserializer<'de>>(d: D) -> Result<Self, D::Error> {
            struct V;
            impl<'de> serde::de::Visitor<'de> for V {
                type Value = Ordered;
                fn expecting(&self, f: &mut std::fmt::Formatter) -> std::fmt::Result {
                    f.write_str("object")
                }
                fn visit_map<A: serde::de::MapAccess<'de>>(self, mut m: A) -> Result<Ordered, A::Error> {
                    let mut v = Vec::new();
                    while let Some((k, val)) = m.next_entry::<String, Value>()? {
                        v.push((k, val));
                    }
                    Ok(Ordered(v))
                }
            }
            d.deserialize_map(V)
        }
    }
    serde_json::from_str::<Ordered>(text).map(|o| o.0).unwrap_or_default()
}

fn names(ms: &[(String, Value)]) -> Vec<String> {
    ms.iter().map(|(k, _)| k.clone()).collect()
}

pub struct Stats {
    pub cases: u64,
}

// ------------------------------------------------------------------ calls

fn call_cases<M>(label: &str, methods: &[M], r: &mut Rng, stats: &mut Stats)
where
    M: Serialize + DeserializeOwned + std::fmt::Debug + Clone,
{
    for m in methods {
        let own = own_members_text(m);
        for flags in 0..8u8 {
            let (ow, mo, up) = (flags & 1 != 0, flags & 2 != 0, flags & 4 != 0);
            let call = Call::new(m.clone()).set_oneway(ow).set_more(mo).set_upgrade(up);
            // (A) encoding
            let text = serde_json::to_string(&call).unwrap();
            let got = ordered_members(&text);
            let flag_vals_true = got.iter().all(|(k, v)| !matches!(k.as_str(), "oneway" | "more" | "upgrade") || *v == Value::Bool(true));
            let own_kept = own.iter().all(|(k, v)| got.iter().any(|(k2, v2)| k2 == k && v2 == v));
            stats.cases += 1;
            ev(json!({"ev":"call_enc","type":label,"own":names(&own),"oneway":ow,"more":mo,"upgrade":up,
                      "got":names(&got),"flag_vals_true":flag_vals_true,"own_kept":own_kept}));
            // (C) round trip through the library's own encoding
            let back = serde_json::from_str::<Call<M>>(&text);
            let rt = match &back {
                Ok(b) => format!("{:?}", b) == format!("{:?}", call),
                Err(_) => false,
            };
            stats.cases += 1;
            ev(json!({"ev":"call_rt","type":label,"ok":rt}));
            // the envelope through zlink's own serializer, for every buffer length: either the buffer is reported
            // as too small, or exactly the reference bytes come out (never a call that lost a flag or was cut
            // inside one because the space ran out there)
            let reference = text.as_bytes();
            let mut slice_ok = true;
            for n in 0..=reference.len() + 2 {
                let mut buf = vec![0xAAu8; n];
                match zlink_core::verif::to_slice(&call, &mut buf) {
                    zlink_core::verif::ToSlice::Ok(k) => slice_ok &= n >= reference.len() && &buf[..k] == reference,
                    zlink_core::verif::ToSlice::BufferTooSmall => slice_ok &= n < reference.len(),
                    zlink_core::verif::ToSlice::KeyMustBeAString => slice_ok = false,
                }
            }
            stats.cases += 1;
            ev(json!({"ev":"call_slice","type":label,"oneway":ow,"more":mo,"upgrade":up,"ok":slice_ok}));
        }
        // (B) decoding: flags in any position and with any value, any member order, unknown extras
        for _ in 0..12 {
            let mut ms: Vec<(String, Value)> = own.clone();
            let mut spec: Vec<&str> = Vec::new();
            for f in ["oneway", "more", "upgrade"] {
                match r.below(3) {
                    0 => spec.push("absent"),
                    1 => {
                        spec.push("true");
                        let at = r.range(0, ms.len());
                        ms.insert(at, (f.to_string(), Value::Bool(true)));
                    }
                    _ => {
                        spec.push("false");
                        let at = r.range(0, ms.len());
                        ms.insert(at, (f.to_string(), Value::Bool(false)));
                    }
                }
            }
            let extra = r.chance(1, 3);
            if extra {
                let at = r.range(0, ms.len());
                ms.insert(at, ("x-unknown".to_string(), json!({"more": true, "n": [1, 2]})));
            }
            if r.chance(1, 2) {
                // shuffle
                for i in (1..ms.len()).rev() {
                    let j = r.range(0, i);
                    ms.swap(i, j);
                }
            }
            let text = obj(&ms);
            let rest: Vec<(String, Value)> = ms.iter().filter(|(k, _)| !matches!(k.as_str(), "oneway" | "more" | "upgrade")).cloned().collect();
            let rest_text = obj(&rest);
            let rest_dec = serde_json::from_str::<M>(&rest_text);
            let call_dec = serde_json::from_str::<Call<M>>(&text);
            let same = match (&rest_dec, &call_dec) {
                (Ok(a), Ok(c)) => format!("{:?}", a) == format!("{:?}", c.method()),
                _ => true,
            };
            let (go, gm, gu) = match &call_dec {
                Ok(c) => (c.oneway(), c.more(), c.upgrade()),
                Err(_) => (false, false, false),
            };
            stats.cases += 1;
            ev(json!({"ev":"call_dec","type":label,"members":names(&ms),"oneway":spec[0],"more":spec[1],"upgrade":spec[2],
                      "extra":extra,"rest_ok":rest_dec.is_ok(),"call_ok":call_dec.is_ok(),"same_method":same,
                      "got_oneway":go,"got_more":gm,"got_upgrade":gu}));
        }
    }
}

// ------------------------------------------------------------------ errors

fn err_cases<E>(label: &str, iface: &str, values: &[(E, &str, Vec<&str>)], r: &mut Rng, stats: &mut Stats)
where
    E: Serialize + for<'de> Deserialize<'de> + std::fmt::Debug,
{
    for (e, variant, fields) in values {
        // encoding
        let text = serde_json::to_string(e).unwrap();
        let top = ordered_members(&text);
        let got_error = top.iter().find(|(k, _)| k == "error").and_then(|(_, v)| v.as_str().map(|s| s.to_string())).unwrap_or_default();
        let got_keys: Vec<String> = top
            .iter()
            .find(|(k, _)| k == "parameters")
            .map(|(_, v)| serde_json::to_string(v).unwrap())
            .map(|t| names(&ordered_members(&t)))
            .unwrap_or_default();
        stats.cases += 1;
        ev(json!({"ev":"err_enc","type":label,"iface":iface,"variant":variant,"fields":fields,
                  "got_top":names(&top),"got_error":got_error,"got_keys":got_keys}));
        // decoding from any member order and every spelling of "no parameters"
        let params_val: Option<Value> = top.iter().find(|(k, _)| k == "parameters").map(|(_, v)| v.clone());
        let spellings: Vec<(&str, Option<Value>)> = if fields.is_empty() {
            vec![("absent", None), ("null", Some(Value::Null)), ("empty", Some(json!({})))]
        } else {
            vec![("full", params_val.clone())]
        };
        for (sp, pv) in spellings {
            for order in ["error_first", "params_first"] {
                for extra in [false, true] {
                    let mut ms: Vec<(String, Value)> = vec![("error".into(), Value::String(got_error.clone()))];
                    if let Some(p) = &pv {
                        // fields of the parameters object in a random order
                        let p = if let Some(o) = p.as_object() {
                            let mut kv: Vec<(String, Value)> = o.iter().map(|(k, v)| (k.clone(), v.clone())).collect();
                            if r.chance(1, 2) {
                                kv.reverse();
                            }
                            serde_json::from_str::<Value>(&obj(&kv)).unwrap()
                        } else {
                            p.clone()
                        };
                        ms.push(("parameters".into(), p));
                    }
                    if order == "params_first" {
                        ms.reverse();
                    }
                    if extra {
                        ms.insert(r.range(0, ms.len()), ("unknown".into(), json!(1)));
                    }
                    let t = obj(&ms);
                    let dec = serde_json::from_str::<E>(&t);
                    let same = match &dec {
                        Ok(d) => format!("{:?}", d) == format!("{:?}", e),
                        Err(_) => false,
                    };
                    stats.cases += 1;
                    ev(json!({"ev":"err_dec","type":label,"variant":variant,"nfields":fields.len(),"spelling":sp,
                              "order":order,"extra":extra,"ok":dec.is_ok(),"same":same,"text":crate::util::canon(&t)}));
                }
            }
        }
    }
}

// ------------------------------------------------------------------ replies

fn reply_cases(stats: &mut Stats) {
    for has_params in [false, true] {
        for cont in ["none", "true", "false"] {
            let c = match cont {
                "none" => None,
                "true" => Some(true),
                _ => Some(false),
            };
            let rep = Reply::new(if has_params { Some(RStrict { i: 5, pad: "p".into() }) } else { None }).set_continues(c);
            let text = serde_json::to_string(&rep).unwrap();
            let got = ordered_members(&text);
            stats.cases += 1;
            ev(json!({"ev":"reply_enc","has_params":has_params,"cont":cont,"got":names(&got)}));
            for order in ["natural", "reversed"] {
                let mut ms = got.clone();
                if order == "reversed" {
                    ms.reverse();
                }
                let t = obj(&ms);
                let dec = serde_json::from_str::<Reply<RStrict>>(&t);
                let same = match &dec {
                    Ok(d) => format!("{:?}", d) == format!("{:?}", rep),
                    Err(_) => false,
                };
                // and through a connection (the reply path of receive_reply)
                let wire = new_wire(0);
                wire.borrow_mut().log_reads = false;
                let mut b = t.clone().into_bytes();
                b.push(0);
                wire.borrow_mut().inb.push_back(Some(b));
                let mut conn = Connection::new(Sock(wire.clone()));
                let via_conn = match block_on(conn.receive_reply::<RStrict, UErr>()) {
                    Ok(Ok(d)) => format!("{:?}", d) == format!("{:?}", rep),
                    _ => false,
                };
                stats.cases += 1;
                ev(json!({"ev":"reply_dec","has_params":has_params,"cont":cont,"order":order,"ok":dec.is_ok(),"same":same,"via_conn":via_conn}));
            }
        }
    }
}

// ------------------------------------------------------------------ spellings of "no parameters"

fn spelling_cases(stats: &mut Stats) {
    let forms: [(&str, Option<&str>); 3] = [("absent", None), ("null", Some("null")), ("empty", Some("{}"))];
    let with = |head: &str, p: Option<&str>, first: bool| match p {
        None => format!("{{{head}}}"),
        Some(p) if first => format!("{{\"parameters\":{p},{head}}}"),
        Some(p) => format!("{{{head},\"parameters\":{p}}}"),
    };
    for (form, p) in forms {
        for first in [false, true] {
            if p.is_none() && first {
                continue;
            }
            let ord = if first { "params_first" } else { "head_first" };
            // the standard service methods without parameters
            let t = with("\"method\":\"org.varlink.service.GetInfo\"", p, first);
            let ok = matches!(serde_json::from_str::<Call<varlink_service::Method<'_>>>(&t), Ok(c) if matches!(c.method(), varlink_service::Method::GetInfo));
            stats.cases += 1;
            ev(json!({"ev":"spelling","site":"std_method","name":"GetInfo","form":form,"order":ord,"ok":ok}));
            // the standard service errors without fields
            for (name, want) in [("PermissionDenied", varlink_service::Error::PermissionDenied), ("ExpectedMore", varlink_service::Error::ExpectedMore)] {
                let t = with(&format!("\"error\":\"org.varlink.service.{name}\""), p, first);
                let ok = matches!(serde_json::from_str::<varlink_service::Error>(&t), Ok(e) if e == want);
                stats.cases += 1;
                ev(json!({"ev":"spelling","site":"std_error","name":name,"form":form,"order":ord,"ok":ok}));
                // ... and as a connection-level error of receive_reply
                let wire = new_wire(0);
                wire.borrow_mut().log_reads = false;
                let mut b = t.clone().into_bytes();
                b.push(0);
                wire.borrow_mut().inb.push_back(Some(b));
                let mut conn = Connection::new(Sock(wire.clone()));
                let ok = matches!(block_on(conn.receive_reply::<ROpt, UErr>()), Err(zlink_core::Error::VarlinkService(e)) if e == want);
                stats.cases += 1;
                ev(json!({"ev":"spelling","site":"std_error_conn","name":name,"form":form,"order":ord,"ok":ok}));
            }
            // field-less variants of derived error enums
            for (name, iface) in [("Alpha", "c.one"), ("Delta", "c.one")] {
                let t = with(&format!("\"error\":\"{iface}.{name}\""), p, first);
                let ok = match serde_json::from_str::<E1>(&t) {
                    Ok(E1::Alpha) => name == "Alpha",
                    Ok(E1::Delta) => name == "Delta",
                    _ => false,
                };
                stats.cases += 1;
                ev(json!({"ev":"spelling","site":"derive_unit","name":name,"form":form,"order":ord,"ok":ok}));
            }
            let t = with("\"error\":\"c.two.Only\"", p, first);
            let ok = matches!(serde_json::from_str::<E2<'_>>(&t), Ok(E2::Only));
            stats.cases += 1;
            ev(json!({"ev":"spelling","site":"derive_unit","name":"Only(borrowed enum)","form":form,"order":ord,"ok":ok}));
            // proxy methods without outputs
            {
                // a streaming method without outputs: a continuing reply then the final one
                let t = match p {
                    None => "{\"continues\":true}\u{0}{}".to_string(),
                    Some(p) if first => format!("{{\"parameters\":{p},\"continues\":true}}\u{0}{{\"parameters\":{p},\"continues\":false}}"),
                    Some(p) => format!("{{\"continues\":true,\"parameters\":{p}}}\u{0}{{\"parameters\":{p}}}"),
                };
                let wire = new_wire(0);
                wire.borrow_mut().log_reads = false;
                wire.borrow_mut().log_writes = false;
                let mut b = t.clone().into_bytes();
                b.push(0);
                wire.borrow_mut().inb.push_back(Some(b));
                let mut conn = Connection::new(Sock(wire.clone()));
                let ok = {
                    use futures_util::StreamExt;
                    match block_on(conn.watch()) {
                        Ok(stream) => {
                            let mut stream = std::pin::pin!(stream);
                            let a = block_on(stream.next());
                            let b = block_on(stream.next());
                            let c = block_on(stream.next());
                            matches!(a, Some(Ok(Ok(())))) && matches!(b, Some(Ok(Ok(())))) && c.is_none()
                        }
                        Err(_) => false,
                    }
                };
                stats.cases += 1;
                ev(json!({"ev":"spelling","site":"proxy_unit_stream","name":"watch","form":form,"order":ord,"ok":ok}));
            }
            for which in ["do_nothing", "with_arg"] {
                let t = match p {
                    None => "{}".to_string(),
                    Some(p) if first => format!("{{\"parameters\":{p},\"continues\":false}}"),
                    Some(p) => format!("{{\"parameters\":{p}}}"),
                };
                let wire = new_wire(0);
                wire.borrow_mut().log_reads = false;
                wire.borrow_mut().log_writes = false;
                let mut b = t.clone().into_bytes();
                b.push(0);
                wire.borrow_mut().inb.push_back(Some(b));
                let mut conn = Connection::new(Sock(wire.clone()));
                let res = if which == "do_nothing" { block_on(conn.do_nothing()) } else { block_on(conn.with_arg(3)) };
                let ok = matches!(res, Ok(Ok(())));
                stats.cases += 1;
                ev(json!({"ev":"spelling","site":"proxy_unit","name":which,"form":form,"order":ord,"ok":ok}));
            }
        }
    }
}

pub fn run_all(r: &mut Rng, stats: &mut Stats) {
    ev(json!({"ev":"reset","sid":"envelope"}));
    call_cases(
        "enum_owned",
        &[
            MOwned::Echo { i: 7, pad: "x".into() },
            MOwned::Ping,
            MOwned::Set { key: "k".into(), value: None, tags: vec![] },
            MOwned::Set { key: "oneway".into(), value: Some(-3), tags: vec!["more".into(), "upgrade".into()] },
        ],
        r,
        stats,
    );
    call_cases(
        "struct_flat",
        &[MFlat { method: "a.B".into(), a: 1, b: None }, MFlat { method: "more".into(), a: 255, b: Some("oneway".into()) }],
        r,
        stats,
    );
    call_cases(
        "struct_flatten",
        &[MFlatten { method: "m.F".into(), rest: MFlattenRest { parameters: MStructParams { i: 9, pad: "more".into() } } }],
        r,
        stats,
    );
    call_cases(
        "map",
        &[
            std::collections::BTreeMap::from([("method".to_string(), json!("m.Map")), ("parameters".to_string(), json!({"k": [1, 2], "oneway": "no"}))]),
            std::collections::BTreeMap::from([("method".to_string(), json!("m.Bare"))]),
        ],
        r,
        stats,
    );
    call_cases("struct_strict", &[MStruct { method: "m.N".into(), parameters: MStructParams { i: 3, pad: "q".into() } }], r, stats);
    // borrowed method types: decoded from the text directly (DeserializeOwned is not available)
    borrowed_call_cases(r, stats);
    err_cases(
        "E1",
        "c.one",
        &[
            (E1::Alpha, "Alpha", vec![]),
            (E1::Beta { x: -9 }, "Beta", vec!["x"]),
            (E1::Gamma { first_name: "f".into(), count: Some(2), plain: true }, "Gamma", vec!["firstName", "n", "plain"]),
            (E1::Gamma { first_name: "g".into(), count: None, plain: false }, "Gamma", vec!["firstName", "n", "plain"]),
            (E1::Delta, "Delta", vec![]),
            (E1::Zeta { limit: 10, used_bytes: Some(12), note: "n".into() }, "Zeta", vec!["limit", "usedBytes", "note"]),
            (E1::Zeta { limit: 0, used_bytes: None, note: String::new() }, "Zeta", vec!["limit", "usedBytes", "note"]),
            (E1::Eps { a: None, b: None }, "Eps", vec!["a", "bee"]),
            (E1::Eps { a: Some(1), b: None }, "Eps", vec!["a", "bee"]),
            (E1::Eps { a: None, b: Some("x".into()) }, "Eps", vec!["a", "bee"]),
        ],
        r,
        stats,
    );
    err_cases(
        "UErr",
        "t.err",
        &[
            (UErr::NotFound, "NotFound", vec![]),
            (UErr::Busy, "Busy", vec![]),
            (UErr::Bad { code: 4, msg: "m".into() }, "Bad", vec!["code", "msg"]),
            (UErr::Renamed { field: 1, opt: Some("o".into()) }, "Renamed", vec!["wireName", "opt"]),
        ],
        r,
        stats,
    );
    err_cases(
        "std",
        "org.varlink.service",
        &[
            (varlink_service::Error::PermissionDenied, "PermissionDenied", vec![]),
            (varlink_service::Error::ExpectedMore, "ExpectedMore", vec![]),
            (varlink_service::Error::MethodNotFound { method: "a.B".into() }, "MethodNotFound", vec!["method"]),
            (varlink_service::Error::InterfaceNotFound { interface: "a".into() }, "InterfaceNotFound", vec!["interface"]),
            (varlink_service::Error::MethodNotImplemented { method: "a.B".into() }, "MethodNotImplemented", vec!["method"]),
            (varlink_service::Error::InvalidParameter { parameter: "p".into() }, "InvalidParameter", vec!["parameter"]),
        ],
        r,
        stats,
    );
    reply_cases(stats);
    spelling_cases(stats);
    ev(json!({"ev":"end"}));
}

fn borrowed_call_cases(r: &mut Rng, stats: &mut Stats) {
    let methods = [
        MEnum::Borrow { s: "hello", n: Some(3) },
        MEnum::Borrow { s: "", n: None },
        MEnum::Ping,
    ];
    for m in &methods {
        let own = own_members_text(m);
        for flags in 0..8u8 {
            let (ow, mo, up) = (flags & 1 != 0, flags & 2 != 0, flags & 4 != 0);
            let text = {
                let call = Call::new(m).set_oneway(ow).set_more(mo).set_upgrade(up);
                serde_json::to_string(&call).unwrap()
            };
            let got = ordered_members(&text);
            let flag_vals_true = got.iter().all(|(k, v)| !matches!(k.as_str(), "oneway" | "more" | "upgrade") || *v == Value::Bool(true));
            let own_kept = own.iter().all(|(k, v)| got.iter().any(|(k2, v2)| k2 == k && v2 == v));
            stats.cases += 1;
            ev(json!({"ev":"call_enc","type":"enum_borrowed","own":names(&own),"oneway":ow,"more":mo,"upgrade":up,
                      "got":names(&got),"flag_vals_true":flag_vals_true,"own_kept":own_kept}));
            let mut ms = got.clone();
            if r.chance(1, 2) {
                ms.reverse();
            }
            let t = obj(&ms);
            let back = serde_json::from_str::<Call<MEnum<'_>>>(&t);
            let rt = match &back {
                Ok(b) => format!("{:?}", b.method()) == format!("{:?}", m) && b.oneway() == ow && b.more() == mo && b.upgrade() == up,
                Err(_) => false,
            };
            stats.cases += 1;
            ev(json!({"ev":"call_rt","type":"enum_borrowed","ok":rt}));
        }
    }
    let _ = Map::<String, Value>::new();
}
