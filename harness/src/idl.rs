//! C13 / C14: the interface definition language.
//!
//! The harness owns a plain description tree (`Iface`), a renderer with arbitrary legal layout,
//! an independent lexer (text -> tokens, the trusted projection of DESIGN 2.5), builders for
//! zlink's `idl::Interface` through its public constructors (borrowed and owned forms) and the
//! projection of a zlink `Interface` back to canonical tokens through its public accessors.
//! Every case becomes one event; `specs/IdlTrace.tla` decides (with the grammar acceptor of
//! `specs/Idl.tla`) whether zlink's answer is the right one.

use crate::util::{ev, Rng};
use serde::{Deserialize, Serialize};
use serde_json::{json, Value};
use zlink_core::idl;

// ------------------------------------------------------------------ description tree

#[derive(Clone, Debug, Serialize, Deserialize, PartialEq)]
pub struct Ty {
    pub t: String, // prim custom opt arr map struct enum
    pub name: String,
    pub inner: Vec<Ty>,
    pub fields: Vec<Field>,
    pub variants: Vec<Variant>,
}
#[derive(Clone, Debug, Serialize, Deserialize, PartialEq)]
pub struct Field {
    pub name: String,
    pub comments: Vec<String>,
    pub ty: Ty,
}
#[derive(Clone, Debug, Serialize, Deserialize, PartialEq)]
pub struct Variant {
    pub name: String,
    pub comments: Vec<String>,
}
#[derive(Clone, Debug, Serialize, Deserialize, PartialEq)]
pub struct Member {
    pub kind: String, // type method error
    pub name: String,
    pub comments: Vec<String>,
    pub ins: Vec<Field>, // fields of a type / error, inputs of a method
    pub outs: Vec<Field>,
    pub variants: Vec<Variant>,
    pub isenum: bool,
}
#[derive(Clone, Debug, Serialize, Deserialize, PartialEq)]
pub struct Iface {
    pub name: String,
    pub comments: Vec<String>,
    pub members: Vec<Member>,
}

impl Ty {
    pub fn leaf(t: &str, name: &str) -> Ty {
        Ty { t: t.into(), name: name.into(), inner: vec![], fields: vec![], variants: vec![] }
    }
    pub fn wrap(t: &str, inner: Ty) -> Ty {
        Ty { t: t.into(), name: String::new(), inner: vec![inner], fields: vec![], variants: vec![] }
    }
    pub fn strukt(fields: Vec<Field>) -> Ty {
        Ty { t: "struct".into(), name: String::new(), inner: vec![], fields, variants: vec![] }
    }
    pub fn enumm(variants: Vec<Variant>) -> Ty {
        Ty { t: "enum".into(), name: String::new(), inner: vec![], fields: vec![], variants }
    }
    fn strip_comments(&mut self) {
        for i in &mut self.inner {
            i.strip_comments();
        }
        for f in &mut self.fields {
            f.comments.clear();
            f.ty.strip_comments();
        }
        for v in &mut self.variants {
            v.comments.clear();
        }
    }
}

impl Iface {
    /// Drop the comments inside nested inline types (kept: interface, members, their direct
    /// fields / parameters / variants) — the levels C14's statement names.
    pub fn strip_nested_comments(&mut self) {
        for m in &mut self.members {
            for f in m.ins.iter_mut().chain(m.outs.iter_mut()) {
                f.ty.strip_comments();
            }
        }
    }
    /// Does the description contain an enum with >= 2 variants of which one is commented
    /// (at a level that is kept)?  Those are the inputs of the open C14 finding.
    pub fn has_commented_enum(&self) -> bool {
        fn ty(t: &Ty) -> bool {
            (t.t == "enum" && t.variants.len() >= 2 && t.variants.iter().any(|v| !v.comments.is_empty()))
                || t.inner.iter().any(ty)
                || t.fields.iter().any(|f| ty(&f.ty))
        }
        self.members.iter().any(|m| {
            (m.isenum && m.variants.len() >= 2 && m.variants.iter().any(|v| !v.comments.is_empty()))
                || m.ins.iter().chain(m.outs.iter()).any(|f| ty(&f.ty))
        })
    }
}

// ------------------------------------------------------------------ tokens and the lexer

#[derive(Clone, Debug, Serialize, Deserialize, PartialEq)]
pub struct Tok {
    pub k: String,
    pub s: String,
    pub c: String,
    pub sp: bool,
    pub own: bool,
}

fn class_of(word: &str) -> String {
    word.chars()
        .map(|ch| match ch {
            'A'..='Z' => 'U',
            'a'..='z' => 'l',
            '0'..='9' => 'd',
            o => o,
        })
        .collect()
}

fn is_word_char(ch: char) -> bool {
    ch.is_ascii_alphanumeric() || ch == '_' || ch == '.' || ch == '-'
}

/// Text -> tokens.  Whitespace is space, tab, LF, CR; a comment runs from `#` to the end of its
/// line (the end of the text counts as one); words are maximal runs of letters, digits, `_`, `.`
/// and `-` (a `-` directly followed by `>` starts the arrow instead); everything that is neither
/// punctuation of the grammar nor one of those is a `B` token of its own.
pub fn lex(text: &str) -> Vec<Tok> {
    let b: Vec<char> = text.chars().collect();
    let n = b.len();
    let mut toks = Vec::new();
    let mut i = 0usize;
    let mut sp = true;
    let mut line_blank = true;
    let push = |toks: &mut Vec<Tok>, k: &str, s: String, c: String, sp: bool, own: bool| {
        toks.push(Tok { k: k.into(), s, c, sp, own });
    };
    while i < n {
        let ch = b[i];
        match ch {
            ' ' | '\t' => {
                sp = true;
                i += 1;
            }
            '\n' | '\r' => {
                sp = true;
                line_blank = true;
                i += 1;
            }
            '#' => {
                let mut j = i + 1;
                while j < n && b[j] != '\n' && b[j] != '\r' {
                    j += 1;
                }
                let raw: String = b[i + 1..j].iter().collect();
                let s = raw.trim_start_matches([' ', '\t']).to_string();
                push(&mut toks, "C", s, String::new(), sp, line_blank);
                i = j;
                sp = true;
                line_blank = false;
            }
            '(' | ')' | ',' | ':' | '?' => {
                push(&mut toks, "P", ch.to_string(), String::new(), sp, false);
                i += 1;
                sp = false;
                line_blank = false;
            }
            '[' => {
                let rest: String = b[i..n.min(i + 8)].iter().collect();
                if rest.starts_with("[]") {
                    push(&mut toks, "P", "[]".into(), String::new(), sp, false);
                    i += 2;
                } else if rest.starts_with("[string]") {
                    push(&mut toks, "P", "[string]".into(), String::new(), sp, false);
                    i += 8;
                } else {
                    push(&mut toks, "B", String::new(), String::new(), sp, false);
                    i += 1;
                }
                sp = false;
                line_blank = false;
            }
            '-' if i + 1 < n && b[i + 1] == '>' => {
                push(&mut toks, "P", "->".into(), String::new(), sp, false);
                i += 2;
                sp = false;
                line_blank = false;
            }
            c if is_word_char(c) => {
                let mut j = i;
                while j < n && is_word_char(b[j]) && !(b[j] == '-' && j + 1 < n && b[j + 1] == '>') {
                    j += 1;
                }
                let w: String = b[i..j].iter().collect();
                let c = class_of(&w);
                push(&mut toks, "W", w, c, sp, false);
                i = j;
                sp = false;
                line_blank = false;
            }
            _ => {
                push(&mut toks, "B", String::new(), String::new(), sp, false);
                i += 1;
                sp = false;
                line_blank = false;
            }
        }
    }
    toks
}

// ------------------------------------------------------------------ rendering with layout

/// Pieces of a description in source order, before whitespace is chosen.
#[derive(Clone, Debug)]
enum Piece {
    Word(String),
    Punct(&'static str),
    Glue(&'static str), // ? [] [string]: nothing may follow before the element
    Comment(String),
    MemberStart, // an end of line is required before this point (except at the very start)
}

fn ty_pieces(t: &Ty, out: &mut Vec<Piece>) {
    match t.t.as_str() {
        "prim" | "custom" => out.push(Piece::Word(t.name.clone())),
        "opt" => {
            out.push(Piece::Glue("?"));
            ty_pieces(&t.inner[0], out);
        }
        "arr" => {
            out.push(Piece::Glue("[]"));
            ty_pieces(&t.inner[0], out);
        }
        "map" => {
            out.push(Piece::Glue("[string]"));
            ty_pieces(&t.inner[0], out);
        }
        "struct" => fields_pieces(&t.fields, out),
        "enum" => variants_pieces(&t.variants, out),
        o => panic!("unknown type kind {o}"),
    }
}
fn fields_pieces(fs: &[Field], out: &mut Vec<Piece>) {
    out.push(Piece::Punct("("));
    for (i, f) in fs.iter().enumerate() {
        if i > 0 {
            out.push(Piece::Punct(","));
        }
        for c in &f.comments {
            out.push(Piece::Comment(c.clone()));
        }
        out.push(Piece::Word(f.name.clone()));
        out.push(Piece::Punct(":"));
        ty_pieces(&f.ty, out);
    }
    out.push(Piece::Punct(")"));
}
fn variants_pieces(vs: &[Variant], out: &mut Vec<Piece>) {
    out.push(Piece::Punct("("));
    for (i, v) in vs.iter().enumerate() {
        if i > 0 {
            out.push(Piece::Punct(","));
        }
        for c in &v.comments {
            out.push(Piece::Comment(c.clone()));
        }
        out.push(Piece::Word(v.name.clone()));
    }
    out.push(Piece::Punct(")"));
}
fn iface_pieces(a: &Iface) -> Vec<Piece> {
    let mut out = Vec::new();
    for c in &a.comments {
        out.push(Piece::Comment(c.clone()));
    }
    out.push(Piece::Word("interface".into()));
    out.push(Piece::Word(a.name.clone()));
    for m in &a.members {
        out.push(Piece::MemberStart);
        for c in &m.comments {
            out.push(Piece::Comment(c.clone()));
        }
        out.push(Piece::Word(m.kind.clone()));
        out.push(Piece::Word(m.name.clone()));
        match (m.kind.as_str(), m.isenum) {
            ("method", _) => {
                fields_pieces(&m.ins, &mut out);
                out.push(Piece::Punct("->"));
                fields_pieces(&m.outs, &mut out);
            }
            ("type", true) => variants_pieces(&m.variants, &mut out),
            _ => fields_pieces(&m.ins, &mut out),
        }
    }
    out
}

/// Layout styles: 0 = as tight as the grammar allows, 1 = conventional, 2 = random generous
/// whitespace (spaces, tabs, LF), 3 = like 2 with CR LF line ends, 4 = like 2 with lone CR line ends
/// (the grammar's end of line is LF, CR LF or CR).
pub fn render(a: &Iface, style: u32, r: &mut Rng) -> String {
    render_pieces(&iface_pieces(a), style, r)
}

fn render_pieces(ps: &[Piece], style: u32, r: &mut Rng) -> String {
    let nl = if style == 3 {
        "\r\n"
    } else if style == 4 {
        "\r"
    } else {
        "\n"
    };
    let mut s = String::new();
    let mut at_line_start = true; // nothing but whitespace on the current line so far
    let mut prev_word = false;
    let mut prev_glue = false;
    let gap = |r: &mut Rng, s: &mut String, at_line_start: &mut bool| {
        // optional whitespace
        match r.below(6) {
            0 => s.push(' '),
            1 => s.push('\t'),
            2 => {
                s.push_str(nl);
                *at_line_start = true;
            }
            3 => {
                s.push_str("  ");
                s.push_str(nl);
                s.push_str("   ");
                *at_line_start = true;
            }
            _ => {}
        }
    };
    for (idx, p) in ps.iter().enumerate() {
        match p {
            Piece::MemberStart => {
                if style == 1 {
                    s.push_str(nl);
                    s.push_str(nl);
                } else {
                    s.push_str(nl);
                    if style >= 2 && r.chance(1, 3) {
                        s.push_str(nl);
                        s.push_str("  ");
                    }
                }
                at_line_start = true;
                prev_word = false;
                prev_glue = false;
            }
            Piece::Comment(c) => {
                if !at_line_start {
                    s.push_str(nl);
                }
                if style >= 2 && r.chance(1, 2) {
                    s.push_str(if r.chance(1, 2) { "\t" } else { "    " });
                }
                s.push('#');
                if !c.is_empty() {
                    match if style >= 2 { r.below(3) } else { 1 } {
                        0 => {}
                        1 => s.push(' '),
                        _ => s.push_str(" \t "),
                    }
                    // (without the blank a comment text that starts with a blank-like character
                    // would still lex the same: texts never start with a blank)
                    s.push_str(c);
                }
                s.push_str(nl);
                at_line_start = true;
                prev_word = false;
                prev_glue = false;
            }
            Piece::Word(w) => {
                if prev_word {
                    // mandatory separation of two words
                    if style >= 2 {
                        s.push(' ');
                        gap(r, &mut s, &mut at_line_start);
                    } else {
                        s.push(' ');
                    }
                } else if !prev_glue && style >= 2 && idx > 0 {
                    gap(r, &mut s, &mut at_line_start);
                } else if !prev_glue && style == 1 && idx > 0 {
                    if let Some(Piece::Punct(q)) = ps.get(idx - 1) {
                        if *q == ":" || *q == "," || *q == "->" {
                            s.push(' ');
                        }
                    }
                }
                s.push_str(w);
                at_line_start = false;
                prev_word = true;
                prev_glue = false;
            }
            Piece::Punct(q) | Piece::Glue(q) => {
                let is_glue = matches!(p, Piece::Glue(_));
                if !prev_glue && idx > 0 {
                    if style >= 2 {
                        gap(r, &mut s, &mut at_line_start);
                    } else if style == 1 {
                        let after = matches!(ps.get(idx - 1), Some(Piece::Punct(x)) if *x == ":" || *x == "," || *x == "->");
                        if after || *q == "->" {
                            s.push(' ');
                        }
                    }
                }
                s.push_str(q);
                at_line_start = false;
                prev_word = false;
                prev_glue = is_glue;
            }
        }
    }
    if style >= 2 && r.chance(1, 2) {
        s.push_str(nl);
    }
    s
}

/// Render a (possibly mutated) token list: single blanks, nothing behind `?`, `[]`, `[string]`,
/// a line break before every member keyword, comments on their own lines.
pub fn render_tokens(ts: &[Tok]) -> String {
    let mut s = String::new();
    let mut glue = false;
    for (i, t) in ts.iter().enumerate() {
        match t.k.as_str() {
            "C" => {
                if i > 0 {
                    s.push('\n');
                }
                s.push_str("# ");
                s.push_str(&t.s);
                s.push('\n');
                glue = false;
                continue;
            }
            "W" if ["type", "method", "error"].contains(&t.s.as_str()) && !glue => {
                if i > 0 {
                    s.push('\n');
                }
            }
            _ => {
                if i > 0 && !glue && !s.ends_with('\n') {
                    s.push(' ');
                }
            }
        }
        s.push_str(&t.s);
        glue = t.k == "P" && ["?", "[]", "[string]"].contains(&t.s.as_str());
    }
    s
}

// ------------------------------------------------------------------ zlink <-> tree

fn leak<T>(t: T) -> &'static T {
    Box::leak(Box::new(t))
}

fn z_comments_owned(cs: &'static [String]) -> Vec<idl::Comment<'static>> {
    cs.iter().map(|c| idl::Comment::new(c.as_str())).collect()
}
fn z_comments_borrowed(cs: &'static [String]) -> &'static [&'static idl::Comment<'static>] {
    let v: Vec<&'static idl::Comment<'static>> = cs.iter().map(|c| leak(idl::Comment::new(c.as_str()))).collect();
    leak(v).as_slice()
}

fn z_type(t: &'static Ty, owned: bool) -> idl::Type<'static> {
    use idl::{Type, TypeRef};
    let r = |inner: &'static Ty| -> TypeRef<'static> {
        if owned {
            TypeRef::new_owned(z_type(inner, owned))
        } else {
            TypeRef::new(leak(z_type(inner, owned)))
        }
    };
    match t.t.as_str() {
        "prim" => match t.name.as_str() {
            "bool" => Type::Bool,
            "int" => Type::Int,
            "float" => Type::Float,
            "string" => Type::String,
            "object" => Type::ForeignObject,
            o => panic!("unknown primitive {o}"),
        },
        "custom" => Type::Custom(t.name.as_str()),
        "opt" => Type::Optional(r(&t.inner[0])),
        "arr" => Type::Array(r(&t.inner[0])),
        "map" => Type::Map(r(&t.inner[0])),
        "struct" => {
            if owned {
                Type::Object(idl::List::from(t.fields.iter().map(|f| z_field(f, owned)).collect::<Vec<_>>()))
            } else {
                let v: Vec<&'static idl::Field<'static>> = t.fields.iter().map(|f| leak(z_field(f, owned))).collect();
                Type::Object(idl::List::Borrowed(leak(v).as_slice()))
            }
        }
        "enum" => {
            if owned {
                Type::Enum(idl::List::from(t.variants.iter().map(|v| z_variant(v, owned)).collect::<Vec<_>>()))
            } else {
                let v: Vec<&'static idl::EnumVariant<'static>> = t.variants.iter().map(|v| leak(z_variant(v, owned))).collect();
                Type::Enum(idl::List::Borrowed(leak(v).as_slice()))
            }
        }
        o => panic!("unknown type kind {o}"),
    }
}
fn z_field(f: &'static Field, owned: bool) -> idl::Field<'static> {
    if owned {
        idl::Field::new_owned(f.name.as_str(), z_type(&f.ty, owned), z_comments_owned(&f.comments))
    } else {
        idl::Field::new(f.name.as_str(), leak(z_type(&f.ty, owned)), z_comments_borrowed(&f.comments))
    }
}
fn z_variant(v: &'static Variant, owned: bool) -> idl::EnumVariant<'static> {
    if owned {
        idl::EnumVariant::new_owned(v.name.as_str(), z_comments_owned(&v.comments))
    } else {
        idl::EnumVariant::new(v.name.as_str(), z_comments_borrowed(&v.comments))
    }
}
fn z_fields_borrowed(fs: &'static [Field]) -> &'static [&'static idl::Field<'static>] {
    let v: Vec<&'static idl::Field<'static>> = fs.iter().map(|f| leak(z_field(f, false))).collect();
    leak(v).as_slice()
}

/// Build zlink's `Interface` from a tree through the public constructors.  The tree is leaked
/// (the borrowed form needs `'static` data; a few KiB per case).
pub fn z_interface(a: &Iface, owned: bool) -> idl::Interface<'static> {
    let a: &'static Iface = leak(a.clone());
    let mut methods = Vec::new();
    let mut types = Vec::new();
    let mut errors = Vec::new();
    for m in &a.members {
        match (m.kind.as_str(), m.isenum) {
            ("method", _) => methods.push(if owned {
                idl::Method::new_owned(
                    m.name.as_str(),
                    m.ins.iter().map(|f| z_field(f, true)).collect(),
                    m.outs.iter().map(|f| z_field(f, true)).collect(),
                    z_comments_owned(&m.comments),
                )
            } else {
                idl::Method::new(m.name.as_str(), z_fields_borrowed(&m.ins), z_fields_borrowed(&m.outs), z_comments_borrowed(&m.comments))
            }),
            ("type", true) => types.push(idl::CustomType::from(if owned {
                idl::CustomEnum::new_owned(m.name.as_str(), m.variants.iter().map(|v| z_variant(v, true)).collect(), z_comments_owned(&m.comments))
            } else {
                let v: Vec<&'static idl::EnumVariant<'static>> = m.variants.iter().map(|v| leak(z_variant(v, false))).collect();
                idl::CustomEnum::new(m.name.as_str(), leak(v).as_slice(), z_comments_borrowed(&m.comments))
            })),
            ("type", false) => types.push(idl::CustomType::from(if owned {
                idl::CustomObject::new_owned(m.name.as_str(), m.ins.iter().map(|f| z_field(f, true)).collect(), z_comments_owned(&m.comments))
            } else {
                idl::CustomObject::new(m.name.as_str(), z_fields_borrowed(&m.ins), z_comments_borrowed(&m.comments))
            })),
            ("error", _) => errors.push(if owned {
                idl::Error::new_owned(m.name.as_str(), m.ins.iter().map(|f| z_field(f, true)).collect(), z_comments_owned(&m.comments))
            } else {
                idl::Error::new(m.name.as_str(), z_fields_borrowed(&m.ins), z_comments_borrowed(&m.comments))
            }),
            (o, _) => panic!("unknown member kind {o}"),
        }
    }
    if owned {
        idl::Interface::new_owned(a.name.as_str(), methods, types, errors, z_comments_owned(&a.comments))
    } else {
        let ms: Vec<&'static idl::Method<'static>> = methods.into_iter().map(leak).map(|x| &*x).collect();
        let ts: Vec<&'static idl::CustomType<'static>> = types.into_iter().map(leak).map(|x| &*x).collect();
        let es: Vec<&'static idl::Error<'static>> = errors.into_iter().map(leak).map(|x| &*x).collect();
        idl::Interface::new(a.name.as_str(), leak(ms).as_slice(), leak(ts).as_slice(), leak(es).as_slice(), z_comments_borrowed(&a.comments))
    }
}

fn w(s: &str) -> Value {
    json!({"k":"W","s":s})
}
fn p(s: &str) -> Value {
    json!({"k":"P","s":s})
}
fn cm<'a>(out: &mut Vec<Value>, cs: impl Iterator<Item = &'a idl::Comment<'a>>) {
    for c in cs {
        out.push(json!({"k":"C","s":c.content()}));
    }
}
fn canon_type(t: &idl::Type<'_>, out: &mut Vec<Value>) {
    use idl::Type;
    match t {
        Type::Bool => out.push(w("bool")),
        Type::Int => out.push(w("int")),
        Type::Float => out.push(w("float")),
        Type::String => out.push(w("string")),
        Type::ForeignObject => out.push(w("object")),
        Type::Custom(n) => out.push(w(n)),
        Type::Optional(i) => {
            out.push(p("?"));
            canon_type(i.inner(), out);
        }
        Type::Array(i) => {
            out.push(p("[]"));
            canon_type(i.inner(), out);
        }
        Type::Map(i) => {
            out.push(p("[string]"));
            canon_type(i.inner(), out);
        }
        Type::Object(fs) => canon_fields(fs.iter(), false, out),
        Type::Enum(vs) => {
            out.push(p("("));
            if vs.is_empty() {
                // no text denotes an enum without variants: `()` is the empty struct
                out.push(w("<enum-without-variants>"));
            }
            for (i, v) in vs.iter().enumerate() {
                if i > 0 {
                    out.push(p(","));
                }
                out.push(w(v.name()));
            }
            out.push(p(")"));
        }
    }
}
fn canon_fields<'a, 'b: 'a>(fs: impl Iterator<Item = &'a idl::Field<'b>>, keep: bool, out: &mut Vec<Value>) {
    out.push(p("("));
    for (i, f) in fs.enumerate() {
        if i > 0 {
            out.push(p(","));
        }
        if keep {
            cm(out, f.comments());
        }
        out.push(w(f.name()));
        out.push(p(":"));
        canon_type(f.ty(), out);
    }
    out.push(p(")"));
}

/// zlink's `Interface` -> canonical tokens, through the public accessors only: interface comments
/// and name, then custom types, methods, errors as the accessors deliver them; comments at the
/// interface, member and direct field / parameter / variant levels.
pub fn canon(i: &idl::Interface<'_>) -> Vec<Value> {
    let mut out = Vec::new();
    cm(&mut out, i.comments());
    out.push(w("interface"));
    out.push(w(i.name()));
    for t in i.custom_types() {
        match t {
            idl::CustomType::Object(o) => {
                cm(&mut out, o.comments());
                out.push(w("type"));
                out.push(w(o.name()));
                canon_fields(o.fields(), true, &mut out);
            }
            idl::CustomType::Enum(e) => {
                cm(&mut out, e.comments());
                out.push(w("type"));
                out.push(w(e.name()));
                out.push(p("("));
                if e.variants().count() == 0 {
                    out.push(w("<enum-without-variants>"));
                }
                for (i, v) in e.variants().enumerate() {
                    if i > 0 {
                        out.push(p(","));
                    }
                    cm(&mut out, v.comments());
                    out.push(w(v.name()));
                }
                out.push(p(")"));
            }
        }
    }
    for m in i.methods() {
        cm(&mut out, m.comments());
        out.push(w("method"));
        out.push(w(m.name()));
        canon_fields(m.inputs(), true, &mut out);
        out.push(p("->"));
        canon_fields(m.outputs(), true, &mut out);
    }
    for e in i.errors() {
        cm(&mut out, e.comments());
        out.push(w("error"));
        out.push(w(e.name()));
        canon_fields(e.fields(), true, &mut out);
    }
    out
}

// ------------------------------------------------------------------ running zlink's parser

pub struct ParseObs {
    pub accepted: bool,
    pub panicked: bool,
    pub canon: Vec<Value>,
    pub rerender: Option<String>,
}

/// The text being parsed right now, for the watchdog.
pub static CURRENT: std::sync::Mutex<Option<String>> = std::sync::Mutex::new(None);
pub static PROGRESS: std::sync::atomic::AtomicU64 = std::sync::atomic::AtomicU64::new(0);

/// A parser that loops would stop the harness: the watchdog writes the offending text as a `parse`
/// event with `hung = true` to `<out>.hung` and ends the process with status 3 (the driver lets
/// TLC reject that event).
pub fn start_watchdog(out: String) {
    std::thread::spawn(move || {
        let mut last = PROGRESS.load(std::sync::atomic::Ordering::SeqCst);
        let mut stuck = 0u32;
        loop {
            std::thread::sleep(std::time::Duration::from_secs(1));
            let now = PROGRESS.load(std::sync::atomic::Ordering::SeqCst);
            if now == last && now % 2 == 1 {
                stuck += 1;
                if stuck >= 30 {
                    let text = CURRENT.lock().map(|c| c.clone().unwrap_or_default()).unwrap_or_default();
                    let e = json!({"ev":"parse","cls":"hung","id":"hung","toks":lex(&text),"accepted":false,"panicked":false,
                                   "hung":true,"canon":[],"hasast":false,"text":text});
                    let _ = std::fs::write(format!("{out}.hung"), format!("{}\n", e));
                    std::process::exit(3);
                }
            } else {
                stuck = 0;
                last = now;
            }
        }
    });
}

pub fn parse_with_zlink(text: &str) -> ParseObs {
    if let Ok(mut c) = CURRENT.lock() {
        *c = Some(text.to_string());
    }
    PROGRESS.fetch_add(1, std::sync::atomic::Ordering::SeqCst);
    let r = std::panic::catch_unwind(|| match idl::Interface::try_from(text) {
        Ok(i) => (true, canon(&i), Some(i.to_string())),
        Err(_) => (false, Vec::new(), None),
    });
    PROGRESS.fetch_add(1, std::sync::atomic::Ordering::SeqCst);
    match r {
        Ok((accepted, canon, rerender)) => ParseObs { accepted, panicked: false, canon, rerender },
        Err(_) => ParseObs { accepted: false, panicked: true, canon: Vec::new(), rerender: None },
    }
}

pub struct Stats {
    pub cases: u64,
    pub accepted: u64,
    pub by_class: std::collections::BTreeMap<String, u64>,
    pub distinct: std::collections::HashSet<u64>,
}
impl Stats {
    pub fn new() -> Self {
        Stats { cases: 0, accepted: 0, by_class: Default::default(), distinct: Default::default() }
    }
}

fn hash_str(s: &str) -> u64 {
    u64::from_str_radix(&crate::util::fnv(s.as_bytes()), 16).unwrap()
}

/// One C13 case: a text goes through zlink's parser and through the lexer.
pub fn parse_case(cls: &str, id: &str, text: &str, ast: Option<&Iface>, stats: &mut Stats) {
    let obs = parse_with_zlink(text);
    let toks = lex(text);
    stats.cases += 1;
    if obs.accepted {
        stats.accepted += 1;
    }
    *stats.by_class.entry(cls.to_string()).or_default() += 1;
    stats.distinct.insert(hash_str(text));
    let mut e = json!({"ev":"parse","cls":cls,"id":id,"toks":toks,"accepted":obs.accepted,"panicked":obs.panicked,
                       "hung":false,"canon":obs.canon,"hasast":ast.is_some(),"text":text});
    if let Some(a) = ast {
        e["ast"] = serde_json::to_value(a).unwrap();
    }
    ev(e);
}

/// What happens to a zlink `Interface` when it is rendered, lexed (for the specification), parsed
/// back by zlink, rendered again, and sent through the GetInterfaceDescription form.
/// Returns (observation as a JSON object, rendered text, accepted).
pub fn render_obs(z: &idl::Interface<'_>) -> (Value, String, bool) {
    let r = std::panic::catch_unwind(std::panic::AssertUnwindSafe(|| z.to_string()));
    let text = match r {
        Ok(t) => t,
        Err(_) => {
            return (json!({"toks":[],"accepted":false,"panicked":true,"canon":[],"eq":false,"text2_same":false,
                           "wire_same":false,"text":""}), String::new(), false);
        }
    };
    let toks = lex(&text);
    let back = std::panic::catch_unwind(std::panic::AssertUnwindSafe(|| match idl::Interface::try_from(text.as_str()) {
        Ok(i) => (true, canon(&i), &i == z, i.to_string() == text),
        Err(_) => (false, Vec::new(), false, false),
    }));
    let (accepted, canon2, eq, text2_same, panicked) = match back {
        Ok((a, c, e, t)) => (a, c, e, t, false),
        Err(_) => (false, Vec::new(), false, false, true),
    };
    // the GetInterfaceDescription exchange, end to end: a service sends the description as the reply
    // parameters over a zlink connection (zlink's own serializer writes the frame), the client calls
    // the generated org.varlink.service proxy method, receives that frame and parses the description
    let wire_same = std::panic::catch_unwind(std::panic::AssertUnwindSafe(|| {
        use zlink_core::varlink_service::Proxy;
        let quiet = || {
            let w = crate::wire::new_wire(0);
            {
                let mut s = w.borrow_mut();
                s.log_reads = false;
                s.log_writes = false;
            }
            w
        };
        let sw = quiet();
        let mut sconn = zlink_core::Connection::new(crate::wire::Sock(sw.clone()));
        let d = zlink_core::varlink_service::InterfaceDescription::from(z);
        let reply = zlink_core::Reply::new(Some(d)).set_continues(Some(false));
        if crate::util::block_on(sconn.send_reply(&reply)).is_err() {
            return false;
        }
        let frame = sw.borrow().out.clone();
        // (also what serde_json makes of the same value: both encodings must decode alike)
        let cw = quiet();
        cw.borrow_mut().inb.push_back(Some(frame));
        let mut cconn = zlink_core::Connection::new(crate::wire::Sock(cw));
        let got = {
            let fut = cconn.get_interface_description(z.name());
            let mut fut = std::pin::pin!(fut);
            match crate::util::poll_once(fut.as_mut()) {
                std::task::Poll::Ready(Ok(Ok(desc))) => Some(desc),
                _ => None,
            }
        };
        // the description the service holds parses to itself, too
        let own = match zlink_core::varlink_service::InterfaceDescription::from(z).parse() {
            Ok(i) => &i == z,
            Err(_) => false,
        };
        match got {
            Some(desc) => {
                let direct = match desc.parse() {
                    Ok(i) => canon(&i) == canon(z) && &i == z,
                    Err(_) => false,
                };
                // a client that passes the description on (encodes what it received): the next hop decodes and
                // parses the same description
                let relayed = match serde_json::to_string(&desc) {
                    Ok(t) => match serde_json::from_str::<zlink_core::varlink_service::InterfaceDescription<'_>>(&t) {
                        Ok(d2) => d2.as_raw() == desc.as_raw() && matches!(d2.parse(), Ok(i) if &i == z),
                        Err(_) => false,
                    },
                    Err(_) => false,
                };
                own && direct && relayed && desc.as_raw().is_some()
            }
            None => false,
        }
    }))
    .unwrap_or(false);
    (json!({"toks":toks,"accepted":accepted,"panicked":panicked,"canon":canon2,"eq":eq,"text2_same":text2_same,
            "wire_same":wire_same,"text":text}), text, accepted)
}

/// One C14 case: a description built through the public constructors is rendered by zlink, the
/// text is lexed (for the specification) and parsed back by zlink; the result is rendered again.
pub fn render_case(form: &str, id: &str, a: &Iface, z: &idl::Interface<'_>, stats: &mut Stats) {
    let (mut e, text, accepted) = render_obs(z);
    stats.cases += 1;
    if accepted {
        stats.accepted += 1;
    }
    *stats.by_class.entry(form.to_string()).or_default() += 1;
    stats.distinct.insert(hash_str(&text));
    e["ev"] = json!("render");
    e["form"] = json!(form);
    e["id"] = json!(id);
    e["ast"] = serde_json::to_value(a).unwrap();
    e["commented_enum"] = json!(a.has_commented_enum());
    ev(e);
}

// ------------------------------------------------------------------ generators

const LOWER: &[u8] = b"abcdefghijklmnopqrstuvwxyz";
const UPPER: &[u8] = b"ABCDEFGHIJKLMNOPQRSTUVWXYZ";
const DIGIT: &[u8] = b"0123456789";
const RESERVED: [&str; 12] =
    ["type", "method", "error", "interface", "int", "bool", "float", "string", "object", "a", "x", "z9"];

fn pick_ch(r: &mut Rng, sets: &[&[u8]]) -> char {
    let s = sets[r.below(sets.len() as u64) as usize];
    s[r.below(s.len() as u64) as usize] as char
}

/// field_name = [A-Za-z]('_'?[A-Za-z0-9])*
pub fn gen_field_name(r: &mut Rng) -> String {
    if r.chance(1, 5) {
        return r.pick(&RESERVED).to_string();
    }
    let mut s = String::new();
    s.push(pick_ch(r, &[LOWER, UPPER]));
    for _ in 0..r.range(0, 7) {
        if r.chance(1, 4) {
            s.push('_');
        }
        s.push(pick_ch(r, &[LOWER, UPPER, DIGIT]));
    }
    s
}
/// name = [A-Z][A-Za-z0-9]*
pub fn gen_type_name(r: &mut Rng) -> String {
    let mut s = String::new();
    s.push(pick_ch(r, &[UPPER]));
    for _ in 0..r.range(0, 8) {
        s.push(pick_ch(r, &[LOWER, UPPER, DIGIT]));
    }
    s
}
/// interface_name = [A-Za-z]([-]*[A-Za-z0-9])* ( '.' [A-Za-z0-9]([-]*[A-Za-z0-9])* )+
pub fn gen_iface_name(r: &mut Rng) -> String {
    let mut s = String::new();
    let segs = r.range(2, 5);
    for k in 0..segs {
        if k > 0 {
            s.push('.');
        }
        s.push(if k == 0 { pick_ch(r, &[LOWER, UPPER]) } else { pick_ch(r, &[LOWER, UPPER, DIGIT]) });
        for _ in 0..r.range(0, 5) {
            for _ in 0..(if r.chance(1, 5) { r.range(1, 2) } else { 0 }) {
                s.push('-');
            }
            s.push(pick_ch(r, &[LOWER, UPPER, DIGIT]));
        }
    }
    s
}

const COMMENT_TEXTS: [&str; 14] = [
    "plain words",
    "",
    "with: a colon",
    "closing ) paren",
    "opening ( paren, and a comma",
    "# double hash",
    "method Fake() -> ()",
    "type Fake (a: int)",
    "error X ()",
    "tab\tinside",
    "quotes \" and \\ backslash",
    "-> arrow ? [] [string]",
    "interface a.b",
    "non-ASCII: é ü → 日本 ✓",
];
/// Code point ranges comment texts draw from: every UTF-8 length, the blocks around the two Unicode
/// line separators (which themselves end a comment and are left out), typographic punctuation,
/// combining marks, the BOM, astral planes.
const COMMENT_BLOCKS: [(u32, u32); 14] = [
    (0x21, 0x7e),
    (0xa1, 0xff),
    (0x100, 0x24f),
    (0x300, 0x36f),
    (0x400, 0x4ff),
    (0x7c0, 0x7ff),
    (0x800, 0x83f),
    (0x2010, 0x2027),
    (0x202a, 0x205e),
    (0x2060, 0x20cf),
    (0x2100, 0x2bff),
    (0x3041, 0x30ff),
    (0xfe00, 0xfeff),
    (0x1f300, 0x1f64f),
];
const COMMENT_SPACES: [char; 6] = ['\u{a0}', '\u{2002}', '\u{2009}', '\u{200b}', '\u{3000}', '\u{85}'];
fn gen_comment_text(r: &mut Rng) -> String {
    let mut s = String::new();
    for w in 0..r.range(1, 4) {
        if w > 0 {
            // blanks inside a comment belong to it, including the Unicode ones
            if r.chance(1, 3) {
                s.push(*r.pick(&COMMENT_SPACES));
            } else {
                s.push(' ');
            }
        }
        for _ in 0..r.range(1, 4) {
            let (lo, hi) = *r.pick(&COMMENT_BLOCKS);
            let cp = lo + r.below((hi - lo + 1) as u64) as u32;
            match char::from_u32(cp) {
                Some(c) if !c.is_whitespace() && !c.is_control() => s.push(c),
                _ => s.push('x'),
            }
        }
    }
    s
}
pub fn gen_comments(r: &mut Rng, density: u64) -> Vec<String> {
    let mut v = Vec::new();
    while r.chance(density, 10) && v.len() < 3 {
        if r.chance(1, 3) {
            v.push(gen_comment_text(r));
        } else {
            v.push(r.pick(&COMMENT_TEXTS).to_string());
        }
    }
    v
}

pub fn gen_type(r: &mut Rng, depth: usize, cdens: u64, allow_opt: bool) -> Ty {
    let leaf = depth == 0 || r.chance(2, 5);
    if leaf {
        return match r.below(7) {
            0 => Ty::leaf("prim", "bool"),
            1 => Ty::leaf("prim", "int"),
            2 => Ty::leaf("prim", "float"),
            3 => Ty::leaf("prim", "string"),
            4 => Ty::leaf("prim", "object"),
            _ => Ty::leaf("custom", &gen_type_name(r)),
        };
    }
    match r.below(if allow_opt { 6 } else { 5 }) {
        0 => Ty::wrap("arr", gen_type(r, depth - 1, cdens, true)),
        1 => Ty::wrap("map", gen_type(r, depth - 1, cdens, true)),
        2 | 3 => {
            let n = r.range(0, 3);
            Ty::strukt((0..n).map(|_| gen_field(r, depth - 1, cdens)).collect())
        }
        4 => {
            let n = r.range(1, 4);
            Ty::enumm((0..n).map(|_| Variant { name: gen_field_name(r), comments: gen_comments(r, cdens) }).collect())
        }
        _ => Ty::wrap("opt", gen_type(r, depth - 1, cdens, false)),
    }
}
pub fn gen_field(r: &mut Rng, depth: usize, cdens: u64) -> Field {
    Field { name: gen_field_name(r), comments: gen_comments(r, cdens), ty: gen_type(r, depth, cdens, true) }
}
pub fn gen_member(r: &mut Rng, depth: usize, cdens: u64) -> Member {
    let kind = *r.pick(&["type", "method", "error", "method"]);
    let fields = |r: &mut Rng| -> Vec<Field> { (0..r.range(0, 4)).map(|_| gen_field(r, depth, cdens)).collect() };
    let mut m = Member {
        kind: kind.into(),
        name: gen_type_name(r),
        comments: gen_comments(r, cdens),
        ins: vec![],
        outs: vec![],
        variants: vec![],
        isenum: false,
    };
    match kind {
        "method" => {
            m.ins = fields(r);
            m.outs = fields(r);
        }
        "type" if r.chance(1, 3) => {
            m.isenum = true;
            m.variants = (0..r.range(1, 5)).map(|_| Variant { name: gen_field_name(r), comments: gen_comments(r, cdens) }).collect();
        }
        _ => m.ins = fields(r),
    }
    m
}
/// 0..6 members, type depth 0..4, comment density 0..5 (out of 10).
pub fn gen_iface(r: &mut Rng) -> Iface {
    let depth = r.range(0, 4);
    let cdens = r.below(6);
    let n = r.range(0, 6);
    Iface {
        name: gen_iface_name(r),
        comments: gen_comments(r, cdens),
        members: (0..n).map(|_| gen_member(r, depth, cdens)).collect(),
    }
}

const ILLEGAL: [&str; 24] = [
    "!", "@", "$", "%", "^", "&", "*", "+", "=", "{", "}", "<", "|", "\\", "/", "~", "`", ";", "'", "\"", "é", "→", "日",
    "\u{1F600}",
];

fn char_boundaries(s: &str) -> Vec<usize> {
    let mut v: Vec<usize> = s.char_indices().map(|(i, _)| i).collect();
    v.push(s.len());
    v
}

/// The negative side of C13 derived from one valid description.
pub fn mutation_cases(r: &mut Rng, id: &str, a: &Iface, per_kind: usize, all_truncations: bool, stats: &mut Stats) {
    let text = render(a, 1, r);
    let toks = lex(&text);
    let n = toks.len();
    if n == 0 {
        return;
    }
    for k in 0..per_kind {
        // token deletion
        let i = r.below(n as u64) as usize;
        let mut t = toks.clone();
        t.remove(i);
        parse_case("mut-del", &format!("{id}-del{k}"), &render_tokens(&t), None, stats);
        // token duplication
        let i = r.below(n as u64) as usize;
        let mut t = toks.clone();
        t.insert(i, toks[i].clone());
        parse_case("mut-dup", &format!("{id}-dup{k}"), &render_tokens(&t), None, stats);
        // swap of two tokens (neighbours or arbitrary)
        if n >= 2 {
            let i = r.below(n as u64 - 1) as usize;
            let j = if r.chance(1, 2) { i + 1 } else { r.below(n as u64) as usize };
            let mut t = toks.clone();
            t.swap(i, j);
            parse_case("mut-swap", &format!("{id}-swap{k}"), &render_tokens(&t), None, stats);
        }
        // an illegal or non-ASCII character at a random character boundary
        let bs = char_boundaries(&text);
        let at = bs[r.below(bs.len() as u64) as usize];
        let mut t = text.clone();
        t.insert_str(at, *r.pick(&ILLEGAL));
        parse_case("mut-illegal", &format!("{id}-ill{k}"), &t, None, stats);
        // whitespace where the grammar has none: behind ? [] [string]
        let glue: Vec<usize> = text.match_indices(['?', ']']).map(|(i, _)| i + 1).collect();
        if !glue.is_empty() {
            let at = glue[r.below(glue.len() as u64) as usize];
            // (a `]` or `?` inside a comment only changes the comment)
            let mut t = text.clone();
            t.insert(at, ' ');
            parse_case("mut-space", &format!("{id}-sp{k}"), &t, None, stats);
        }
    }
    let vocab = |r: &mut Rng| -> Tok {
        let mk = |k: &str, s: &str| Tok { k: k.into(), s: s.into(), c: class_of(s), sp: true, own: false };
        match r.below(12) {
            0 => mk("P", "("),
            1 => mk("P", ")"),
            2 => mk("P", ","),
            3 => mk("P", ":"),
            4 => mk("P", "?"),
            5 => mk("P", "[]"),
            6 => mk("P", "->"),
            7 => mk("W", *r.pick(&["int", "string", "bool", "Other"])),
            8 => mk("W", *r.pick(&["type", "method", "error", "interface"])),
            _ => mk("W", &gen_field_name(r)),
        }
    };
    for k in 0..per_kind {
        // insertion of one token of the grammar's own vocabulary
        let i = r.below(n as u64 + 1) as usize;
        let mut t = toks.clone();
        let v = vocab(r);
        t.insert(i, v);
        parse_case("mut-ins", &format!("{id}-ins{k}"), &render_tokens(&t), None, stats);
        // two or three edits at once
        let mut t = toks.clone();
        for _ in 0..r.range(2, 3) {
            if t.is_empty() {
                break;
            }
            let i = r.below(t.len() as u64) as usize;
            match r.below(4) {
                0 => {
                    t.remove(i);
                }
                1 => {
                    let x = t[i].clone();
                    t.insert(i, x);
                }
                2 => {
                    let j = r.below(t.len() as u64) as usize;
                    t.swap(i, j);
                }
                _ => {
                    let v = vocab(r);
                    t.insert(i, v);
                }
            }
        }
        parse_case("mut-multi", &format!("{id}-multi{k}"), &render_tokens(&t), None, stats);
        // a bare name, or a typed field, pushed into a parenthesised list (mixes the struct and the
        // enum form, or adds an element that must show up in the result)
        let opens: Vec<usize> = (0..n).filter(|i| toks[*i].k == "P" && toks[*i].s == "(" && i + 1 < n && !(toks[i + 1].k == "P" && toks[i + 1].s == ")")).collect();
        if !opens.is_empty() {
            let o = opens[r.below(opens.len() as u64) as usize];
            // the matching close
            let mut depth = 0i32;
            let mut close = o;
            for (j, t) in toks.iter().enumerate().skip(o) {
                if t.k == "P" && t.s == "(" {
                    depth += 1;
                } else if t.k == "P" && t.s == ")" {
                    depth -= 1;
                    if depth == 0 {
                        close = j;
                        break;
                    }
                }
            }
            let mk = |k: &str, s: &str| Tok { k: k.into(), s: s.into(), c: class_of(s), sp: true, own: false };
            let name = gen_field_name(r);
            let elem: Vec<Tok> = if r.chance(1, 2) {
                vec![mk("W", &name)]
            } else {
                vec![mk("W", &name), mk("P", ":"), mk("W", "int")]
            };
            let mut t = toks.clone();
            if r.chance(1, 2) || close <= o {
                // at the front
                let mut ins = elem.clone();
                ins.push(mk("P", ","));
                for (x, tk) in ins.into_iter().enumerate() {
                    t.insert(o + 1 + x, tk);
                }
            } else {
                // at the back
                let mut ins = vec![mk("P", ",")];
                ins.extend(elem.clone());
                for (x, tk) in ins.into_iter().enumerate() {
                    t.insert(close + x, tk);
                }
            }
            parse_case("mut-mix", &format!("{id}-mix{k}"), &render_tokens(&t), None, stats);
        }
    }
    // near misses aimed at the list and type syntax: a comma where no element follows or precedes, a doubled
    // comma, a doubled `?`, a missing `:` or `->`, a doubled parenthesis
    if per_kind > 0 {
        near_miss_cases(r, id, &toks, false, stats);
    }
    if all_truncations {
        for (k, cut) in char_boundaries(&text).into_iter().enumerate() {
            if cut == text.len() {
                continue;
            }
            parse_case("mut-trunc", &format!("{id}-cut{k}"), &text[..cut], None, stats);
        }
    } else {
        for k in 0..per_kind {
            let bs = char_boundaries(&text);
            let cut = bs[r.below(bs.len() as u64 - 1) as usize];
            parse_case("mut-trunc", &format!("{id}-cut{k}"), &text[..cut], None, stats);
        }
    }
}

/// Targeted near misses of a valid token list.  `all` = at every site, else at one random site per kind.
pub fn near_miss_cases(r: &mut Rng, id: &str, toks: &[Tok], all: bool, stats: &mut Stats) {
    let mk = |k: &str, s: &str| Tok { k: k.into(), s: s.into(), c: class_of(s), sp: true, own: false };
    let is = |t: &Tok, p: &str| t.k == "P" && t.s == p;
    // (kind, sites, edit)
    let n = toks.len();
    let sites = |f: &dyn Fn(usize) -> bool| -> Vec<usize> { (0..n).filter(|i| f(*i)).collect() };
    let kinds: Vec<(&str, Vec<usize>)> = vec![
        ("trailing-comma", sites(&|i| is(&toks[i], ")") && i > 0 && !is(&toks[i - 1], "("))),
        ("leading-comma", sites(&|i| is(&toks[i], "(") && i + 1 < n && !is(&toks[i + 1], ")"))),
        ("lone-comma", sites(&|i| is(&toks[i], "(") && i + 1 < n && is(&toks[i + 1], ")"))),
        ("double-comma", sites(&|i| is(&toks[i], ","))),
        ("double-question", sites(&|i| is(&toks[i], "?"))),
        ("no-colon", sites(&|i| is(&toks[i], ":"))),
        ("no-arrow", sites(&|i| is(&toks[i], "->"))),
        ("double-open", sites(&|i| is(&toks[i], "("))),
        ("double-close", sites(&|i| is(&toks[i], ")"))),
        ("colon-for-comma", sites(&|i| is(&toks[i], ","))),
    ];
    for (kind, ss) in kinds {
        if ss.is_empty() {
            continue;
        }
        let chosen: Vec<usize> = if all { ss } else { vec![ss[r.below(ss.len() as u64) as usize]] };
        for i in chosen {
            let mut t = toks.to_vec();
            match kind {
                "trailing-comma" => t.insert(i, mk("P", ",")),
                "leading-comma" | "lone-comma" => t.insert(i + 1, mk("P", ",")),
                "double-comma" => t.insert(i, mk("P", ",")),
                "double-question" => {
                    let mut q = mk("P", "?");
                    q.sp = false;
                    t.insert(i + 1, q)
                }
                "no-colon" | "no-arrow" => {
                    t.remove(i);
                }
                "double-open" => t.insert(i, mk("P", "(")),
                "double-close" => t.insert(i, mk("P", ")")),
                _ => t[i] = mk("P", ":"),
            }
            parse_case(&format!("near-{kind}"), &format!("{id}-{kind}{i}"), &render_tokens(&t), None, stats);
        }
    }
}

/// Arbitrary input: random bytes (lossily made a string), random printable characters, random
/// sequences of the grammar's own tokens.
pub fn soup_case(r: &mut Rng, id: &str, stats: &mut Stats) {
    let kind = r.below(3);
    let len = r.range(0, 60);
    let text: String = match kind {
        0 => {
            let bytes: Vec<u8> = (0..len).map(|_| r.below(256) as u8).filter(|b| *b != 0).collect();
            String::from_utf8_lossy(&bytes).into_owned()
        }
        1 => (0..len).map(|_| (32 + r.below(95) as u8) as char).collect(),
        _ => {
            const PARTS: [&str; 24] = [
                "interface", "type", "method", "error", "org.example", "Name", "field", "int", "string", "(", ")", ",",
                ":", "?", "[]", "[string]", "->", "\n", " ", "# c\n", "a.b", "X", "bool", "()",
            ];
            let mut s = String::new();
            if r.chance(2, 3) {
                s.push_str("interface a.b\n");
            }
            for _ in 0..len / 2 {
                s.push_str(*r.pick(&PARTS));
                if r.chance(1, 2) {
                    s.push(' ');
                }
            }
            s
        }
    };
    parse_case("soup", id, &text, None, stats);
}

// ------------------------------------------------------------------ the two families

/// C13: texts through zlink's parser.
pub fn run_parse(r: &mut Rng, asts: &[Iface], n: u64, trunc_all: u64, soup: u64, exhaustive_every: u64, stats: &mut Stats) {
    // descriptions enumerated by TLC: every layout style
    for (i, a) in asts.iter().enumerate() {
        for style in 0..5 {
            let text = render(a, style, r);
            parse_case("gen", &format!("m{i}-s{style}"), &text, Some(a), stats);
        }
        if i % 16 == 0 {
            mutation_cases(r, &format!("m{i}"), a, 1, false, stats);
        }
        // every one-token deletion, duplication and swap of neighbours (what MCIdl's Accounted law
        // enumerates on the model), replayed through zlink's parser
        if exhaustive_every > 0 && i as u64 % exhaustive_every == 0 {
            let toks = lex(&render(a, 1, r));
            for j in 0..toks.len() {
                let mut t = toks.clone();
                t.remove(j);
                parse_case("all-del", &format!("m{i}-d{j}"), &render_tokens(&t), None, stats);
                let mut t = toks.clone();
                t.insert(j, toks[j].clone());
                parse_case("all-dup", &format!("m{i}-u{j}"), &render_tokens(&t), None, stats);
                if j + 1 < toks.len() {
                    let mut t = toks.clone();
                    t.swap(j, j + 1);
                    parse_case("all-swap", &format!("m{i}-w{j}"), &render_tokens(&t), None, stats);
                }
            }
            near_miss_cases(r, &format!("m{i}"), &toks, true, stats);
        }
    }
    // grammar-driven random descriptions with random layout
    for i in 0..n {
        let a = gen_iface(r);
        let style = 1 + r.below(4) as u32;
        let text = render(&a, style, r);
        parse_case("gen", &format!("g{i}-s{style}"), &text, Some(&a), stats);
        if i % 4 == 0 {
            mutation_cases(r, &format!("g{i}"), &a, 2, false, stats);
        }
    }
    // truncation at every byte
    for i in 0..trunc_all {
        let mut a = gen_iface(r);
        while a.members.len() > 3 {
            a.members.pop();
        }
        mutation_cases(r, &format!("t{i}"), &a, 0, true, stats);
    }
    for i in 0..soup {
        soup_case(r, &format!("s{i}"), stats);
    }
}

/// C14: descriptions through the constructors, Display and the parser.
pub fn run_render(r: &mut Rng, asts: &[Iface], n: u64, stats: &mut Stats) {
    let mut all: Vec<(String, Iface)> = asts.iter().enumerate().map(|(i, a)| (format!("m{i}"), a.clone())).collect();
    for i in 0..n {
        all.push((format!("g{i}"), gen_iface(r)));
    }
    for (id, a) in all.iter_mut() {
        a.strip_nested_comments();
        for owned in [true, false] {
            let z = z_interface(a, owned);
            render_case(if owned { "owned" } else { "borrowed" }, &format!("{id}-{}", if owned { "o" } else { "b" }), a, &z, stats);
        }
        // a description produced by the parser itself
        let text: &'static str = Box::leak(render(a, 1 + r.below(2) as u32, r).into_boxed_str());
        if let Ok(z) = idl::Interface::try_from(text) {
            render_case("parsed", &format!("{id}-p"), a, &z, stats);
        }
    }
}

/// Re-run one recorded case.
pub fn replay(case: &Value, stats: &mut Stats) {
    match case["ev"].as_str() {
        Some("parse") => {
            let ast: Option<Iface> = case.get("ast").and_then(|a| serde_json::from_value(a.clone()).ok());
            parse_case(case["cls"].as_str().unwrap_or("replay"), case["id"].as_str().unwrap_or("replay"),
                       case["text"].as_str().unwrap_or(""), ast.as_ref(), stats);
        }
        Some("render") => {
            let a: Iface = serde_json::from_value(case["ast"].clone()).expect("ast");
            let form = case["form"].as_str().unwrap_or("owned");
            let id = case["id"].as_str().unwrap_or("replay");
            match form {
                "borrowed" => render_case(form, id, &a, &z_interface(&a, false), stats),
                "parsed" => {
                    // (the text the parser was given is not recorded: the conventional layout stands in)
                    let mut r = Rng::new(1);
                    let text: &'static str = Box::leak(render(&a, 1, &mut r).into_boxed_str());
                    if let Ok(z) = idl::Interface::try_from(text) {
                        render_case(form, id, &a, &z, stats);
                    }
                }
                _ => render_case("owned", id, &a, &z_interface(&a, true), stats),
            }
        }
        _ => {}
    }
}
