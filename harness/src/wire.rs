//! Scripted transport: a `Socket` whose read half delivers exactly the chunks the driver
//! released and whose write half records every write call. All events are logged at the
//! return of the transport call (the linearization point on the single-threaded executor).

use crate::util::ev;
use serde_json::json;
use std::{cell::RefCell, collections::VecDeque, future::poll_fn, rc::Rc, task::Poll};
use zlink_core::connection::socket::{ReadHalf, Socket, WriteHalf};

#[derive(Debug, Default)]
pub struct WireState {
    pub tag: u32,
    /// Chunks released to the reader. `None` = one injected suspension (read returns Pending once).
    pub inb: VecDeque<Option<Vec<u8>>>,
    pub head_off: usize,
    pub closed: bool,
    pub read_err: bool,
    /// how many reads have failed so far (the kind of error rotates)
    pub read_errs: usize,
    /// Total bytes handed to the connection so far.
    pub delivered: usize,
    /// Every read: (destination address, destination capacity, bytes copied).
    pub fills: Vec<(usize, usize, usize)>,
    pub log_reads: bool,
    /// Do not log individual chunks (the driver logs the accumulated count instead).
    pub quiet_chunks: bool,
    pub out: Vec<u8>,
    /// Lengths of the individual write calls.
    pub writes: Vec<usize>,
    pub write_calls: usize,
    /// Fail the k-th write call (1-based) and every later one.
    pub fail_write_at: Option<usize>,
    /// ... only the k-th one: the transport accepts writes again afterwards (a transient error)
    pub fail_write_once: bool,
    /// what the failing write hands over before it reports the error: 0 nothing, 1 a proper prefix, 2 everything
    pub fail_deliver: u8,
    /// Callback invoked with what a failing write handed over before it failed.
    pub on_failed_write: Option<OnWrite>,
    /// Suspend once inside each write call (lets the environment act between writes).
    pub write_yield: bool,
    pub write_yielded: bool,
    pub read_dropped: bool,
    /// A read reported end-of-stream (returned 0) at least once.
    pub eof_reported: bool,
    pub write_dropped: bool,
    pub log_writes: bool,
    /// Log every successful write call with the documents it carried (C02).
    pub log_write_docs: bool,
    /// Callback invoked with every successfully written buffer (the server family parses replies).
    pub on_write: Option<OnWrite>,
}

pub struct OnWrite(pub Box<dyn FnMut(u32, &[u8])>);
impl std::fmt::Debug for OnWrite {
    fn fmt(&self, f: &mut std::fmt::Formatter<'_>) -> std::fmt::Result {
        f.write_str("OnWrite")
    }
}

pub type Wire = Rc<RefCell<WireState>>;

pub fn new_wire(tag: u32) -> Wire {
    Rc::new(RefCell::new(WireState {
        tag,
        log_reads: true,
        log_writes: true,
        ..Default::default()
    }))
}

#[derive(Debug)]
pub struct Sock(pub Wire);
#[derive(Debug)]
pub struct R(pub Wire);
#[derive(Debug)]
pub struct W(pub Wire);

impl Socket for Sock {
    type ReadHalf = R;
    type WriteHalf = W;
    fn split(self) -> (R, W) {
        (R(self.0.clone()), W(self.0))
    }
}

impl Drop for R {
    fn drop(&mut self) {
        self.0.borrow_mut().read_dropped = true;
    }
}
impl Drop for W {
    fn drop(&mut self) {
        self.0.borrow_mut().write_dropped = true;
    }
}

impl ReadHalf for R {
    async fn read(&mut self, buf: &mut [u8]) -> zlink_core::Result<usize> {
        poll_fn(|_cx| {
            let mut w = self.0.borrow_mut();
            let tag = w.tag;
            match w.inb.pop_front() {
                Some(Some(c)) => {
                    // `head_off` bytes of the front chunk were handed over by earlier reads
                    let off = w.head_off;
                    let n = (c.len() - off).min(buf.len());
                    buf[..n].copy_from_slice(&c[off..off + n]);
                    if off + n < c.len() {
                        w.head_off = off + n;
                        w.inb.push_front(Some(c));
                    } else {
                        w.head_off = 0;
                    }
                    w.delivered += n;
                    w.fills.push((buf.as_ptr() as usize, buf.len(), n));
                    if w.log_reads && !w.quiet_chunks {
                        ev(json!({"ev":"chunk","c":tag,"n":n}));
                    }
                    Poll::Ready(Ok(n))
                }
                Some(None) => Poll::Pending,
                None => {
                    if w.read_err {
                        if w.log_reads {
                            ev(json!({"ev":"read_err","c":tag}));
                        }
                        // the ways a transport reports a failed read: the library's own variant, or the I/O error
                        // of the operating system (a reset connection, a broken pipe), alternating by connection
                        // (the kind stays the same for a connection once its reads fail: a transport that keeps
                        // reporting `Interrupted` is one of them)
                        w.read_errs += 1;
                        Poll::Ready(Err(match (tag as usize + w.delivered) % 5 {
                            0 => zlink_core::Error::SocketRead,
                            1 => zlink_core::Error::Io(std::io::Error::from(std::io::ErrorKind::ConnectionReset)),
                            2 => zlink_core::Error::Io(std::io::Error::from(std::io::ErrorKind::Interrupted)),
                            3 => zlink_core::Error::Io(std::io::Error::from(std::io::ErrorKind::TimedOut)),
                            _ => zlink_core::Error::Io(std::io::Error::from(std::io::ErrorKind::BrokenPipe)),
                        }))
                    } else if w.closed {
                        if w.log_reads {
                            ev(json!({"ev":"read_eof","c":tag}));
                        }
                        w.eof_reported = true;
                        Poll::Ready(Ok(0))
                    } else {
                        Poll::Pending
                    }
                }
            }
        })
        .await
    }
}

impl WriteHalf for W {
    async fn write(&mut self, buf: &[u8]) -> zlink_core::Result<()> {
        poll_fn(|_cx| {
            let mut w = self.0.borrow_mut();
            if w.write_yield && !w.write_yielded {
                w.write_yielded = true;
                return Poll::Pending;
            }
            w.write_yielded = false;
            w.write_calls += 1;
            let tag = w.tag;
            if let Some(k) = w.fail_write_at {
                if w.write_calls == k || (w.write_calls > k && !w.fail_write_once) {
                    let n = match w.fail_deliver {
                        0 => 0,
                        1 => (buf.len() / 2).max(1).min(buf.len().saturating_sub(1)),
                        _ => buf.len(),
                    };
                    if n > 0 {
                        w.out.extend_from_slice(&buf[..n]);
                        if let Some(mut cb) = w.on_failed_write.take() {
                            (cb.0)(tag, &buf[..n]);
                            w.on_failed_write = Some(cb);
                        }
                    }
                    if w.log_writes {
                        ev(json!({"ev":"write_err","c":tag,"k":w.write_calls}));
                    }
                    return Poll::Ready(Err(zlink_core::Error::SocketWrite));
                }
            }
            w.out.extend_from_slice(buf);
            w.writes.push(buf.len());
            if let Some(mut cb) = w.on_write.take() {
                (cb.0)(tag, buf);
                w.on_write = Some(cb);
            }
            if w.log_write_docs {
                let (frames, complete) = split_frames(buf);
                let ndocs = if complete { frames.len() } else { frames.len() - 1 };
                let tail = if complete { 0 } else { frames[frames.len() - 1].len() };
                let docs: Vec<serde_json::Value> = frames[..ndocs]
                    .iter()
                    .map(|f| json!({"h": crate::util::fnv(f), "len": f.len()}))
                    .collect();
                ev(json!({"ev":"write","c":tag,"n":buf.len(),"docs":docs,"tail":tail}));
            }
            Poll::Ready(Ok(()))
        })
        .await
    }
}

/// Split the captured output into frames (without terminators); the flag tells whether the
/// output ended with a terminator (i.e. whether the last element is a complete frame).
pub fn split_frames(out: &[u8]) -> (Vec<Vec<u8>>, bool) {
    let mut frames = Vec::new();
    let mut cur = Vec::new();
    for b in out {
        if *b == 0 {
            frames.push(std::mem::take(&mut cur));
        } else {
            cur.push(*b);
        }
    }
    let complete = cur.is_empty();
    if !complete {
        frames.push(cur);
    }
    (frames, complete)
}
