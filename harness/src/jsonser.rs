//! C03: zlink's JSON serializer against the specification's `Encode` and against serde_json.
//!
//! * `tree` events: a dynamic serde value (built from a TLC-enumerated or seeded random tree) is
//!   encoded through the `to_slice` hook with every buffer length 0..=len+2, through
//!   `send_error` at several buffer fill levels, and by serde_json; the event carries the tree,
//!   the text zlink produced and the facts about buffer sizes.
//! * `range` events: every Unicode scalar as a 1-char string / map key / `char`, classified by
//!   how it was written and run-length encoded.
//! * `atoms` events: number atoms (all 8/16-bit integers, boundary and random wider ones, floats)
//!   compared with the reference formatter.

use crate::{
    util::{block_on, ev, Rng},
    wire::{new_wire, Sock},
};
use serde::ser::{
    Serialize, SerializeMap, SerializeSeq, SerializeStruct, SerializeStructVariant, SerializeTuple, SerializeTupleStruct, SerializeTupleVariant,
    Serializer,
};
use serde_json::{json, Value};
use zlink_core::{verif, Connection};

// ------------------------------------------------------------------ dynamic value

#[derive(Debug, Clone)]
pub enum V {
    Null,
    Unit,
    None,
    Bool(bool),
    Int(i128),
    UInt(u128),
    F64(f64),
    F32(f32),
    Str(String),
    Char(char),
    Bytes(Vec<u8>),
    Some(Box<V>),
    Newtype(Box<V>),
    Seq(Vec<V>),
    Tuple(Vec<V>),
    Map(Vec<(V, V)>),
    Struct(Vec<(&'static str, V)>),
    UnitVar(&'static str),
    NewtypeVar(&'static str, Box<V>),
    TupleVar(&'static str, Vec<V>),
    StructVar(&'static str, Vec<(&'static str, V)>),
    UnitStruct,
    TupleStruct(Vec<V>),
    /// a value that serializes itself with `collect_str`: its Display writes the pieces one after the other
    Disp(Vec<String>),
}

struct Pieces<'a>(&'a [String]);
impl std::fmt::Display for Pieces<'_> {
    fn fmt(&self, f: &mut std::fmt::Formatter<'_>) -> std::fmt::Result {
        for p in self.0 {
            f.write_str(p)?;
        }
        Ok(())
    }
}

const NAMES: [&str; 10] = ["Uv", "Kv", "Nv", "Tv", "Sv", "f", "g2", "h", "q\"t", "b\\s\tn\nl"];
fn stat(n: &str) -> &'static str {
    NAMES.iter().find(|x| **x == n).copied().unwrap_or("other")
}

impl Serialize for V {
    fn serialize<S: Serializer>(&self, s: S) -> Result<S::Ok, S::Error> {
        match self {
            V::Null | V::Unit => s.serialize_unit(),
            V::None => s.serialize_none(),
            V::Bool(b) => s.serialize_bool(*b),
            V::Int(i) => {
                if let Ok(x) = i8::try_from(*i) {
                    s.serialize_i8(x)
                } else if let Ok(x) = i16::try_from(*i) {
                    s.serialize_i16(x)
                } else if let Ok(x) = i32::try_from(*i) {
                    s.serialize_i32(x)
                } else if let Ok(x) = i64::try_from(*i) {
                    s.serialize_i64(x)
                } else {
                    s.serialize_i128(*i)
                }
            }
            V::UInt(u) => {
                if let Ok(x) = u8::try_from(*u) {
                    s.serialize_u8(x)
                } else if let Ok(x) = u16::try_from(*u) {
                    s.serialize_u16(x)
                } else if let Ok(x) = u32::try_from(*u) {
                    s.serialize_u32(x)
                } else if let Ok(x) = u64::try_from(*u) {
                    s.serialize_u64(x)
                } else {
                    s.serialize_u128(*u)
                }
            }
            V::F64(f) => s.serialize_f64(*f),
            V::F32(f) => s.serialize_f32(*f),
            V::Str(x) => s.serialize_str(x),
            V::Char(c) => s.serialize_char(*c),
            V::Bytes(b) => s.serialize_bytes(b),
            V::Some(v) => s.serialize_some(&**v),
            V::Newtype(v) => s.serialize_newtype_struct("Nt", &**v),
            V::Seq(items) => {
                // unknown length for odd sizes and for every other empty sequence (an iterator that turns out
                // to yield nothing): all entry points of the compound state machine
                static EMPTY: std::sync::atomic::AtomicUsize = std::sync::atomic::AtomicUsize::new(0);
                let unknown = if items.is_empty() {
                    EMPTY.fetch_add(1, std::sync::atomic::Ordering::Relaxed) % 2 == 0
                } else {
                    items.len() % 2 == 1
                };
                let mut q = s.serialize_seq(if unknown { None } else { Some(items.len()) })?;
                for i in items {
                    q.serialize_element(i)?;
                }
                q.end()
            }
            V::Tuple(items) => {
                let mut q = s.serialize_tuple(items.len())?;
                for i in items {
                    q.serialize_element(i)?;
                }
                q.end()
            }
            V::Map(entries) => {
                static EMPTY_MAP: std::sync::atomic::AtomicUsize = std::sync::atomic::AtomicUsize::new(0);
                let unknown = if entries.is_empty() {
                    EMPTY_MAP.fetch_add(1, std::sync::atomic::Ordering::Relaxed) % 2 == 0
                } else {
                    entries.len() == 1
                };
                let mut m = s.serialize_map(if unknown { None } else { Some(entries.len()) })?;
                for (k, v) in entries {
                    if entries.len() == 2 {
                        m.serialize_key(k)?;
                        m.serialize_value(v)?;
                    } else {
                        m.serialize_entry(k, v)?;
                    }
                }
                m.end()
            }
            V::Struct(fields) => {
                let mut m = s.serialize_struct("St", fields.len())?;
                for (k, v) in fields {
                    m.serialize_field(k, v)?;
                }
                m.end()
            }
            V::Disp(parts) => s.collect_str(&Pieces(parts)),
            V::UnitStruct => s.serialize_unit_struct("Us"),
            V::TupleStruct(items) => {
                let mut q = s.serialize_tuple_struct("Ts", items.len())?;
                for i in items {
                    q.serialize_field(i)?;
                }
                q.end()
            }
            V::UnitVar(n) => s.serialize_unit_variant("En", 0, n),
            V::NewtypeVar(n, v) => s.serialize_newtype_variant("En", 1, n, &**v),
            V::TupleVar(n, items) => {
                let mut q = s.serialize_tuple_variant("En", 2, n, items.len())?;
                for i in items {
                    q.serialize_field(i)?;
                }
                q.end()
            }
            V::StructVar(n, fields) => {
                let mut m = s.serialize_struct_variant("En", 3, n, fields.len())?;
                for (k, v) in fields {
                    m.serialize_field(k, v)?;
                }
                m.end()
            }
        }
    }
}

fn tok_char(t: &str) -> char {
    match t {
        "QUOTE" => '"',
        "BSLASH" => '\\',
        "NL" => '\n',
        "TAB" => '\t',
        "CR" => '\r',
        "BS" => '\u{8}',
        "FF" => '\u{c}',
        "C00" => '\0',
        "C01" => '\u{1}',
        "C1F" => '\u{1f}',
        "SLASH" => '/',
        "DEL" => '\u{7f}',
        "EACUTE" => 'é',
        "EURO" => '€',
        "EMOJI" => '😀',
        "U2028" => '\u{2028}',
        o => o.chars().next().unwrap(),
    }
}

fn toks(v: &Value) -> String {
    v.as_array().unwrap().iter().map(|t| tok_char(t.as_str().unwrap())).collect()
}

/// Build the dynamic value from the specification's record (JSON form).
pub fn from_spec(v: &Value) -> V {
    let items = |x: &Value| x.as_array().unwrap().iter().map(from_spec).collect::<Vec<_>>();
    let fields = |x: &Value| x.as_array().unwrap().iter().map(|f| (stat(f[0].as_str().unwrap()), from_spec(&f[1]))).collect::<Vec<_>>();
    match v["t"].as_str().unwrap() {
        "null" => V::Null,
        "unit" => V::Unit,
        "none" => V::None,
        "bool" => V::Bool(v["b"].as_bool().unwrap()),
        "num" => {
            let a = v["a"].as_str().unwrap();
            if let Ok(i) = a.parse::<i128>() {
                if i < 0 { V::Int(i) } else { V::UInt(i as u128) }
            } else {
                V::F64(a.parse().unwrap())
            }
        }
        "str" => V::Str(toks(&v["s"])),
        "char" => V::Char(toks(&v["s"]).chars().next().unwrap()),
        "bytes" => V::Bytes(v["n"].as_array().unwrap().iter().map(|x| x.as_u64().unwrap() as u8).collect()),
        "some" => V::Some(Box::new(from_spec(&v["v"]))),
        "newtype" => V::Newtype(Box::new(from_spec(&v["v"]))),
        "seq" => V::Seq(items(&v["items"])),
        "tuple" => V::Tuple(items(&v["items"])),
        "map" => V::Map(v["entries"].as_array().unwrap().iter().map(|e| (from_spec(&e[0]), from_spec(&e[1]))).collect()),
        "struct" => V::Struct(fields(&v["fields"])),
        "disp" => V::Disp(v["parts"].as_array().unwrap().iter().map(toks).collect()),
        "unitstruct" => V::UnitStruct,
        "tuplestruct" => V::TupleStruct(items(&v["items"])),
        "unitvar" => V::UnitVar(stat(v["name"].as_str().unwrap())),
        "newtypevar" => V::NewtypeVar(stat(v["name"].as_str().unwrap()), Box::new(from_spec(&v["v"]))),
        "tuplevar" => V::TupleVar(stat(v["name"].as_str().unwrap()), items(&v["items"])),
        "structvar" => V::StructVar(stat(v["name"].as_str().unwrap()), fields(&v["fields"])),
        o => panic!("unknown kind {o}"),
    }
}

/// Bytes as text: printable ASCII as is, everything else (incl. DEL) as `<hex>` - the
/// specification writes raw non-ASCII the same way.
fn show(bytes: &[u8]) -> String {
    let mut s = String::new();
    for b in bytes {
        if (0x20..0x7f).contains(b) {
            s.push(*b as char);
        } else {
            s.push_str(&format!("<{b:02x}>"));
        }
    }
    s
}

pub struct Stats {
    pub trees: u64,
    pub sizes_tried: u64,
    pub scalars: u64,
    pub atoms: u64,
}

fn encode(v: &V, cap: usize) -> verif::ToSlice {
    let mut buf = vec![0xAAu8; cap];
    let r = verif::to_slice(v, &mut buf);
    r
}

fn encode_bytes(v: &V) -> Option<Vec<u8>> {
    let mut cap = 64;
    loop {
        let mut buf = vec![0u8; cap];
        match verif::to_slice(v, &mut buf) {
            verif::ToSlice::Ok(n) => return Some(buf[..n].to_vec()),
            verif::ToSlice::BufferTooSmall => cap *= 2,
            _ => return None,
        }
        if cap > 1 << 24 {
            return None;
        }
    }
}

pub fn tree_case(spec: &Value, stats: &mut Stats) {
    let v = from_spec(spec);
    stats.trees += 1;
    let reference = serde_json::to_vec(&v).ok();
    let out = encode_bytes(&v);
    let (text, len) = match &out {
        Some(b) => (show(b), b.len()),
        None => (String::new(), 0),
    };
    // every buffer length: too small below the document's length, the same bytes from there on
    let (mut min_ok, mut all_ok_same, mut small_all_toosmall) = (usize::MAX, true, true);
    if let Some(full) = &out {
        for cap in 0..=(len + 2) {
            stats.sizes_tried += 1;
            let mut buf = vec![0xAAu8; cap];
            match verif::to_slice(&v, &mut buf) {
                verif::ToSlice::Ok(n) => {
                    min_ok = min_ok.min(cap);
                    if &buf[..n] != &full[..] || buf[n..].iter().any(|b| *b != 0xAA) {
                        all_ok_same = false;
                    }
                    if cap < len {
                        small_all_toosmall = false;
                    }
                }
                verif::ToSlice::BufferTooSmall => {
                    if cap >= len {
                        all_ok_same = false;
                    }
                }
                _ => all_ok_same = false,
            }
        }
    }
    let refused = out.is_none() && !matches!(encode(&v, 4096), verif::ToSlice::Ok(_) | verif::ToSlice::BufferTooSmall);
    // the same value through a connection, starting at several fill levels of the write buffer
    let mut via_conn_same = true;
    if let Some(full) = &out {
        for fill in [0usize, 1, 200, 255] {
            let wire = new_wire(0);
            wire.borrow_mut().log_writes = false;
            let mut conn = Connection::new(Sock(wire.clone()));
            if fill > 0 {
                let pad = crate::writing::Raw("p".repeat(fill.saturating_sub(3)));
                let _ = block_on(conn.send_error(&pad));
                wire.borrow_mut().out.clear();
                // enqueue something so that `pos` is not zero when our value starts
                let _ = conn.enqueue_call(&zlink_core::Call::new(crate::writing::Doc { pad: "p".repeat(fill), mode: crate::writing::Mode::Pad }));
            }
            let r = block_on(conn.send_error(&v));
            let w = wire.borrow();
            let mut frames = w.out.split(|b| *b == 0).filter(|f| !f.is_empty());
            let last = frames.by_ref().last().map(|f| f.to_vec());
            if r.is_err() || last.as_deref() != Some(&full[..]) {
                via_conn_same = false;
            }
        }
    }
    ev(json!({"ev":"tree","v":spec,"ok":out.is_some(),"refused":refused,"text":text,"len":len,
              "min_ok": if min_ok == usize::MAX { 0 } else { min_ok },"all_ok_same":all_ok_same,"small_all_toosmall":small_all_toosmall,
              "ref_ok":reference.is_some(),"same_as_ref": match (&out, &reference) { (Some(a), Some(b)) => a == b, _ => true },
              "valid_json": out.as_ref().map(|b| serde_json::from_slice::<serde::de::IgnoredAny>(b).is_ok() && std::str::from_utf8(b).is_ok()).unwrap_or(true),
              "no_raw_control": out.as_ref().map(|b| b.iter().all(|x| *x >= 0x20)).unwrap_or(true),
              "via_conn_same":via_conn_same}));
}

// ------------------------------------------------------------------ exhaustive scalar sweep

/// How the single character of a 1-char string came out.
fn shape_of(out: &[u8], c: char) -> String {
    if out.len() < 2 || out[0] != b'"' || out[out.len() - 1] != b'"' {
        return format!("malformed:{}", show(out));
    }
    let inner = &out[1..out.len() - 1];
    let mut raw = [0u8; 4];
    let raw = c.encode_utf8(&mut raw).as_bytes();
    if inner == raw {
        "raw".to_string()
    } else if inner.len() == 2 && inner[0] == b'\\' {
        format!("esc2:{}", inner[1] as char)
    } else if inner.len() == 6 && inner[0] == b'\\' && inner[1] == b'u' {
        format!("escu:{}", String::from_utf8_lossy(&inner[2..]))
    } else {
        format!("other:{}", show(inner))
    }
}

pub fn scalar_sweep(stats: &mut Stats) {
    for ctx in ["str", "key", "char"] {
        let mut run: Option<(u32, u32, String, bool)> = None; // lo, hi, shape, same_as_ref
        let flush = |run: &Option<(u32, u32, String, bool)>| {
            if let Some((lo, hi, shape, same)) = run {
                ev(json!({"ev":"range","ctx":ctx,"lo":lo,"hi":hi,"shape":shape,"same_as_ref":same}));
            }
        };
        for cp in 0..=0x10FFFFu32 {
            let c = match char::from_u32(cp) {
                Some(c) => c,
                None => continue, // surrogates are not scalars
            };
            stats.scalars += 1;
            let v = match ctx {
                "str" => V::Str(c.to_string()),
                "char" => V::Char(c),
                _ => V::Map(vec![(V::Str(c.to_string()), V::Null)]),
            };
            let out = encode_bytes(&v).unwrap_or_default();
            let reference = serde_json::to_vec(&v).unwrap();
            let text: &[u8] = if ctx == "key" && out.len() >= 7 { &out[1..out.len() - 6] } else { &out };
            let shape = shape_of(text, c);
            let same = out == reference;
            match &mut run {
                Some((_, hi, s, sm)) if *s == shape && *sm == same && (*hi + 1 == cp || (*hi == 0xD7FF && cp == 0xE000)) && !shape.starts_with("escu") => *hi = cp,
                _ => {
                    flush(&run);
                    run = Some((cp, cp, shape, same));
                }
            }
        }
        flush(&run);
    }
    // all pairs of escape-relevant bytes
    let special = ['"', '\\', '\n', '\u{1}', '\u{1f}', ' ', 'a', '/', '\u{7f}', 'é', '\u{2028}', '\0'];
    let mut same = true;
    let mut n = 0u32;
    for a in special {
        for b in special {
            let s: String = [a, b].iter().collect();
            for v in [V::Str(s.clone()), V::Map(vec![(V::Str(s.clone()), V::Str(s.clone()))])] {
                n += 1;
                if encode_bytes(&v) != serde_json::to_vec(&v).ok() {
                    same = false;
                }
            }
        }
    }
    ev(json!({"ev":"atoms","kind":"escape_pairs","n":n,"same_as_ref":same,"first_diff":""}));
}

// ------------------------------------------------------------------ number atoms

pub fn number_sweep(r: &mut Rng, thorough: bool, stats: &mut Stats) {
    let mut check = |kind: &str, vals: &mut dyn Iterator<Item = V>| {
        let mut n = 0u64;
        let mut diff = String::new();
        for v in vals {
            n += 1;
            if n % (1 << 20) == 0 {
                // a long sweep makes progress without emitting events: tell the watchdog
                crate::util::PROGRESS.fetch_add(1, std::sync::atomic::Ordering::SeqCst);
            }
            let a = encode_bytes(&v);
            let b = serde_json::to_vec(&v).ok();
            if a != b && diff.is_empty() {
                diff = format!("{v:?}: {:?} vs {:?}", a.map(|x| show(&x)), b.map(|x| show(&x)));
            }
        }
        stats.atoms += n;
        ev(json!({"ev":"atoms","kind":kind,"n":n,"same_as_ref":diff.is_empty(),"first_diff":diff}));
    };
    check("i8", &mut (i8::MIN..=i8::MAX).map(|x| V::Int(x as i128)));
    check("u8", &mut (u8::MIN..=u8::MAX).map(|x| V::UInt(x as u128)));
    check("i16", &mut (i16::MIN..=i16::MAX).map(|x| V::Int(x as i128)));
    check("u16", &mut (u16::MIN..=u16::MAX).map(|x| V::UInt(x as u128)));
    let mut wide: Vec<V> = Vec::new();
    for bits in [31u32, 32, 33, 63, 64, 65, 127] {
        for d in [-2i128, -1, 0, 1, 2] {
            let base: i128 = 1i128 << bits.min(126);
            wide.push(V::Int(base.wrapping_add(d)));
            wide.push(V::Int(-(base.wrapping_add(d))));
            wide.push(V::UInt((base.wrapping_add(d)) as u128));
        }
    }
    wide.extend([V::Int(i128::MIN), V::Int(i128::MAX), V::UInt(u128::MAX), V::Int(i64::MIN as i128), V::UInt(u64::MAX as u128)]);
    for _ in 0..20000 {
        let x = ((r.next() as u128) << 64) | r.next() as u128;
        let sh = r.below(128) as u32;
        wide.push(V::UInt(x >> sh));
        wide.push(V::Int((x >> sh) as i128));
        wide.push(V::Int(-((x >> sh.max(1)) as i128)));
    }
    check("wide_ints", &mut wide.into_iter());
    let mut floats: Vec<V> = vec![0.0, -0.0, 1.0, 0.1, 1e21, 1e-7, 1e22, 1.5e300, f64::MIN_POSITIVE, f64::MAX, f64::MIN, 5e-324, f64::NAN, f64::INFINITY, f64::NEG_INFINITY, 123456789.125, 1e15, 1e16, 1e17]
        .into_iter()
        .map(V::F64)
        .collect();
    for _ in 0..50000 {
        floats.push(V::F64(f64::from_bits(r.next())));
        floats.push(V::F32(f32::from_bits(r.next() as u32)));
    }
    floats.extend([V::F32(f32::NAN), V::F32(f32::INFINITY), V::F32(0.1), V::F32(f32::MAX), V::F32(f32::MIN_POSITIVE), V::F32(1e-45)]);
    check("floats", &mut floats.into_iter());
    if thorough {
        // every f32 bit pattern
        check("all_f32", &mut (0..=u32::MAX).map(|b| V::F32(f32::from_bits(b))));
    }
}

// ------------------------------------------------------------------ seeded random trees (in the spec's vocabulary)

pub fn random_tree(r: &mut Rng, depth: usize) -> Value {
    let toks = ["a", "Z", "0", " ", "QUOTE", "BSLASH", "NL", "TAB", "CR", "BS", "FF", "C00", "C01", "C1F", "SLASH", "DEL", "EACUTE", "EURO", "EMOJI", "U2028", "{", "}", "[", ",", ":"];
    let s = |r: &mut Rng| -> Value { Value::Array((0..r.below(5)).map(|_| json!(*r.pick(&toks))).collect()) };
    let atom = |r: &mut Rng| -> Value {
        match r.below(10) {
            0 => json!({"t":"null"}),
            1 => json!({"t":"bool","b":r.chance(1,2)}),
            2 => json!({"t":"num","a":format!("{}", (r.next() as i64) >> r.below(60)),"int":true}),
            3 => json!({"t":"num","a":format!("{}", r.next() >> r.below(60)),"int":true}),
            4 => json!({"t":"str","s":s(r)}),
            // a Display value: a long piece followed by shorter ones (the buffer may end inside any of them)
            5 => json!({"t":"disp","parts":[Value::Array((0..r.range(3, 40)).map(|_| json!(*r.pick(&toks))).collect()), s(r), s(r)]}),
            6 => json!({"t":"char","s":[*r.pick(&toks)]}),
            7 => json!({"t":"unitvar","name":"Uv"}),
            8 => if r.chance(1, 2) { json!({"t":"none"}) } else { json!({"t":"unitstruct"}) },
            _ => json!({"t":"bytes","n":(0..r.below(4)).map(|_| r.below(256)).collect::<Vec<_>>()}),
        }
    };
    if depth == 0 || r.chance(1, 4) {
        return atom(r);
    }
    let n = r.below(4) as usize;
    let kids = |r: &mut Rng| -> Vec<Value> { (0..n).map(|_| random_tree(r, depth - 1)).collect() };
    let key = |r: &mut Rng| -> Value {
        match r.below(12) {
            0..=4 => json!({"t":"str","s":s(r)}),
            5 => json!({"t":"char","s":[*r.pick(&toks)]}),
            6 => json!({"t":"num","a":format!("{}", (r.next() as i64) >> r.below(60)),"int":true}),
            7 => json!({"t":"unitvar","name":"Kv"}),
            8 => match r.below(6) {
                0 | 1 => json!({"t":"newtype","v":{"t":"str","s":s(r)}}),
                2 => json!({"t":"newtype","v":{"t":"num","a":format!("{}", (r.next() as i64) >> r.below(60)),"int":true}}),
                3 => json!({"t":"newtype","v":{"t":"newtype","v":{"t":"num","a":format!("{}", r.next() >> r.below(60)),"int":true}}}),
                4 => json!({"t":"newtype","v":{"t":"bool","b":r.chance(1,2)}}),
                _ => json!({"t":"newtype","v":{"t":"seq","items":[]}}),
            },
            9 => json!({"t":"bool","b":true}),
            10 => if r.chance(1, 2) { json!({"t":"seq","items":[]}) } else { json!({"t":"unitstruct"}) },
            _ => json!({"t":"some","v":{"t":"str","s":s(r)}}),
        }
    };
    let fields = |r: &mut Rng| -> Vec<Value> { kids(r).into_iter().enumerate().map(|(i, v)| { let nm = ["f", "g2", "h", "q\"t", "b\\s\tn\nl"][(i + n) % 5]; json!([nm, v]) }).collect() };
    match r.below(9) {
        0 => if r.chance(1, 3) { json!({"t":"tuplestruct","items":kids(r)}) } else { json!({"t":"seq","items":kids(r)}) },
        1 => {
            let mut k = kids(r);
            if k.is_empty() {
                k.push(atom(r));
            }
            json!({"t":"tuple","items":k})
        }
        2 => json!({"t":"map","entries":kids(r).into_iter().map(|v| json!([key(r), v])).collect::<Vec<_>>()}),
        3 => json!({"t":"struct","fields":fields(r)}),
        4 => json!({"t":"some","v":random_tree(r, depth - 1)}),
        5 => json!({"t":"newtype","v":random_tree(r, depth - 1)}),
        6 => json!({"t":"newtypevar","name":"Nv","v":random_tree(r, depth - 1)}),
        7 => json!({"t":"tuplevar","name":"Tv","items":kids(r)}),
        _ => json!({"t":"structvar","name":"Sv","fields":fields(r)}),
    }
}
