//! C01 / C07 / C17 (inbound): receive under arbitrary fragmentation, suspension and cancellation.
//!
//! A scenario is a list of frames (arbitrary bytes without NUL) plus a step list
//! (feed n / suspend / poll / cancel / close / readerr). The driver executes the steps against
//! `Connection::receive_*`, logging every transport read and every receive result.

use crate::{
    targets::{Outcome, Target, TARGET_NAMES},
    util::{ev, poll_once, Rng},
    wire::{new_wire, Sock, Wire},
    with_target,
};
use serde_json::{json, Value};
use std::task::Poll;
use zlink_core::Connection;

#[derive(Debug, Clone, PartialEq)]
pub enum Step {
    Feed(usize),
    Suspend,
    Poll,
    Cancel,
    Close,
    ReadErr,
}

#[derive(Debug, Clone)]
pub struct Scenario {
    pub sid: String,
    pub target: String,
    pub frames: Vec<Vec<u8>>,
    /// bytes after the last complete frame (unterminated tail), normally empty
    pub tail: Vec<u8>,
    pub steps: Vec<Step>,
    /// abstract frame descriptors (lead, body, trail, ok) when the frames are byte-exact images
    /// of ReadConn.tla's frames (tiny build)
    pub fd: Option<Vec<(usize, usize, usize, bool)>>,
    /// finish by feeding everything, closing, and receiving until end-of-stream
    pub drain: bool,
    /// log transport reads in accumulated form (huge streams)
    pub quiet: bool,
}

pub fn bytes_to_json(b: &[u8]) -> Value {
    match std::str::from_utf8(b) {
        Ok(s) if b.len() <= 400 => json!({"s": s}),
        Ok(s) => {
            // long frames are stored run-length compressed: prefix + repeated pad char + suffix
            json!({"s": s})
        }
        Err(_) => json!({"hex": b.iter().map(|x| format!("{x:02x}")).collect::<String>()}),
    }
}
pub fn bytes_from_json(v: &Value) -> Vec<u8> {
    if let Some(s) = v.get("s").and_then(|s| s.as_str()) {
        s.as_bytes().to_vec()
    } else if let Some(h) = v.get("hex").and_then(|s| s.as_str()) {
        (0..h.len() / 2)
            .map(|i| u8::from_str_radix(&h[2 * i..2 * i + 2], 16).unwrap())
            .collect()
    } else if let Some(s) = v.as_str() {
        s.as_bytes().to_vec()
    } else {
        panic!("bad bytes value {v}")
    }
}

impl Scenario {
    pub fn to_json(&self) -> Value {
        json!({
            "family": "framing",
            "sid": self.sid, "target": self.target,
            "frames": self.frames.iter().map(|f| bytes_to_json(f)).collect::<Vec<_>>(),
            "tail": bytes_to_json(&self.tail),
            "steps": self.steps.iter().map(|s| match s {
                Step::Feed(n) => json!(["feed", n]),
                Step::Suspend => json!(["suspend"]),
                Step::Poll => json!(["poll"]),
                Step::Cancel => json!(["cancel"]),
                Step::Close => json!(["close"]),
                Step::ReadErr => json!(["readerr"]),
            }).collect::<Vec<_>>(),
            "drain": self.drain, "quiet": self.quiet,
            "fd": self.fd.as_ref().map(|v| v.iter().map(|(l,b,t,o)| json!({"lead":l,"body":b,"trail":t,"ok":o})).collect::<Vec<_>>()),
        })
    }
    pub fn from_json(v: &Value) -> Scenario {
        Scenario {
            sid: v["sid"].as_str().unwrap_or("replay").to_string(),
            target: v["target"].as_str().unwrap().to_string(),
            frames: v["frames"].as_array().unwrap().iter().map(bytes_from_json).collect(),
            tail: v.get("tail").map(bytes_from_json).unwrap_or_default(),
            steps: v["steps"]
                .as_array()
                .unwrap()
                .iter()
                .map(|s| match s[0].as_str().unwrap() {
                    "feed" => Step::Feed(s[1].as_u64().unwrap() as usize),
                    "suspend" => Step::Suspend,
                    "poll" => Step::Poll,
                    "cancel" => Step::Cancel,
                    "close" => Step::Close,
                    "readerr" => Step::ReadErr,
                    o => panic!("bad step {o}"),
                })
                .collect(),
            drain: v.get("drain").and_then(|d| d.as_bool()).unwrap_or(true),
            quiet: v.get("quiet").and_then(|d| d.as_bool()).unwrap_or(false),
            fd: v.get("fd").and_then(|f| f.as_array()).map(|a| {
                a.iter()
                    .map(|f| {
                        (
                            f["lead"].as_u64().unwrap() as usize,
                            f["body"].as_u64().unwrap() as usize,
                            f["trail"].as_u64().unwrap() as usize,
                            f["ok"].as_bool().unwrap(),
                        )
                    })
                    .collect()
            }),
        }
    }
    pub fn stream(&self) -> Vec<u8> {
        let mut s = Vec::new();
        for f in &self.frames {
            s.extend_from_slice(f);
            s.push(0);
        }
        s.extend_from_slice(&self.tail);
        s
    }
}

pub struct Stats {
    pub scenarios: u64,
    pub frames: u64,
    pub cancels: u64,
    pub nontrivial: std::collections::HashSet<String>,
    pub drift: Vec<Value>,
}

fn hook_state(conn: &Connection<Sock>) -> (usize, usize, usize) {
    let (_p, blen, rp, mp) = conn.read().verif_state();
    (blen, rp, mp)
}

/// Execute one scenario against the real connection code, logging events.
pub fn run<T: Target>(sc: &Scenario, stats: &mut Stats) {
    let stream = sc.stream();
    let wire: Wire = new_wire(0);
    wire.borrow_mut().quiet_chunks = sc.quiet;
    let mut reported = 0usize;
    let mut conn = Connection::new(Sock(wire.clone()));
    // reset event with the expected result of every frame (isolated decode)
    let mut end = 0usize;
    let frames: Vec<Value> = sc
        .frames
        .iter()
        .map(|f| {
            end += f.len() + 1;
            let mut v = crate::targets::expected_fields(&T::isolated(f), f);
            v["end"] = json!(end);
            v
        })
        .collect();
    let (blen0, _, _) = hook_state(&conn);
    // (TLC's Json module cannot read `null`: absent descriptors are an empty list)
    let fd = sc.fd.as_ref().map(|v| v.iter().map(|(l,b,t,o)| json!({"lead":l,"body":b,"trail":t,"ok":o})).collect::<Vec<_>>()).unwrap_or_default();
    ev(json!({"ev":"reset","sid":sc.sid,"target":T::NAME,"frames":frames,"fd":fd,
              "total": stream.len(), "B": crate::buffer_step(), "MAXB": crate::buffer_max(), "blen": blen0}));
    stats.scenarios += 1;
    stats.frames += sc.frames.len() as u64;

    let mut off = 0usize; // bytes released to the wire so far
    let mut script: std::collections::VecDeque<Step> = sc.steps.iter().cloned().collect();
    let mut dead = false;
    let mut drained = false;
    let mut drain_results = 0usize;
    let mut budget = 8 * (sc.frames.len() + 4) + 4 * sc.steps.len() + 64;
    // Step source: the script, then (drain mode) "feed the rest, close" and polls for ever.
    macro_rules! next_step {
        () => {{
            if let Some(s) = script.pop_front() {
                Some(s)
            } else if sc.drain {
                if !drained {
                    drained = true;
                    if off < stream.len() {
                        wire.borrow_mut().inb.push_back(Some(stream[off..].to_vec()));
                        off = stream.len();
                    }
                    if !wire.borrow().closed {
                        wire.borrow_mut().closed = true;
                        ev(json!({"ev":"close"}));
                    }
                }
                Some(Step::Poll)
            } else {
                None
            }
        }};
    }

    'outer: loop {
        // Outside of a receive: apply environment steps until a Poll comes up.
        let mut want_poll = false;
        while let Some(s) = next_step!() {
            match s {
                Step::Poll => {
                    want_poll = true;
                    break;
                }
                other => apply_env(&other, &wire, &stream, &mut off),
            }
        }
        if !want_poll || dead {
            break;
        }
        // One receive operation: created here, polled on every Poll step, dropped on Cancel.
        let finished: Option<Outcome> = {
            let mut fut = Box::pin(T::recv(&mut conn));
            ev(json!({"ev":"start"}));
            loop {
                budget -= 1;
                if budget == 0 {
                    ev(json!({"ev":"stuck"}));
                    break 'outer;
                }
                let polled = match std::panic::catch_unwind(std::panic::AssertUnwindSafe(|| poll_once(fut.as_mut()))) {
                    Ok(p) => p,
                    Err(_) => {
                        ev(json!({"ev":"recv","cls":"panic","canon":"","blen":0,"rp":0,"mp":0}));
                        break 'outer;
                    }
                };
                if sc.quiet {
                    let d = wire.borrow().delivered;
                    if d > reported {
                        ev(json!({"ev":"chunk","c":0,"n":d - reported}));
                        reported = d;
                    }
                }
                match polled {
                    Poll::Ready(o) => break Some(o),
                    Poll::Pending => {
                        ev(json!({"ev":"pending"}));
                        let mut cancelled = false;
                        let mut again = false;
                        while let Some(s) = next_step!() {
                            match s {
                                Step::Poll => {
                                    again = true;
                                    break;
                                }
                                Step::Cancel => {
                                    cancelled = true;
                                    break;
                                }
                                other => apply_env(&other, &wire, &stream, &mut off),
                            }
                        }
                        if cancelled || !again {
                            stats.cancels += 1;
                            break None;
                        }
                    }
                }
            }
        };
        let (blen, rp, mp) = hook_state(&conn);
        match finished {
            Some(o) => {
                if matches!(o.cls, "overflow" | "io_err" | "other") {
                    dead = true;
                }
                // the end of the stream, not the error result of a blank frame (same error variant)
                let is_eof = o.cls == "eof" && wire.borrow().eof_reported;
                ev(json!({"ev":"recv","cls":o.cls,"canon":o.canon,"blen":blen,"rp":rp,"mp":mp}));
                if drained {
                    drain_results += 1;
                    if is_eof || drain_results > sc.frames.len() + 3 {
                        break;
                    }
                }
            }
            None => {
                ev(json!({"ev":"cancel","blen":blen,"rp":rp,"mp":mp}));
            }
        }
    }
    ev(json!({"ev":"end","drained":drained}));
}

fn apply_env(s: &Step, wire: &Wire, stream: &[u8], off: &mut usize) {
    match s {
        Step::Feed(n) => {
            let e = (*off + *n).min(stream.len());
            if e > *off {
                wire.borrow_mut().inb.push_back(Some(stream[*off..e].to_vec()));
                *off = e;
            }
        }
        Step::Suspend => wire.borrow_mut().inb.push_back(None),
        Step::Close => {
            // the peer closes: bytes never released are never sent
            wire.borrow_mut().closed = true;
            ev(json!({"ev":"close"}));
        }
        Step::ReadErr => {
            wire.borrow_mut().read_err = true;
            ev(json!({"ev":"inject_read_err"}));
        }
        Step::Poll | Step::Cancel => {}
    }
}

pub fn run_named(sc: &Scenario, stats: &mut Stats) {
    with_target!(sc.target.as_str(), run(sc, stats))
}

// ------------------------------------------------------------------ generators

const WS: [&str; 6] = [" ", "\n", "\t", "\r", "  \n", " \t "];

/// A frame of a requested kind for a target, padded so that its length is close to `want`.
pub fn gen_frame(r: &mut Rng, target: &str, want: usize) -> Vec<u8> {
    let kind = r.below(14);
    let pad = |base: usize| "p".repeat(want.saturating_sub(base));
    let i = r.below(1000);
    let valid: String = match target {
        "call_enum" => match r.below(4) {
            0 => "{\"method\":\"t.Ping\"}".into(),
            1 => format!("{{\"method\":\"t.Borrow\",\"parameters\":{{\"s\":\"{}\",\"n\":{i}}}}}", pad(48)),
            2 => format!("{{\"parameters\":{{\"pad\":\"{}\",\"i\":{i}}},\"method\":\"t.Echo\",\"oneway\":true}}", pad(62)),
            _ => format!("{{\"method\":\"t.Echo\",\"parameters\":{{\"i\":{i},\"pad\":\"{}\"}}}}", pad(49)),
        },
        "call_struct" => format!("{{\"method\":\"m{i}\",\"parameters\":{{\"i\":{i},\"pad\":\"{}\"}}}}", pad(48)),
        "call_std" => match r.below(2) {
            0 => "{\"method\":\"org.varlink.service.GetInfo\"}".into(),
            _ => format!("{{\"method\":\"org.varlink.service.GetInterfaceDescription\",\"parameters\":{{\"interface\":\"{}\"}}}}", pad(88)),
        },
        "reply_borrow" => match r.below(4) {
            0 => "{\"error\":\"t.err.NotFound\"}".into(),
            1 => format!("{{\"error\":\"t.err.Bad\",\"parameters\":{{\"code\":{i},\"msg\":\"{}\"}}}}", pad(56)),
            _ => format!("{{\"parameters\":{{\"s\":\"{}\",\"i\":{i}}},\"continues\":true}}", pad(46)),
        },
        _ => match r.below(8) {
            0 => "{\"error\":\"t.err.NotFound\"}".into(),
            1 => format!("{{\"error\":\"t.err.Bad\",\"parameters\":{{\"code\":-{i},\"msg\":\"{}\"}}}}", pad(57)),
            2 => format!("{{\"error\":\"org.varlink.service.MethodNotFound\",\"parameters\":{{\"method\":\"{}\"}}}}", pad(74)),
            3 => "{\"error\":\"org.varlink.service.PermissionDenied\"}".into(),
            4 => format!("{{\"continues\":false,\"parameters\":{{\"pad\":\"{}\",\"i\":{i}}}}}", pad(50)),
            _ => format!("{{\"parameters\":{{\"i\":{i},\"pad\":\"{}\"}}}}", pad(33)),
        },
    };
    let mut body: String = match kind {
        // wrong shape but valid JSON
        0 => match r.below(6) {
            0 => "[1,2,3]".into(),
            1 => format!("{{\"method\":\"t.Nope\",\"parameters\":{{\"x\":\"{}\"}}}}", pad(40)),
            2 => "42".into(),
            3 => format!("\"{}\"", pad(2)),
            4 => "{\"method\":\"t.Echo\",\"parameters\":{\"i\":\"notanumber\",\"pad\":1}}".into(),
            _ => "{}".into(),
        },
        // malformed JSON
        1 => match r.below(8) {
            0 => "{\"method\":".into(),
            1 => format!("{valid}}}"),
            2 => format!("{valid} x"),
            3 => "{\"a\":1,}".into(),
            4 => format!("{}garbage", pad(8)),
            5 => "}".into(),
            6 => format!("{valid}{valid}"),
            _ => format!("{} {{", valid),
        },
        // raw non-UTF-8 / control bytes handled below
        2 => valid.clone(),
        // a frame that holds nothing but JSON whitespace: no document, one error result of its own
        4 => match r.below(6) {
            0 => " ".into(),
            1 => "\r\n".into(),
            2 => "\t".into(),
            3 => " ".repeat(want.max(1)),
            4 => "\n \t\r ".into(),
            _ => r.pick(&WS).to_string(),
        },
        // error-ish frames for reply targets (also fine as wrong-shape calls)
        3 => match r.below(6) {
            0 => "{\"error\":\"io.systemd.System\"}".into(),
            1 => "{\"error\":\"t.err.Bad\"}".into(),
            2 => "{\"error\":\"t.err.Bad\",\"parameters\":{\"code\":\"x\",\"msg\":1}}".into(),
            3 => "{\"error\":\"t.err.NotFound\",\"parameters\":{}}".into(),
            4 => "{\"error\":\"org.varlink.service.MethodNotFound\"}".into(),
            _ => "{\"error\":5}".into(),
        },
        _ => valid.clone(),
    };
    // whitespace padding around the document (insignificant whitespace)
    if kind != 4 && r.chance(1, 4) {
        body = format!("{}{}", r.pick(&WS), body);
    }
    if kind != 4 && r.chance(1, 4) {
        body = format!("{}{}", body, r.pick(&WS));
    }
    let mut b = body.into_bytes();
    if kind == 2 && !b.is_empty() {
        // corrupt one byte into a non-UTF-8 / control byte (never NUL)
        let p = r.below(b.len() as u64) as usize;
        b[p] = *r.pick(&[0xffu8, 0x80, 0x01, 0x1f, 0xc3]);
    }
    if b.is_empty() {
        b.push(b' ');
    }
    b
}

fn gen_len(r: &mut Rng, step: usize) -> usize {
    // now and then (production constants) a frame of several hundred growth steps: together with short
    // frames in front of it, everything coalesced, the buffer is filled by hundreds of reads of one step each
    if r.chance(1, 40) && crate::buffer_max() > 1 << 20 {
        return r.range(258 * step, 600 * step);
    }
    match r.below(9) {
        // now and then a frame that needs many growth steps
        8 => r.range(17 * step, 40 * step).min(crate::buffer_max() / 3),
        0 => 0,
        1 => r.range(0, 40),
        2 | 3 => {
            // around a multiple of the growth step
            let m = step * r.range(1, 4);
            (m + r.range(0, 6)).saturating_sub(3)
        }
        4 => r.range(0, step * 3 + 10),
        _ => r.range(0, 100),
    }
}

/// Random chunking / suspension / cancellation schedule over a stream of `total` bytes.
pub fn gen_steps(r: &mut Rng, total: usize, nframes: usize, cancels: bool) -> Vec<Step> {
    let mut steps = Vec::new();
    let style = r.below(6);
    let mut left = total;
    while left > 0 {
        let n = match style {
            0 => 1,
            1 => r.range(1, 8),
            2 => r.range(1, 300),
            3 => crate::buffer_step(),
            4 => left,
            _ => match r.below(4) {
                0 => 1,
                1 => r.range(1, 16),
                2 => r.range(1, 600),
                _ => left,
            },
        }
        .min(left);
        if r.chance(1, 3) {
            steps.push(Step::Suspend);
        }
        steps.push(Step::Feed(n));
        left -= n;
        let polls = r.below(3);
        for _ in 0..polls {
            steps.push(Step::Poll);
            if cancels && r.chance(1, 3) {
                steps.push(Step::Cancel);
            }
        }
    }
    let _ = nframes;
    steps
}

/// Reads that end exactly behind a frame's terminator: groups of 1..3 whole frames per read, a poll
/// (sometimes two, sometimes a cancel) after each group, now and then one group split once more inside.
pub fn gen_steps_aligned(r: &mut Rng, lens: &[usize], cancels: bool) -> Vec<Step> {
    let mut steps = Vec::new();
    let mut i = 0;
    while i < lens.len() {
        let g = (r.range(1, 3)).min(lens.len() - i);
        let n: usize = lens[i..i + g].iter().sum();
        if r.chance(1, 5) && n > 1 {
            let c = r.range(1, n - 1);
            steps.push(Step::Feed(c));
            steps.push(Step::Poll);
            if cancels && r.chance(1, 3) {
                steps.push(Step::Cancel);
            }
            steps.push(Step::Feed(n - c));
        } else {
            if r.chance(1, 4) {
                steps.push(Step::Suspend);
            }
            steps.push(Step::Feed(n));
        }
        steps.push(Step::Poll);
        if r.chance(1, 3) {
            steps.push(Step::Poll);
        }
        i += g;
    }
    steps
}

pub fn gen_scenario(r: &mut Rng, sid: String, cancels: bool, valid_only: bool) -> Scenario {
    let target = r.pick(&TARGET_NAMES).to_string();
    let step = crate::buffer_step();
    let nf = match r.below(5) {
        0 => 1,
        1 => 2,
        2 => 3,
        _ => r.range(1, 10),
    };
    let mut frames = Vec::new();
    for _ in 0..nf {
        let want = gen_len(r, step);
        let mut f = gen_frame(r, &target, want);
        if valid_only {
            // keep only frames that decode (C07 quantifies over C01's frames; this flag gives a
            // pure-valid population in addition)
            let mut tries = 0;
            while with_target_isolated(&target, &f).cls == "decode_err" && tries < 20 {
                f = gen_frame(r, &target, want);
                tries += 1;
            }
        }
        frames.push(f);
    }
    let total: usize = frames.iter().map(|f| f.len() + 1).sum();
    let steps = if r.chance(1, 5) {
        let lens: Vec<usize> = frames.iter().map(|f| f.len() + 1).collect();
        gen_steps_aligned(r, &lens, cancels)
    } else {
        gen_steps(r, total, nf, cancels)
    };
    Scenario {
        sid,
        target,
        frames,
        tail: vec![],
        steps,
        fd: None,
        drain: true,
        quiet: false,
    }
}

pub fn with_target_isolated(target: &str, f: &[u8]) -> Outcome {
    fn iso<T: Target>(f: &[u8]) -> Outcome {
        T::isolated(f)
    }
    with_target!(target, iso(f))
}

/// Every single cut position (and every pair for short streams) of a small stream.
pub fn gen_all_cuts(r: &mut Rng, base: &str, out: &mut Vec<Scenario>, pairs: bool) {
    let target = r.pick(&TARGET_NAMES).to_string();
    let nf = r.range(2, 3);
    let frames: Vec<Vec<u8>> = (0..nf)
        .map(|_| {
            let want = r.range(0, 24);
            gen_frame(r, &target, want)
        })
        .collect();
    let total: usize = frames.iter().map(|f| f.len() + 1).sum();
    for c1 in 1..total {
        let mk = |cuts: &[usize], sid: String| {
            let mut steps = Vec::new();
            let mut prev = 0;
            for c in cuts {
                steps.push(Step::Feed(c - prev));
                steps.push(Step::Poll);
                prev = *c;
            }
            steps.push(Step::Feed(total - prev));
            Scenario {
                sid,
                target: target.clone(),
                frames: frames.clone(),
                tail: vec![],
                steps,
                fd: None,
                drain: true,
                quiet: false,
            }
        };
        out.push(mk(&[c1], format!("{base}-c{c1}")));
        if pairs && total <= 80 {
            for c2 in (c1 + 1)..total {
                out.push(mk(&[c1, c2], format!("{base}-c{c1}-{c2}")));
            }
        }
    }
}

/// Byte-exact concrete image of an abstract frame descriptor of ReadConn.tla (tiny build):
/// `lead` spaces, a `body`-byte JSON document that decodes (`ok`) or not, `trail` newlines.
pub fn concretise_tiny(idx: usize, lead: usize, body: usize, trail: usize, ok: bool) -> Vec<u8> {
    let mut v = vec![b' '; lead];
    let doc: String = if ok {
        assert!(body >= 2, "an object needs two bytes");
        if body >= 7 {
            format!("{{\"a\":{}{}}}", idx % 10, " ".repeat(body - 7))
        } else {
            format!("{{{}}}", " ".repeat(body - 2))
        }
    } else if body == 0 {
        assert!(lead + trail >= 1, "a blank frame still has a byte");
        String::new()
    } else if body == 1 {
        "x".to_string()
    } else {
        format!("[{}]", " ".repeat(body - 2))
    };
    assert_eq!(doc.len(), body);
    v.extend_from_slice(doc.as_bytes());
    v.extend(std::iter::repeat_n(b'\n', trail));
    v
}

/// Scenario from a TLC-exported ReadConn behaviour (MCReadConnExport): frame descriptors plus
/// the sequence of model actions. `{"frames":[{"lead":0,"body":2,"trail":1,"ok":true}...],
/// "steps":[{"a":"start","n":0},{"a":"read","n":2},...]}`. Frames are byte-exact images, so
/// every model step has exactly one counterpart in the execution.
pub fn from_model_behaviour(v: &Value, sid: String, target: &str) -> Scenario {
    let fd: Vec<(usize, usize, usize, bool)> = v["frames"]
        .as_array()
        .unwrap()
        .iter()
        .map(|f| {
            (
                f["lead"].as_u64().unwrap() as usize,
                f["body"].as_u64().unwrap() as usize,
                f["trail"].as_u64().unwrap() as usize,
                f["ok"].as_bool().unwrap(),
            )
        })
        .collect();
    let frames = fd
        .iter()
        .enumerate()
        .map(|(i, (l, b, t, o))| concretise_tiny(i + 1, *l, *b, *t, *o))
        .collect();
    let mut steps = Vec::new();
    for s in v["steps"].as_array().unwrap() {
        match s["a"].as_str().unwrap() {
            "start" => steps.push(Step::Poll),
            "read" => {
                steps.push(Step::Feed(s["n"].as_u64().unwrap() as usize));
                steps.push(Step::Poll);
            }
            "close" => steps.push(Step::Close),
            "eof" => steps.push(Step::Poll),
            "cancel" => steps.push(Step::Cancel),
            "parse" | "fail" => {}
            o => panic!("unknown model step {o}"),
        }
    }
    Scenario {
        sid,
        target: target.to_string(),
        frames,
        tail: vec![],
        steps,
        fd: Some(fd),
        drain: true,
        quiet: false,
    }
}

/// Random byte-exact scenario for the tiny build (validated against ReadConn.tla itself).
pub fn gen_tiny(r: &mut Rng, sid: String, cancels: bool) -> Scenario {
    let step = crate::buffer_step();
    let nf = r.range(1, 5);
    let fd: Vec<(usize, usize, usize, bool)> = (0..nf)
        .map(|_| {
            let ok = r.chance(2, 3);
            let body = match r.below(4) {
                0 => r.range(1, 3),
                1 => r.range(step.saturating_sub(2), step + 2),
                2 => r.range(2 * step - 2, 2 * step + 3),
                _ => r.range(1, 3 * step),
            }
            .max(if ok { 2 } else { 1 });
            (r.range(0, 2), body, r.range(0, 2), ok)
        })
        .collect();
    let frames: Vec<Vec<u8>> = fd
        .iter()
        .enumerate()
        .map(|(i, (l, b, t, o))| concretise_tiny(i + 1, *l, *b, *t, *o))
        .collect();
    let total: usize = frames.iter().map(|f| f.len() + 1).sum();
    let steps = gen_steps(r, total, nf, cancels);
    Scenario {
        sid,
        target: if r.chance(1, 2) { "tiny_call" } else { "tiny_reply" }.to_string(),
        frames,
        tail: vec![],
        steps,
        fd: Some(fd),
        drain: true,
        quiet: false,
    }
}

/// C17 inbound: one frame of every size around every growth step up to the limit and beyond,
/// delivered whole, byte by byte, step by step or randomly cut; plus unterminated streams.
pub fn gen_size_sweep(r: &mut Rng, out: &mut Vec<Scenario>, dense: bool) {
    let step = crate::buffer_step();
    let maxb = crate::buffer_max();
    let mut sizes: Vec<usize> = Vec::new(); // frame size including terminator
    if dense {
        sizes.extend(2..=(maxb + 2 * step + 1));
    } else {
        let mut m = step;
        while m <= maxb + 2 * step && sizes.len() < 400 {
            for d in [-2i64, -1, 0, 1, 2] {
                let s = m as i64 + d;
                if s >= 2 {
                    sizes.push(s as usize);
                }
            }
            m += step * if m < 8 * step { 1 } else { (maxb / step / 16).max(1) };
        }
        for d in [-2i64, -1, 0, 1, 2, step as i64, step as i64 + 1] {
            sizes.push((maxb as i64 + d) as usize);
        }
    }
    for (i, sz) in sizes.iter().enumerate() {
        let doc_len = sz - 1;
        let prefix = "{\"method\":\"t.Echo\",\"parameters\":{\"i\":7,\"pad\":\"";
        let suffix = "\"}}";
        let frame: Vec<u8> = if doc_len >= prefix.len() + suffix.len() {
            format!("{prefix}{}{suffix}", "s".repeat(doc_len - prefix.len() - suffix.len())).into_bytes()
        } else {
            // too short for the call: a short non-decodable document of the exact length
            format!("[{}]", " ".repeat(doc_len.saturating_sub(2))).into_bytes()[..doc_len.max(1)].to_vec()
        };
        let styles: &[u64] = if dense { &[0, 1, 2] } else { &[0, 2, 3] };
        for st in styles {
            let total = frame.len() + 1;
            let mut steps = Vec::new();
            match st {
                0 => steps.push(Step::Feed(total)),
                1 => {
                    for _ in 0..total {
                        steps.push(Step::Feed(1));
                        steps.push(Step::Poll);
                    }
                }
                2 => {
                    let mut left = total;
                    while left > 0 {
                        let n = step.min(left);
                        steps.push(Step::Feed(n));
                        steps.push(Step::Poll);
                        left -= n;
                    }
                }
                _ => steps = gen_steps(r, total, 1, false),
            }
            // a small well-formed frame behind it shows that the connection carries on
            let mut frames = vec![frame.clone()];
            if r.chance(1, 2) {
                frames.push(b"{\"method\":\"t.Ping\"}".to_vec());
            }
            out.push(Scenario {
                sid: format!("z{i}-{st}"),
                target: "call_enum".into(),
                frames,
                tail: vec![],
                steps,
                fd: None,
                drain: true,
                quiet: false,
            });
        }
    }
    // unterminated streams: the limit must stop them
    for (j, extra) in [0usize, 1, step, 3 * step + 1].iter().enumerate() {
        let tail = vec![b'u'; maxb + extra];
        out.push(Scenario {
            sid: format!("zu{j}"),
            target: "call_enum".into(),
            frames: vec![b"{\"method\":\"t.Ping\"}".to_vec()],
            tail,
            steps: vec![Step::Feed(30), Step::Poll],
            fd: None,
            drain: true,
        quiet: false,
        });
    }
}

/// C17 inbound with the production limit: a frame just below the limit (accepted), one that
/// reaches it (refused), an unterminated stream (refused); reads logged in accumulated form.
pub fn gen_prod_limit(out: &mut Vec<Scenario>) {
    let maxb = crate::buffer_max();
    let step = crate::buffer_step();
    let prefix = "{\"method\":\"t.Echo\",\"parameters\":{\"i\":7,\"pad\":\"";
    let suffix = "\"}}";
    for (j, total) in [maxb - 1, maxb - step, maxb, maxb + 1].iter().enumerate() {
        let doc_len = total - 1;
        let frame = format!("{prefix}{}{suffix}", "s".repeat(doc_len - prefix.len() - suffix.len())).into_bytes();
        out.push(Scenario {
            sid: format!("P{j}"),
            target: "call_enum".into(),
            // the two sizes below the limit arrive alone (they must be accepted); the others are
            // followed by a pipelined call
            frames: if j < 2 { vec![frame] } else { vec![frame, b"{\"method\":\"t.Ping\"}".to_vec()] },
            tail: vec![],
            steps: vec![Step::Feed(1000), Step::Poll],
            fd: None,
            drain: true,
            quiet: true,
        });
    }
    out.push(Scenario {
        sid: "PU".into(),
        target: "call_enum".into(),
        frames: vec![b"{\"method\":\"t.Ping\"}".to_vec()],
        tail: vec![b'u'; maxb + 300],
        steps: vec![Step::Feed(30), Step::Poll],
        fd: None,
        drain: true,
        quiet: true,
    });
}
