//! Small shared helpers: PRNG, noop-waker polling, event log, hashing, error classes.

use std::{
    cell::RefCell,
    future::Future,
    io::Write,
    pin::Pin,
    task::{Context, Poll, Waker},
};

/// splitmix64 — the only PRNG of the harness (seeded from VERIF_SEED).
#[derive(Clone, Debug)]
pub struct Rng(pub u64);
impl Rng {
    pub fn new(seed: u64) -> Self {
        Rng(seed.wrapping_mul(0x9E3779B97F4A7C15) ^ 0xD1B54A32D192ED03)
    }
    pub fn next(&mut self) -> u64 {
        self.0 = self.0.wrapping_add(0x9E3779B97F4A7C15);
        let mut z = self.0;
        z = (z ^ (z >> 30)).wrapping_mul(0xBF58476D1CE4E5B9);
        z = (z ^ (z >> 27)).wrapping_mul(0x94D049BB133111EB);
        z ^ (z >> 31)
    }
    pub fn below(&mut self, n: u64) -> u64 {
        if n == 0 {
            0
        } else {
            self.next() % n
        }
    }
    pub fn range(&mut self, lo: usize, hi: usize) -> usize {
        lo + self.below((hi - lo + 1) as u64) as usize
    }
    pub fn chance(&mut self, num: u64, den: u64) -> bool {
        self.below(den) < num
    }
    pub fn pick<'a, T>(&mut self, v: &'a [T]) -> &'a T {
        &v[self.below(v.len() as u64) as usize]
    }
    pub fn fork(&mut self) -> Rng {
        Rng(self.next())
    }
}

/// Poll a future exactly once with a no-op waker.
pub fn poll_once<F: Future + ?Sized>(f: Pin<&mut F>) -> Poll<F::Output> {
    let mut cx = Context::from_waker(Waker::noop());
    f.poll(&mut cx)
}

/// Drive a future that never legitimately suspends (bounded number of polls).
pub fn block_on<F: Future>(f: F) -> F::Output {
    let mut f = std::pin::pin!(f);
    for _ in 0..1_000_000 {
        if let Poll::Ready(v) = poll_once(f.as_mut()) {
            return v;
        }
    }
    panic!("block_on: future did not complete");
}

/// FNV-1a 64 as hex, used to compare large payloads inside TLC cheaply.
pub fn fnv(data: &[u8]) -> String {
    let mut h: u64 = 0xcbf29ce484222325;
    for b in data {
        h ^= *b as u64;
        h = h.wrapping_mul(0x100000001b3);
    }
    format!("{:016x}", h)
}

/// Canonical short form of a (possibly long) string: itself if short, else `len:hash`.
pub fn canon(s: &str) -> String {
    if s.len() <= 96 {
        s.to_string()
    } else {
        format!("#{}:{}", s.len(), fnv(s.as_bytes()))
    }
}

thread_local! {
    static LOG: RefCell<Option<std::io::BufWriter<std::fs::File>>> = const { RefCell::new(None) };
    static LOG_LINES: RefCell<u64> = const { RefCell::new(0) };
    static CAPTURE: RefCell<Option<Vec<String>>> = const { RefCell::new(None) };
}

pub fn log_open(path: &str) {
    let f = std::fs::File::create(path).unwrap_or_else(|e| panic!("cannot create {path}: {e}"));
    LOG.with(|l| *l.borrow_mut() = Some(std::io::BufWriter::new(f)));
}

pub fn log_close() -> u64 {
    LOG.with(|l| {
        if let Some(mut w) = l.borrow_mut().take() {
            w.flush().unwrap();
        }
    });
    LOG_LINES.with(|n| *n.borrow())
}

/// Capture the events of this thread in memory (worker threads have no log file).
pub fn capture_start() {
    CAPTURE.with(|c| *c.borrow_mut() = Some(Vec::new()));
}
pub fn capture_take() -> Vec<String> {
    CAPTURE.with(|c| c.borrow_mut().take().unwrap_or_default())
}
/// Write an already serialized event.
pub fn emit_raw(s: &str) {
    LOG.with(|l| {
        if let Some(w) = l.borrow_mut().as_mut() {
            w.write_all(s.as_bytes()).unwrap();
            w.write_all(b"\n").unwrap();
        }
    });
    LOG_LINES.with(|n| *n.borrow_mut() += 1);
}

pub fn log_lines() -> u64 {
    LOG_LINES.with(|n| *n.borrow())
}

/// Progress counter and the events of the scenario in progress, for the watchdog.
pub static PROGRESS: std::sync::atomic::AtomicU64 = std::sync::atomic::AtomicU64::new(0);
pub static CURRENT: std::sync::Mutex<Vec<String>> = std::sync::Mutex::new(Vec::new());

/// Code under test that spins inside a single poll (or dead-locks) would stop the harness without a
/// trace.  The watchdog writes the events of the scenario in progress plus a `hung` event to
/// `<out>.hung` and ends the process with status 3; the driver lets TLC reject that scenario.
pub fn start_watchdog(out: String, secs: u64) {
    std::thread::spawn(move || {
        let mut last = PROGRESS.load(std::sync::atomic::Ordering::SeqCst);
        let mut quiet = 0u64;
        loop {
            std::thread::sleep(std::time::Duration::from_secs(1));
            let now = PROGRESS.load(std::sync::atomic::Ordering::SeqCst);
            if now != last {
                last = now;
                quiet = 0;
                continue;
            }
            quiet += 1;
            if quiet >= secs {
                let mut lines = CURRENT.lock().map(|c| c.clone()).unwrap_or_default();
                lines.push("{\"ev\":\"hung\"}".to_string());
                let _ = std::fs::write(format!("{out}.hung"), lines.join("\n") + "\n");
                std::process::exit(3);
            }
        }
    });
}

/// Emit one NDJSON event.
pub fn ev(v: serde_json::Value) {
    let s = serde_json::to_string(&v).unwrap();
    PROGRESS.fetch_add(1, std::sync::atomic::Ordering::SeqCst);
    if let Ok(mut cur) = CURRENT.lock() {
        if s.contains("\"ev\":\"reset\"") {
            cur.clear();
            // everything before this scenario is complete: put it on disk
            LOG.with(|l| {
                if let Some(w) = l.borrow_mut().as_mut() {
                    let _ = w.flush();
                }
            });
        }
        cur.push(s.clone());
    }
    CAPTURE.with(|c| {
        if let Some(c) = c.borrow_mut().as_mut() {
            c.push(s.clone());
        }
    });
    LOG.with(|l| {
        if let Some(w) = l.borrow_mut().as_mut() {
            w.write_all(s.as_bytes()).unwrap();
            w.write_all(b"\n").unwrap();
        }
    });
    LOG_LINES.with(|n| *n.borrow_mut() += 1);
}

/// Classify a zlink error into the classes the specifications talk about.
pub fn err_class(e: &zlink_core::Error) -> &'static str {
    use zlink_core::Error as E;
    match e {
        E::Json(_) => "decode_err",
        E::UnexpectedEof => "eof",
        E::Io(io) if io.kind() == std::io::ErrorKind::UnexpectedEof => "eof",
        E::Io(_) => "io_err",
        E::SocketRead => "io_err",
        E::SocketWrite => "io_err",
        E::BufferOverflow => "overflow",
        E::InvalidUtf8(_) => "decode_err",
        E::VarlinkService(_) => "service_err",
        E::MissingParameters => "decode_err",
        _ => "other",
    }
}

pub fn arg_val(args: &[String], name: &str) -> Option<String> {
    args.iter()
        .position(|a| a == name)
        .and_then(|i| args.get(i + 1).cloned())
}

pub fn arg_flag(args: &[String], name: &str) -> bool {
    args.iter().any(|a| a == name)
}

/// Write a JSON summary for the python driver.
pub fn write_json(path: &str, v: &serde_json::Value) {
    std::fs::write(path, serde_json::to_vec_pretty(v).unwrap()).unwrap();
}
