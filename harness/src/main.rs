//! `zv` — conformance harness binding the TLA+ specifications in /verif/specs to zlink.
//!
//! Every subcommand executes scenarios against the real code, writes an NDJSON event trace
//! (validated afterwards by TLC against the corresponding trace specification) and a JSON
//! summary. No verdict is taken here.

mod chain;
mod classify;
mod envelope;
mod framing;
mod idl;
mod jsonser;
mod notified;
mod server;
mod session;
mod transport;
mod targets;
mod util;
mod wire;
mod writing;

use serde_json::{json, Value};
use util::{arg_flag, arg_val, Rng};

/// The harness re-reads the bytes behind references the code under test handed out (C11: items of a reply
/// stream that the consumer still holds).  If the buffer they point into was freed or moved meanwhile the
/// old bytes would usually still be there and the defect would go unnoticed; this allocator makes it
/// visible: freed memory is overwritten first and a reallocation always moves.
struct Poison;
/// Ring of the latest (address, size) pairs of freed blocks of at least 64 bytes (no allocation in here).
pub const FREED_SLOTS: usize = 1024;
#[allow(clippy::declare_interior_mutable_const)]
const AZ: std::sync::atomic::AtomicUsize = std::sync::atomic::AtomicUsize::new(0);
pub static FREED: [std::sync::atomic::AtomicUsize; 2 * FREED_SLOTS] = [AZ; 2 * FREED_SLOTS];
pub static FREED_N: std::sync::atomic::AtomicUsize = std::sync::atomic::AtomicUsize::new(0);
fn note_freed(p: *mut u8, size: usize) {
    use std::sync::atomic::Ordering::Relaxed;
    if size >= 64 {
        let i = FREED_N.fetch_add(1, Relaxed) % FREED_SLOTS;
        FREED[2 * i].store(p as usize, Relaxed);
        FREED[2 * i + 1].store(size, Relaxed);
    }
}
/// Was a block containing `addr` freed since the mark `since` (a value of FREED_N)?  `None` if the ring has
/// wrapped meanwhile.
pub fn freed_since(since: usize, addr: usize) -> Option<bool> {
    use std::sync::atomic::Ordering::Relaxed;
    let now = FREED_N.load(Relaxed);
    if now - since > FREED_SLOTS {
        return None;
    }
    Some((since..now).any(|j| {
        let i = j % FREED_SLOTS;
        let (p, l) = (FREED[2 * i].load(Relaxed), FREED[2 * i + 1].load(Relaxed));
        addr >= p && addr < p + l
    }))
}
unsafe impl std::alloc::GlobalAlloc for Poison {
    unsafe fn alloc(&self, l: std::alloc::Layout) -> *mut u8 {
        std::alloc::System.alloc(l)
    }
    unsafe fn dealloc(&self, p: *mut u8, l: std::alloc::Layout) {
        std::ptr::write_bytes(p, 0xDD, l.size());
        note_freed(p, l.size());
        std::alloc::System.dealloc(p, l)
    }
    unsafe fn realloc(&self, p: *mut u8, l: std::alloc::Layout, new_size: usize) -> *mut u8 {
        let nl = std::alloc::Layout::from_size_align_unchecked(new_size, l.align());
        let q = std::alloc::System.alloc(nl);
        if !q.is_null() {
            std::ptr::copy_nonoverlapping(p, q, l.size().min(new_size));
            std::ptr::write_bytes(p, 0xDD, l.size());
            note_freed(p, l.size());
            std::alloc::System.dealloc(p, l);
        }
        q
    }
}
#[global_allocator]
static ALLOC: Poison = Poison;

/// Buffer growth step / limit this binary was built with (see the hook in connection/mod.rs).
pub fn buffer_step() -> usize {
    option_env!("ZLINK_VERIF_BUFFER_SIZE")
        .map(|s| s.parse().unwrap())
        .unwrap_or(256)
}
pub fn buffer_max() -> usize {
    option_env!("ZLINK_VERIF_MAX_BUFFER_SIZE")
        .map(|s| s.parse().unwrap())
        .unwrap_or(100 * 1024 * 1024)
}

fn read_lines(path: &str) -> Vec<Value> {
    std::fs::read_to_string(path)
        .unwrap_or_else(|e| panic!("cannot read {path}: {e}"))
        .lines()
        .filter(|l| !l.trim().is_empty())
        .map(|l| serde_json::from_str(l).unwrap_or_else(|e| panic!("bad json line in {path}: {e}")))
        .collect()
}

fn main() {
    let args: Vec<String> = std::env::args().collect();
    let cmd = args.get(1).map(|s| s.as_str()).unwrap_or("");
    let seed: u64 = arg_val(&args, "--seed").and_then(|s| s.parse().ok()).unwrap_or(1);
    let n: u64 = arg_val(&args, "--n").and_then(|s| s.parse().ok()).unwrap_or(1000);
    let out = arg_val(&args, "--out").unwrap_or_else(|| "trace.ndjson".into());
    let summary = arg_val(&args, "--summary").unwrap_or_else(|| format!("{out}.summary.json"));
    // Panics inside the code under test are data, not crashes of the harness: keep them quiet.
    std::panic::set_hook(Box::new(|info| {
        static SHOWN: std::sync::atomic::AtomicUsize = std::sync::atomic::AtomicUsize::new(0);
        if SHOWN.fetch_add(1, std::sync::atomic::Ordering::Relaxed) < 5 {
            eprintln!("[zv] panic: {info}");
        }
    }));
    if !["info", "idl", "idl-rerender", "transport"].contains(&cmd) {
        util::start_watchdog(out.clone(), 30);
    }
    match cmd {
        "info" => {
            println!("{}", json!({"B": buffer_step(), "MAXB": buffer_max()}));
        }
        "framing" => cmd_framing(&args, seed, n, &out, &summary),
        "writing" => cmd_writing(&args, seed, n, &out, &summary),
        "chain" => cmd_chain(&args, seed, n, &out, &summary),
        "server" => cmd_server(&args, seed, n, &out, &summary),
        "classify" => cmd_classify(&args, seed, n, &out, &summary),
        "jsonser" => {
            let mut r = Rng::new(seed ^ 0x150a);
            util::log_open(&out);
            let mut stats = jsonser::Stats { trees: 0, sizes_tried: 0, scalars: 0, atoms: 0 };
            let mut dumpw = arg_val(&args, "--dump-scenarios").map(|p| std::io::BufWriter::new(std::fs::File::create(p).unwrap()));
            let mut trees: Vec<Value> = Vec::new();
            if let Some(p) = arg_val(&args, "--replay") {
                trees.extend(read_lines(&p).into_iter().map(|v| v.get("v").cloned().unwrap_or(v)));
            }
            if let Some(p) = arg_val(&args, "--trees") {
                trees.extend(read_lines(&p));
            }
            for _ in 0..n {
                let d = r.range(1, 4);
                trees.push(jsonser::random_tree(&mut r, d));
            }
            ev_reset("jsonser");
            for t in &trees {
                if let Some(w) = dumpw.as_mut() {
                    use std::io::Write;
                    writeln!(w, "{}", json!({"family":"jsonser","v":t})).unwrap();
                    std::io::Write::flush(w).unwrap();
                }
                jsonser::tree_case(t, &mut stats);
            }
            if arg_flag(&args, "--sweep") {
                jsonser::scalar_sweep(&mut stats);
            }
            if arg_flag(&args, "--numbers") {
                jsonser::number_sweep(&mut r, arg_flag(&args, "--all-f32"), &mut stats);
            }
            util::ev(json!({"ev":"end"}));
            let lines = util::log_close();
            util::write_json(&summary, &json!({"trees": stats.trees, "sizes_tried": stats.sizes_tried, "scalars": stats.scalars,
                                               "atoms": stats.atoms, "events": lines}));
        }
        "transport" => {
            use transport::*;
            let mut r = Rng::new(seed ^ 0x7a45);
            let mut scenarios: Vec<Scenario> = Vec::new();
            if let Some(p) = arg_val(&args, "--replay") {
                for v in read_lines(&p) {
                    scenarios.push(Scenario::from_json(&v));
                }
            } else {
                let mode = arg_val(&args, "--mode").unwrap_or_else(|| "plain".into());
                for i in 0..n {
                    let mut rr = r.fork();
                    let rt = if i % 2 == 0 { "tokio" } else { "smol" };
                    let sid = format!("x{seed}-{i}");
                    scenarios.push(match mode.as_str() {
                        "plain" => gen_plain(&mut rr, sid, rt, false),
                        "big" => gen_plain(&mut rr, sid, rt, true),
                        "cancel" => gen_cancel(&mut rr, sid, rt),
                        "hangup" => gen_hangup(&mut rr, sid, rt),
                        "mux" => gen_mux(&mut rr, sid, rt),
                        o => panic!("unknown mode {o}"),
                    });
                }
            }
            util::log_open(&out);
            let mut stats = Stats { scenarios: 0, messages: 0, cancelled: 0 };
            let dump = arg_val(&args, "--dump-scenarios");
            let mut dumpw = dump.map(|p| std::io::BufWriter::new(std::fs::File::create(p).unwrap()));
            for (k, sc) in scenarios.iter().enumerate() {
                if let Some(w) = dumpw.as_mut() {
                    use std::io::Write;
                    writeln!(w, "{}", sc.to_json()).unwrap();
                    std::io::Write::flush(w).unwrap();
                }
                run(sc, &mut stats);
                if k % 4 == 0 {
                    // (inside the scenario's trace, between its `end` and the next `reset`)
                    id_burst(8, 20_000);
                }
            }
            let lines = util::log_close();
            util::write_json(&summary, &json!({"scenarios": stats.scenarios, "messages": stats.messages, "cancelled": stats.cancelled, "events": lines}));
        }
        "notified" => {
            use notified::*;
            let mut r = Rng::new(seed ^ 0x2071);
            let mut scenarios: Vec<Scenario> = Vec::new();
            if let Some(p) = arg_val(&args, "--replay") {
                for v in read_lines(&p) {
                    scenarios.push(Scenario::from_json(&v));
                }
            } else {
                if let Some(p) = arg_val(&args, "--behaviours") {
                    for (i, v) in read_lines(&p).iter().enumerate() {
                        scenarios.push(from_model_behaviour(v, format!("m{i}")));
                    }
                }
                for i in 0..n {
                    let mut rr = r.fork();
                    scenarios.push(gen_random(&mut rr, format!("n{seed}-{i}")));
                }
            }
            util::log_open(&out);
            let mut stats = Stats { scenarios: 0, ops: 0, items: 0 };
            let dump = arg_val(&args, "--dump-scenarios");
            let mut dumpw = dump.map(|p| std::io::BufWriter::new(std::fs::File::create(p).unwrap()));
            for sc in &scenarios {
                if let Some(w) = dumpw.as_mut() {
                    use std::io::Write;
                    writeln!(w, "{}", sc.to_json()).unwrap();
                    std::io::Write::flush(w).unwrap();
                }
                run(sc, &mut stats);
            }
            let lines = util::log_close();
            util::write_json(&summary, &json!({"scenarios": stats.scenarios, "ops": stats.ops, "items": stats.items, "events": lines}));
        }
        "envelope" => {
            let mut r = Rng::new(seed ^ 0xe17e);
            if let Some(p) = arg_val(&args, "--dump-scenarios") {
                std::fs::write(p, "{\"family\":\"envelope\"}\n").unwrap();
            }
            util::log_open(&out);
            let mut stats = envelope::Stats { cases: 0 };
            for _ in 0..n.max(1) {
                envelope::run_all(&mut r, &mut stats);
            }
            let lines = util::log_close();
            util::write_json(&summary, &json!({"cases": stats.cases, "events": lines}));
        }
        "session" => {
            let mut r = Rng::new(seed ^ 0x5e55);
            let mut scenarios: Vec<session::Scenario> = Vec::new();
            if let Some(p) = arg_val(&args, "--replay") {
                for v in read_lines(&p) {
                    scenarios.push(serde_json::from_value(v).expect("scenario"));
                }
            } else {
                for i in 0..n {
                    let mut rr = r.fork();
                    scenarios.push(session::gen(&mut rr, format!("e{seed}-{i}")));
                }
            }
            util::log_open(&out);
            let mut stats = session::Stats { scenarios: 0, calls: 0, stuck: 0 };
            let mut dumpw = arg_val(&args, "--dump-scenarios").map(|p| std::io::BufWriter::new(std::fs::File::create(p).unwrap()));
            for sc in &scenarios {
                if let Some(w) = dumpw.as_mut() {
                    use std::io::Write;
                    writeln!(w, "{}", serde_json::to_string(sc).unwrap()).unwrap();
                    std::io::Write::flush(w).unwrap();
                }
                session::run(sc, &mut stats);
            }
            let lines = util::log_close();
            util::write_json(&summary, &json!({"scenarios": stats.scenarios, "calls": stats.calls, "stuck": stats.stuck, "events": lines}));
        }
        "idl-rerender" => {
            // diagnostic: parse a text with zlink and print its rendering
            let text = std::fs::read_to_string(arg_val(&args, "--file").expect("--file")).unwrap();
            match zlink_core::idl::Interface::try_from(text.as_str()) {
                Ok(i) => print!("{i}"),
                Err(e) => println!("REJECTED: {e}"),
            }
        }
        "idl" => {
            let mut r = Rng::new(seed ^ 0x1d1);
            let mode = arg_val(&args, "--mode").unwrap_or_else(|| "parse".into());
            let asts: Vec<idl::Iface> = arg_val(&args, "--asts")
                .map(|p| read_lines(&p).into_iter().map(|v| serde_json::from_value(v).expect("ast")).collect())
                .unwrap_or_default();
            let num = |name: &str, d: u64| arg_val(&args, name).and_then(|s| s.parse().ok()).unwrap_or(d);
            if let Some(p) = arg_val(&args, "--dump-scenarios") {
                std::fs::write(p, "{\"family\":\"idl\"}\n").unwrap();
            }
            util::log_open(&out);
            idl::start_watchdog(out.clone());
            let mut stats = idl::Stats::new();
            ev_reset("idl");
            // A process that parses descriptions has usually seen texts it had to reject before: a few dozen of them
            // come first here (unlogged; a parser keeps no state between texts, so they change nothing).
            for k in 0..48 {
                let bad = [
                    "interface a.b\nmethod M(x: []uint8) -> ()\n",
                    "interface a.b\ntype T (m: [string][]double, n: ?any)\n",
                    "interface a.b\nmethod M(x: [][][][]?[][]nope_) -> (y: (a: (b: (c: []int64))))\n",
                    "interface a.b\nerror E (f: ?[string](x: ???))\n",
                ][k % 4];
                let _ = std::panic::catch_unwind(|| zlink_core::idl::Interface::try_from(bad).is_ok());
            }
            if let Some(p) = arg_val(&args, "--replay") {
                for v in read_lines(&p) {
                    idl::replay(v.get("case").unwrap_or(&v), &mut stats);
                }
            } else if mode == "render" {
                idl::run_render(&mut r, &asts, n, &mut stats);
            } else {
                idl::run_parse(&mut r, &asts, n, num("--trunc", 0), num("--soup", 0), num("--exhaustive-every", 0), &mut stats);
            }
            util::ev(json!({"ev":"end","id":"","text":""}));
            let lines = util::log_close();
            util::write_json(&summary, &json!({"cases": stats.cases, "accepted": stats.accepted, "by_class": stats.by_class,
                                               "distinct": stats.distinct.len(), "events": lines}));
        }
        other => {
            eprintln!("unknown subcommand {other:?}");
            std::process::exit(2);
        }
    }
}

fn ev_reset(sid: &str) {
    util::ev(json!({"ev":"reset","sid":sid}));
}

fn cmd_framing(args: &[String], seed: u64, n: u64, out: &str, summary: &str) {
    use framing::*;
    let mut r = Rng::new(seed);
    let mut scenarios: Vec<Scenario> = Vec::new();
    if let Some(p) = arg_val(args, "--replay") {
        for v in read_lines(&p) {
            scenarios.push(Scenario::from_json(&v));
        }
    } else {
        let cancels = arg_flag(args, "--cancels");
        if let Some(p) = arg_val(args, "--behaviours") {
            let targets = ["tiny_call", "tiny_reply"];
            for (i, v) in read_lines(&p).iter().enumerate() {
                let t = targets[i % targets.len()];
                scenarios.push(from_model_behaviour(v, format!("m{i}"), t));
            }
        }
        let ncuts: u64 = arg_val(args, "--cuts").and_then(|s| s.parse().ok()).unwrap_or(0);
        for i in 0..ncuts {
            gen_all_cuts(&mut r, &format!("x{i}"), &mut scenarios, i % 2 == 0);
        }
        for i in 0..n {
            let mut rr = r.fork();
            scenarios.push(gen_scenario(&mut rr, format!("r{seed}-{i}"), cancels, i % 4 == 3));
        }
        let ntiny: u64 = arg_val(args, "--tiny").and_then(|s| s.parse().ok()).unwrap_or(0);
        for i in 0..ntiny {
            let mut rr = r.fork();
            scenarios.push(gen_tiny(&mut rr, format!("t{seed}-{i}"), cancels));
        }
        if arg_flag(args, "--prod-limit") {
            gen_prod_limit(&mut scenarios);
        }
        if arg_flag(args, "--sizes") {
            gen_size_sweep(&mut r, &mut scenarios, arg_flag(args, "--dense"));
        }
    }
    util::log_open(out);
    let mut stats = Stats {
        scenarios: 0,
        frames: 0,
        cancels: 0,
        nontrivial: Default::default(),
        drift: vec![],
    };
    let dump = arg_val(args, "--dump-scenarios");
    let mut dumpw = dump.map(|p| std::io::BufWriter::new(std::fs::File::create(p).unwrap()));
    for sc in &scenarios {
        if let Some(w) = dumpw.as_mut() {
            use std::io::Write;
            writeln!(w, "{}", sc.to_json()).unwrap();
                    std::io::Write::flush(w).unwrap();
        }
        run_named(sc, &mut stats);
    }
    let lines = util::log_close();
    util::write_json(
        summary,
        &json!({"scenarios": stats.scenarios, "frames": stats.frames, "cancels": stats.cancels,
                "events": lines, "B": buffer_step(), "MAXB": buffer_max(),
                "samples": scenarios.iter().take(3).map(|s| s.to_json()).collect::<Vec<_>>() }),
    );
}

fn cmd_writing(args: &[String], seed: u64, n: u64, out: &str, summary: &str) {
    use writing::*;
    let mut r = Rng::new(seed ^ 0x5eed);
    let mut scenarios: Vec<Scenario> = Vec::new();
    if let Some(p) = arg_val(args, "--replay") {
        for v in read_lines(&p) {
            scenarios.push(Scenario::from_json(&v));
        }
    } else {
        if let Some(p) = arg_val(args, "--behaviours") {
            for (i, v) in read_lines(&p).iter().enumerate() {
                scenarios.push(from_model_behaviour(v, format!("m{i}")));
            }
        }
        if let Some(f) = arg_val(args, "--free").and_then(|s| s.parse::<usize>().ok()) {
            let stride = arg_val(args, "--stride").and_then(|s| s.parse().ok()).unwrap_or(1);
            gen_free_sweep(&mut scenarios, f, stride);
        }
        if arg_flag(args, "--limit") {
            gen_limit_sweep(&mut scenarios);
        }
        for i in 0..n {
            let mut rr = r.fork();
            scenarios.push(gen_history(&mut rr, format!("w{seed}-{i}")));
        }
    }
    util::log_open(out);
    let mut stats = Stats { scenarios: 0, ops: 0, refused: 0, overflow: 0, writes: 0 };
    let dump = arg_val(args, "--dump-scenarios");
    let mut dumpw = dump.map(|p| std::io::BufWriter::new(std::fs::File::create(p).unwrap()));
    for sc in &scenarios {
        if let Some(w) = dumpw.as_mut() {
            use std::io::Write;
            writeln!(w, "{}", sc.to_json()).unwrap();
                    std::io::Write::flush(w).unwrap();
        }
        run(sc, &mut stats);
    }
    let lines = util::log_close();
    util::write_json(
        summary,
        &json!({"scenarios": stats.scenarios, "ops": stats.ops, "refused": stats.refused, "overflow": stats.overflow,
                "writes": stats.writes, "events": lines, "B": buffer_step(), "MAXB": buffer_max()}),
    );
}

fn cmd_chain(args: &[String], seed: u64, n: u64, out: &str, summary: &str) {
    use chain::*;
    let mut r = Rng::new(seed ^ 0xc4a1);
    let mut scenarios: Vec<Scenario> = Vec::new();
    let hold = arg_flag(args, "--hold");
    if let Some(p) = arg_val(args, "--replay") {
        for v in read_lines(&p) {
            scenarios.push(Scenario::from_json(&v));
        }
    } else {
        if let Some(p) = arg_val(args, "--behaviours") {
            for (i, v) in read_lines(&p).iter().enumerate() {
                scenarios.push(from_model_behaviour(v, format!("m{i}"), hold));
            }
        }
        if let Some(k) = arg_val(args, "--all-flags").and_then(|s| s.parse::<usize>().ok()) {
            gen_all_flags(&mut r, k, &mut scenarios, hold);
        }
        if hold {
            gen_hold_edges(&mut r, &mut scenarios);
        } else if arg_val(args, "--all-flags").is_some() {
            gen_drop_edges(&mut r, &mut scenarios);
        }
        for i in 0..n {
            let mut rr = r.fork();
            scenarios.push(gen_random(&mut rr, format!("c{seed}-{i}"), hold));
        }
    }
    util::log_open(out);
    let mut stats = Stats { scenarios: 0, items: 0, held_checks: 0, held_changed: 0 };
    let dump = arg_val(args, "--dump-scenarios");
    let mut dumpw = dump.map(|p| std::io::BufWriter::new(std::fs::File::create(p).unwrap()));
    for sc in &scenarios {
        if let Some(w) = dumpw.as_mut() {
            use std::io::Write;
            writeln!(w, "{}", sc.to_json()).unwrap();
                    std::io::Write::flush(w).unwrap();
        }
        run(sc, &mut stats);
    }
    let lines = util::log_close();
    util::write_json(
        summary,
        &json!({"scenarios": stats.scenarios, "items": stats.items, "held_checks": stats.held_checks,
                "held_changed": stats.held_changed, "events": lines, "B": buffer_step(), "MAXB": buffer_max()}),
    );
}

fn cmd_server(args: &[String], seed: u64, n: u64, out: &str, summary: &str) {
    use server::*;
    let mut r = Rng::new(seed ^ 0x5e12);
    let mut scenarios: Vec<Scenario> = Vec::new();
    if let Some(p) = arg_val(args, "--replay") {
        for v in read_lines(&p) {
            scenarios.push(Scenario::from_json(&v));
        }
    } else {
        if let Some(p) = arg_val(args, "--behaviours") {
            for (i, v) in read_lines(&p).iter().enumerate() {
                scenarios.push(from_model_behaviour(v, format!("m{i}")));
            }
        }
        let mode = arg_val(args, "--mode").unwrap_or_else(|| "healthy".into());
        for i in 0..n {
            let mut rr = r.fork();
            let sid = format!("s{seed}-{i}");
            scenarios.push(match mode.as_str() {
                "healthy" => gen_healthy(&mut rr, sid, false),
                "streams" => gen_healthy(&mut rr, sid, true),
                "faulty" => gen_faulty(&mut rr, sid),
                "wfault" => gen_wfault(&mut rr, sid),
                "badcall" => gen_badcall(&mut rr, sid),
                "hotstream" => gen_hot_stream(&mut rr, sid),
                "manystreams" => gen_many_streams(&mut rr, sid),
                "fair" => gen_fair(&mut rr, sid, false),
                "fairtrans" => gen_fair(&mut rr, sid, true),
                "fairmixed" => gen_fair_mixed(&mut rr, sid),
                "fairwide" => gen_fair_wide(&mut rr, sid),
                o => panic!("unknown mode {o}"),
            });
        }
    }
    util::log_open(out);
    let mut stats = Stats { scenarios: 0, handled: 0, writes: 0, exits: 0 };
    let dump = arg_val(args, "--dump-scenarios");
    let mut dumpw = dump.map(|p| std::io::BufWriter::new(std::fs::File::create(p).unwrap()));
    for sc in &scenarios {
        if let Some(w) = dumpw.as_mut() {
            use std::io::Write;
            writeln!(w, "{}", sc.to_json()).unwrap();
                    std::io::Write::flush(w).unwrap();
        }
        run(sc, &mut stats);
    }
    let lines = util::log_close();
    util::write_json(
        summary,
        &json!({"scenarios": stats.scenarios, "writes": stats.writes, "exits": stats.exits, "events": lines,
                "B": buffer_step(), "MAXB": buffer_max()}),
    );
}

fn cmd_classify(args: &[String], seed: u64, n: u64, out: &str, summary: &str) {
    let mut r = Rng::new(seed ^ 0xc1a5);
    let frames: Vec<String> = if let Some(p) = arg_val(args, "--replay") {
        read_lines(&p).iter().map(|v| v["frame"].as_str().unwrap().to_string()).collect()
    } else {
        classify::corpus(&mut r, n as usize)
    };
    if let Some(p) = arg_val(args, "--dump-scenarios") {
        use std::io::Write;
        let mut w = std::io::BufWriter::new(std::fs::File::create(p).unwrap());
        for f in &frames {
            writeln!(w, "{}", json!({"family":"classify","frame":f})).unwrap();
        }
    }
    util::log_open(out);
    let mut stats = classify::Stats { cases: 0, by_outcome: Default::default(), has_error_cases: 0 };
    classify::run_all(&frames, &mut stats);
    let lines = util::log_close();
    util::write_json(summary, &json!({"frames": frames.len(), "cases": stats.cases, "by_outcome": stats.by_outcome,
        "has_error_cases": stats.has_error_cases, "events": lines}));
}
