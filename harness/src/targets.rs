//! Message types used as receive targets, and the *trusted projection* that gives each frame
//! its expected result by decoding that frame alone (DESIGN §2.5).

use crate::wire::Sock;
use serde::{Deserialize, Serialize};
use std::future::Future;
use zlink_core::{varlink_service, Call, Connection, Reply, ReplyError};

#[derive(Debug, Clone, PartialEq)]
pub struct Outcome {
    pub cls: &'static str,
    pub canon: String,
}

impl Outcome {
    pub fn new(cls: &'static str, canon: String) -> Self {
        Outcome {
            cls,
            canon: crate::util::canon(&canon),
        }
    }
    pub fn err(e: &zlink_core::Error) -> Self {
        let cls = crate::util::err_class(e);
        if cls == "service_err" {
            if let zlink_core::Error::VarlinkService(s) = e {
                return Outcome::new(cls, format!("{s:?}"));
            }
        }
        Outcome::new(cls, String::new())
    }
}

/// The expected result of a frame as the `reset` events carry it.  A frame whose bytes are not
/// valid UTF-8 is not a JSON document, so its result is a decoding error; serde_json (the decoder
/// zlink uses) does not look inside content the requested shape ignores, so what decoding that
/// frame alone with the same decoder gives is tolerated as the alternative (`acls`/`acanon`).
/// For every valid UTF-8 frame both are the isolated decode.
///
/// A frame that holds nothing but JSON whitespace is no JSON document either, so it must give one
/// error result of its own.  The statement calls that a decode error; zlink reports such a frame
/// with the error variant it also uses for end-of-stream.  Which variant names the failure is not
/// what C01 is about, so the `eof` class is tolerated for exactly these frames (and only as the
/// result of the blank frame itself: it still has to consume that frame and nothing else).
pub fn expected_fields(o: &Outcome, frame: &[u8]) -> serde_json::Value {
    if !frame.is_empty() && frame.iter().all(|b| matches!(b, b' ' | b'\t' | b'\n' | b'\r')) {
        return serde_json::json!({"cls": "decode_err", "canon": "", "acls": "eof", "acanon": ""});
    }
    if std::str::from_utf8(frame).is_ok() {
        serde_json::json!({"cls": o.cls, "canon": o.canon, "acls": o.cls, "acanon": o.canon})
    } else {
        serde_json::json!({"cls": "decode_err", "canon": "", "acls": o.cls, "acanon": o.canon})
    }
}

// ---------------------------------------------------------------- call targets

#[derive(Debug, Serialize, Deserialize, PartialEq)]
#[serde(tag = "method", content = "parameters")]
pub enum MEnum<'a> {
    #[serde(rename = "t.Echo")]
    Echo { i: u32, pad: String },
    #[serde(rename = "t.Ping")]
    Ping,
    #[serde(rename = "t.Borrow")]
    Borrow {
        #[serde(borrow)]
        s: &'a str,
        n: Option<i64>,
    },
}

#[derive(Debug, Serialize, Deserialize, PartialEq, Clone)]
pub struct MStructParams {
    pub i: u32,
    pub pad: String,
}
#[derive(Debug, Serialize, Deserialize, PartialEq, Clone)]
#[serde(deny_unknown_fields)]
pub struct MStruct {
    pub method: String,
    pub parameters: MStructParams,
}

// ---------------------------------------------------------------- reply targets

#[derive(Debug, Serialize, Deserialize, PartialEq)]
pub struct RStrict {
    pub i: u32,
    pub pad: String,
}
#[derive(Debug, Serialize, Deserialize, PartialEq, Default)]
pub struct ROpt {
    pub i: Option<u32>,
    pub pad: Option<String>,
}
#[derive(Debug, Serialize, Deserialize, PartialEq)]
pub struct RBorrow<'a> {
    #[serde(borrow)]
    pub s: &'a str,
    pub i: Option<u32>,
}

#[derive(Debug, PartialEq, ReplyError)]
#[zlink(interface = "t.err", crate = "zlink_core")]
pub enum UErr {
    NotFound,
    Busy,
    Bad { code: i32, msg: String },
    Renamed {
        #[zlink(rename = "wireName")]
        field: u32,
        opt: Option<String>,
    },
}

#[derive(Debug, PartialEq, ReplyError)]
#[zlink(interface = "t.err", crate = "zlink_core")]
pub enum UErrB<'a> {
    NotFound,
    Bad { code: i32, msg: &'a str },
}

#[derive(Debug, PartialEq, ReplyError)]
#[zlink(interface = "t.none", crate = "zlink_core")]
pub enum Never {}

/// An error type with a single field-less error: as small as an error type with a member can be.
#[derive(Debug, PartialEq, ReplyError)]
#[zlink(interface = "t.err", crate = "zlink_core")]
pub enum OneErr {
    NotFound,
}

pub trait Target {
    const NAME: &'static str;
    fn recv(conn: &mut Connection<Sock>) -> impl Future<Output = Outcome> + '_;
    /// Expected result of a frame, from decoding that frame alone.
    fn isolated(frame: &[u8]) -> Outcome;
}

macro_rules! call_target {
    ($t:ident, $name:literal, $m:ty) => {
        pub struct $t;
        impl Target for $t {
            const NAME: &'static str = $name;
            async fn recv(conn: &mut Connection<Sock>) -> Outcome {
                match conn.receive_call::<$m>().await {
                    Ok(c) => Outcome::new("msg", format!("{c:?}")),
                    Err(e) => Outcome::err(&e),
                }
            }
            fn isolated(frame: &[u8]) -> Outcome {
                match serde_json::from_slice::<Call<$m>>(frame) {
                    Ok(c) => Outcome::new("msg", format!("{c:?}")),
                    Err(_) => Outcome::new("decode_err", String::new()),
                }
            }
        }
    };
}

/// The four observable booleans of C04's decision table, from isolated decodes.
#[derive(Debug, Clone, Copy)]
pub struct Obs {
    pub json: bool,
    pub has_error: bool,
    pub std: bool,
    pub usr: bool,
    pub rep: bool,
}

/// (is a JSON document, is an object with an `error` member) — decided with the same decoder
/// and the same leniency towards ignored content as every other isolated decode.
pub fn has_error_member(frame: &[u8]) -> (bool, bool) {
    let json = serde_json::from_slice::<serde::de::IgnoredAny>(frame).is_ok();
    // presence of the member, whatever its value (`null` included)
    match serde_json::from_slice::<serde_json::Map<String, serde_json::Value>>(frame) {
        Ok(m) => (json, m.contains_key("error")),
        Err(_) => (json, false),
    }
}

macro_rules! reply_target {
    ($t:ident, $name:literal, $p:ty, $e:ty) => {
        pub struct $t;
        impl $t {
            pub fn observe(frame: &[u8]) -> (Obs, Outcome) {
                let (json, has_error) = has_error_member(frame);
                let std = serde_json::from_slice::<varlink_service::Error>(frame);
                let usr = serde_json::from_slice::<$e>(frame);
                let rep = serde_json::from_slice::<Reply<$p>>(frame);
                let obs = Obs {
                    json,
                    has_error,
                    std: std.is_ok(),
                    usr: usr.is_ok(),
                    rep: rep.is_ok(),
                };
                // The table itself lives in specs/ReplyClassify.tla; this only renders the
                // payload of whichever arm the table selects.
                let out = if let Ok(s) = std {
                    Outcome::new("service_err", format!("{s:?}"))
                } else if let Ok(u) = usr {
                    Outcome::new("method_err", format!("{u:?}"))
                } else if has_error {
                    Outcome::new("decode_err", String::new())
                } else if let Ok(r) = rep {
                    Outcome::new("success", format!("{r:?}"))
                } else {
                    Outcome::new("decode_err", String::new())
                };
                (obs, out)
            }
            /// The payload each arm would hand to the caller: (std, usr, rep), independent of any
            /// precedence between the arms.
            pub fn arm_payloads(frame: &[u8]) -> (String, String, String) {
                let c = |s: String| $crate::util::canon(&s);
                (
                    serde_json::from_slice::<varlink_service::Error>(frame).map(|s| c(format!("{s:?}"))).unwrap_or_default(),
                    serde_json::from_slice::<$e>(frame).map(|u| c(format!("{u:?}"))).unwrap_or_default(),
                    serde_json::from_slice::<Reply<$p>>(frame).map(|r| c(format!("{r:?}"))).unwrap_or_default(),
                )
            }
            /// The same frame through `call_method` (send a call, receive the reply).
            pub async fn call_method(conn: &mut Connection<Sock>) -> Outcome {
                let call = zlink_core::Call::new(MEnum::Ping);
                match conn.call_method::<MEnum<'_>, $p, $e>(&call).await {
                    Ok(Ok(r)) => Outcome::new("success", format!("{r:?}")),
                    Ok(Err(e)) => Outcome::new("method_err", format!("{e:?}")),
                    Err(e) => Outcome::err(&e),
                }
            }
        }
        impl Target for $t {
            const NAME: &'static str = $name;
            async fn recv(conn: &mut Connection<Sock>) -> Outcome {
                match conn.receive_reply::<$p, $e>().await {
                    Ok(Ok(r)) => Outcome::new("success", format!("{r:?}")),
                    Ok(Err(e)) => Outcome::new("method_err", format!("{e:?}")),
                    Err(e) => Outcome::err(&e),
                }
            }
            fn isolated(frame: &[u8]) -> Outcome {
                Self::observe(frame).1
            }
        }
    };
}

#[derive(Debug, Serialize, Deserialize, PartialEq)]
pub struct TinyM {
    pub a: Option<u8>,
}

call_target!(TTinyCall, "tiny_call", TinyM);
reply_target!(TTinyReply, "tiny_reply", TinyM, Never);
call_target!(TCallEnum, "call_enum", MEnum<'_>);
call_target!(TCallStruct, "call_struct", MStruct);
call_target!(TCallStd, "call_std", varlink_service::Method<'_>);
reply_target!(TReplyStrict, "reply_strict", RStrict, UErr);
reply_target!(TReplyOpt, "reply_opt", ROpt, UErr);
reply_target!(TReplyValue, "reply_value", serde_json::Value, UErr);
reply_target!(TReplyUnit, "reply_unit", (), UErr);
reply_target!(TReplyBorrow, "reply_borrow", RBorrow<'_>, UErrB<'_>);
reply_target!(TReplyNever, "reply_never", ROpt, Never);
reply_target!(TReplyOne, "reply_one", ROpt, OneErr);
reply_target!(TReplyOneUnit, "reply_one_unit", (), OneErr);

pub const TARGET_NAMES: [&str; 9] = [
    "call_enum",
    "call_struct",
    "call_std",
    "reply_strict",
    "reply_opt",
    "reply_value",
    "reply_unit",
    "reply_borrow",
    "reply_never",
];

/// Dispatch a generic function over the target named `name`.
#[macro_export]
macro_rules! with_target {
    ($name:expr, $f:ident ( $($a:expr),* )) => {
        match $name {
            "tiny_call" => $f::<$crate::targets::TTinyCall>($($a),*),
            "tiny_reply" => $f::<$crate::targets::TTinyReply>($($a),*),
            "call_enum" => $f::<$crate::targets::TCallEnum>($($a),*),
            "call_struct" => $f::<$crate::targets::TCallStruct>($($a),*),
            "call_std" => $f::<$crate::targets::TCallStd>($($a),*),
            "reply_strict" => $f::<$crate::targets::TReplyStrict>($($a),*),
            "reply_opt" => $f::<$crate::targets::TReplyOpt>($($a),*),
            "reply_value" => $f::<$crate::targets::TReplyValue>($($a),*),
            "reply_unit" => $f::<$crate::targets::TReplyUnit>($($a),*),
            "reply_borrow" => $f::<$crate::targets::TReplyBorrow>($($a),*),
            "reply_never" => $f::<$crate::targets::TReplyNever>($($a),*),
            other => panic!("unknown target {other}"),
        }
    };
}
