//! C04: classification of received replies. Every case is one frame x one (parameter type,
//! error type) target x one entry point; the event carries the five isolated observations
//! (DESIGN 2.5) and what the entry point reported. The decision table lives in
//! specs/ReplyClassify.tla.

use crate::{
    targets::*,
    util::{block_on, ev, Rng},
    wire::{new_wire, Sock},
};
use serde_json::json;
use zlink_core::Connection;

pub const REPLY_TARGETS: [&str; 6] = ["reply_strict", "reply_opt", "reply_value", "reply_unit", "reply_borrow", "reply_never"];

/// The systematic frame corpus: error names x parameter spellings x member orders x extra members,
/// plus success frames.
pub fn corpus(r: &mut Rng, random_extra: usize) -> Vec<String> {
    let names = [
        "\"t.err.NotFound\"", "\"t.err.Busy\"", "\"t.err.Bad\"", "\"t.err.Renamed\"", "\"t.err.Unknown\"",
        "\"io.systemd.System\"", "\"org.varlink.service.MethodNotFound\"", "\"org.varlink.service.InterfaceNotFound\"",
        "\"org.varlink.service.MethodNotImplemented\"", "\"org.varlink.service.InvalidParameter\"",
        "\"org.varlink.service.PermissionDenied\"", "\"org.varlink.service.ExpectedMore\"",
        "\"org.varlink.service.Nope\"", "\"\"", "5", "null", "\"t.none.X\"", "\"NotFound\"",
    ];
    let params = [
        None, Some("null"), Some("{}"), Some("{\"code\":1,\"msg\":\"m\"}"), Some("{\"code\":\"x\",\"msg\":1}"),
        Some("{\"code\":1}"), Some("{\"code\":1,\"msg\":\"m\",\"x\":2}"), Some("{\"method\":\"a.B\"}"),
        Some("{\"interface\":\"a.b\"}"), Some("{\"parameter\":\"p\"}"), Some("{\"wireName\":3}"),
        Some("{\"wireName\":3,\"opt\":\"o\"}"), Some("{\"field\":3}"), Some("{\"i\":1,\"pad\":\"p\"}"),
        Some("{\"s\":\"borrowed\",\"i\":2}"), Some("[1,2]"), Some("\"str\""), Some("7"),
    ];
    let extras = ["", "\"continues\":true", "\"foo\":{\"error\":1}", "\"continues\":false"];
    let mut v = Vec::new();
    for n in names {
        for p in params {
            for (xi, x) in extras.iter().enumerate() {
                // not the full product with extras: rotate
                if xi != 0 && (n.len() + p.map(|s| s.len()).unwrap_or(0) + xi) % 3 != 0 {
                    continue;
                }
                let mut members: Vec<String> = vec![format!("\"error\":{n}")];
                if let Some(p) = p {
                    members.push(format!("\"parameters\":{p}"));
                }
                if !x.is_empty() {
                    members.push(x.to_string());
                }
                v.push(format!("{{{}}}", members.join(",")));
                if members.len() > 1 {
                    members.reverse();
                    v.push(format!("{{{}}}", members.join(",")));
                }
            }
        }
    }
    // success frames
    for p in params {
        for x in ["", ",\"continues\":true", ",\"continues\":false", ",\"unknown\":[1]", ",\"continues\":\"yes\""] {
            match p {
                Some(p) => {
                    v.push(format!("{{\"parameters\":{p}{x}}}"));
                    v.push(format!("{{{}\"parameters\":{p}}}", if x.is_empty() { String::new() } else { format!("{},", &x[1..]) }));
                }
                None => v.push(format!("{{{}}}", if x.is_empty() { "" } else { &x[1..] })),
            }
        }
    }
    // not objects / not JSON
    for s in ["[]", "42", "\"error\"", "{\"error\"", "{\"error\":}", "nul", "{\"error\":\"t.err.Bad\",}", "[{\"error\":\"t.err.NotFound\"}]"] {
        v.push(s.to_string());
    }
    // long frames (longer than one and than two growth steps of the receive buffer): an error with a long
    // message, an unknown member of several hundred bytes in front of or behind the others
    for (ni, n) in names.iter().enumerate() {
        for (li, len) in [300usize, 700].iter().enumerate() {
            let long = "m".repeat(*len);
            let p = match (ni + li) % 4 {
                0 => format!("{{\"code\":1,\"msg\":\"{long}\"}}"),
                1 => format!("{{\"method\":\"{long}\"}}"),
                2 => "null".to_string(),
                _ => format!("{{\"s\":\"{long}\",\"i\":2}}"),
            };
            let pad = format!("\"x-pad\":\"{long}\"");
            v.push(format!("{{\"error\":{n},\"parameters\":{p}}}"));
            v.push(format!("{{{pad},\"error\":{n}}}"));
            v.push(format!("{{\"parameters\":{p},\"error\":{n},{pad}}}"));
        }
    }
    for len in [300usize, 700] {
        let long = "m".repeat(len);
        v.push(format!("{{\"parameters\":{{\"i\":1,\"pad\":\"{long}\"}}}}"));
        v.push(format!("{{\"x-pad\":\"{long}\",\"parameters\":{{\"s\":\"b\",\"i\":2}},\"continues\":true}}"));
    }
    // other spellings of the member names: blanks between the name and the colon, escapes inside the name
    // (it is the same member whatever its spelling; a text search for `"error":` does not find these)
    let error_keys = ["\"error\" :", "\"error\"\t:", "\"error\"\n : ", "\"\\u0065rror\":", "\"err\\u006fr\" :", "\"e\\u0072\\u0072or\":"];
    let param_keys = ["\"parameters\":", "\"parameters\" :", "\"p\\u0061rameters\":"];
    for (ki, k) in error_keys.iter().enumerate() {
        for (ni, n) in names.iter().enumerate() {
            for (pi, p) in params.iter().enumerate() {
                if (ki + ni + pi) % 4 != 0 {
                    continue;
                }
                let pk = param_keys[(ki + pi) % param_keys.len()];
                let mut members: Vec<String> = vec![format!("{k}{n}")];
                if let Some(p) = p {
                    members.push(format!("{pk}{p}"));
                }
                if (ni + pi) % 5 == 0 {
                    members.push("\"continues\" : true".into());
                }
                if (ki + pi) % 2 == 0 {
                    members.reverse();
                }
                v.push(format!("{{{}}}", members.join(",")));
            }
        }
    }
    // duplicates of members (serde_json refuses duplicate fields for derived structs)
    v.push("{\"error\":\"t.err.NotFound\",\"error\":\"t.err.Busy\"}".into());
    v.push("{\"parameters\":{\"i\":1,\"pad\":\"p\"},\"error\":\"io.systemd.System\",\"parameters\":{}}".into());
    for _ in 0..random_extra {
        // random recombination with whitespace
        let n = r.pick(&names);
        let p = r.pick(&params);
        let ws = r.pick(&["", " ", "\n", "\t "]);
        let mut members: Vec<String> = Vec::new();
        if r.chance(3, 4) {
            members.push(format!("\"error\":{ws}{n}"));
        }
        if let Some(p) = p {
            members.push(format!("{ws}\"parameters\"{ws}:{p}"));
        }
        if r.chance(1, 3) {
            members.push(format!("\"continues\":{}", r.chance(1, 2)));
        }
        if r.chance(1, 2) {
            members.reverse();
        }
        v.push(format!("{ws}{{{}}}{ws}", members.join(",")));
    }
    v
}

pub struct Stats {
    pub cases: u64,
    pub by_outcome: std::collections::BTreeMap<String, u64>,
    pub has_error_cases: u64,
}

fn one<T: Target>(
    frame: &str,
    observe: fn(&[u8]) -> (Obs, Outcome),
    arms: fn(&[u8]) -> (String, String, String),
    entry: &str,
    actual: Outcome,
    stats: &mut Stats,
) {
    let (obs, _) = observe(frame.as_bytes());
    let (std_c, usr_c, rep_c) = arms(frame.as_bytes());
    let payload_ok = match actual.cls {
        "service_err" => actual.canon == std_c,
        "method_err" => actual.canon == usr_c,
        "success" => actual.canon == rep_c,
        _ => true,
    };
    stats.cases += 1;
    if obs.has_error {
        stats.has_error_cases += 1;
    }
    *stats.by_outcome.entry(actual.cls.to_string()).or_default() += 1;
    ev(json!({"ev":"case","target":T::NAME,"entry":entry,"frame":crate::util::canon(frame),
              "json":obs.json,"hasError":obs.has_error,"std":obs.std,"usr":obs.usr,"rep":obs.rep,
              "outcome":actual.cls,"payload_ok":payload_ok}));
}

macro_rules! run_target {
    ($t:ty, $frames:expr, $stats:expr) => {{
        for (fi, f) in $frames.enumerate() {
            // entry point 1: receive_reply (the frame arrives whole, cut in the middle, or with its terminator
            // in a read of its own: what it is reported as does not depend on that)
            let wire = new_wire(0);
            wire.borrow_mut().log_reads = false;
            let mut bytes = f.as_bytes().to_vec();
            bytes.push(0);
            match fi % 3 {
                1 if bytes.len() > 2 => {
                    let c = bytes.len() / 2;
                    wire.borrow_mut().inb.push_back(Some(bytes[..c].to_vec()));
                    wire.borrow_mut().inb.push_back(Some(bytes[c..].to_vec()));
                }
                2 if bytes.len() > 1 => {
                    let c = bytes.len() - 1;
                    wire.borrow_mut().inb.push_back(Some(bytes[..c].to_vec()));
                    wire.borrow_mut().inb.push_back(Some(bytes[c..].to_vec()));
                }
                _ => wire.borrow_mut().inb.push_back(Some(bytes.clone())),
            }
            wire.borrow_mut().closed = true;
            let mut conn = Connection::new(Sock(wire.clone()));
            let actual = block_on(<$t as Target>::recv(&mut conn));
            one::<$t>(f, <$t>::observe, <$t>::arm_payloads, "receive_reply", actual, $stats);
            // entry point 2: call_method
            let wire = new_wire(0);
            wire.borrow_mut().log_reads = false;
            wire.borrow_mut().log_writes = false;
            wire.borrow_mut().inb.push_back(Some(bytes));
            wire.borrow_mut().closed = true;
            let mut conn = Connection::new(Sock(wire.clone()));
            let actual = block_on(<$t>::call_method(&mut conn));
            one::<$t>(f, <$t>::observe, <$t>::arm_payloads, "call_method", actual, $stats);
        }
        // entry point 3: receive_reply behind a reply that said `continues: true` on the same connection (how a
        // service ends a `more` exchange); what a frame is reported as does not depend on what came before it
        let prelude = [
            "{\"parameters\":{\"i\":1,\"pad\":\"p\"},\"continues\":true}",
            "{\"parameters\":{\"s\":\"b\",\"i\":2},\"continues\":true}",
            "{\"continues\":true}",
            "{\"parameters\":null,\"continues\":true}",
        ]
        .iter()
        .find(|c| {
            let wire = new_wire(0);
            wire.borrow_mut().log_reads = false;
            let mut b = c.as_bytes().to_vec();
            b.push(0);
            wire.borrow_mut().inb.push_back(Some(b));
            wire.borrow_mut().closed = true;
            let mut conn = Connection::new(Sock(wire.clone()));
            block_on(<$t as Target>::recv(&mut conn)).cls == "success"
        });
        if let Some(prelude) = prelude {
            for (fi, f) in $frames.enumerate() {
                let wire = new_wire(0);
                wire.borrow_mut().log_reads = false;
                let mut first = prelude.as_bytes().to_vec();
                first.push(0);
                let mut second = f.as_bytes().to_vec();
                second.push(0);
                if fi % 2 == 0 {
                    first.extend_from_slice(&second);
                    wire.borrow_mut().inb.push_back(Some(first));
                } else {
                    wire.borrow_mut().inb.push_back(Some(first));
                    wire.borrow_mut().inb.push_back(Some(second));
                }
                wire.borrow_mut().closed = true;
                let mut conn = Connection::new(Sock(wire.clone()));
                let _ = block_on(<$t as Target>::recv(&mut conn));
                let actual = block_on(<$t as Target>::recv(&mut conn));
                one::<$t>(f, <$t>::observe, <$t>::arm_payloads, "receive_reply_after_continues", actual, $stats);
            }
        }
    }};
}

pub fn run_all(frames: &[String], stats: &mut Stats) {
    ev(json!({"ev":"reset","sid":"classify"}));
    let frames: Vec<&String> = frames
        .iter()
        .filter(|f| !f.bytes().all(|b| matches!(b, b' ' | b'\t' | b'\n' | b'\r')))
        .collect();
    run_target!(TReplyStrict, frames.iter().copied(), stats);
    run_target!(TReplyOpt, frames.iter().copied(), stats);
    run_target!(TReplyValue, frames.iter().copied(), stats);
    run_target!(TReplyUnit, frames.iter().copied(), stats);
    run_target!(TReplyBorrow, frames.iter().copied(), stats);
    run_target!(TReplyNever, frames.iter().copied(), stats);
    run_target!(TReplyOne, frames.iter().copied(), stats);
    run_target!(TReplyOneUnit, frames.iter().copied(), stats);
    ev(json!({"ev":"end"}));
}
