//! C06 / C11: call chains and their reply streams.
//!
//! A scenario is a chain of calls (plain / oneway / more), the frames the server answers with
//! (a conforming script plus trailing frames of a later exchange), a chunking of those bytes and
//! a flag telling whether the consumer keeps every yielded item while polling on (as the README's
//! pipelining example does). Everything observable is logged: the transport write(s), every
//! transport read, every poll result of the stream, the content of held items after every poll
//! (read through the references safe code holds), and the receives issued after the stream.

use crate::{
    targets::{MEnum, Outcome, RBorrow, TReplyBorrow, Target, UErrB},
    util::{block_on, ev, fnv, poll_once, Rng},
    wire::{new_wire, Sock, Wire},
};
use futures_util::Stream;
use serde_json::{json, Value};
use std::{pin::pin, task::Poll};
use zlink_core::{Call, Connection};

#[derive(Debug, Clone)]
pub struct RFrame {
    /// index (1-based) of the call this frame answers, 0 = unrelated later exchange
    pub call: usize,
    pub err: bool,
    pub cont: bool,
    pub pad: usize,
    /// the reply is one the receiver reports as a general error (a standard service error, an error nobody
    /// declared, parameters of the wrong type): it still is the reply its call is owed
    pub gen: bool,
}

#[derive(Debug, Clone, PartialEq)]
pub enum Step {
    Feed(usize),
    Poll,
    /// the consumer abandons the stream here (wherever it is suspended); what it did not take is then
    /// received through the connection itself
    Drop,
}

#[derive(Debug, Clone)]
pub struct Scenario {
    pub sid: String,
    pub calls: Vec<String>,
    pub frames: Vec<RFrame>,
    pub steps: Vec<Step>,
    pub hold: bool,
}

impl Scenario {
    pub fn to_json(&self) -> Value {
        json!({"family":"chain","sid":self.sid,"calls":self.calls,"hold":self.hold,
            "frames": self.frames.iter().map(|f| json!({"call":f.call,"err":f.err,"cont":f.cont,"pad":f.pad,"gen":f.gen})).collect::<Vec<_>>(),
            "steps": self.steps.iter().map(|s| match s { Step::Feed(n) => json!(["feed", n]), Step::Poll => json!(["poll"]), Step::Drop => json!(["drop"]) }).collect::<Vec<_>>()})
    }
    pub fn from_json(v: &Value) -> Scenario {
        Scenario {
            sid: v["sid"].as_str().unwrap_or("replay").into(),
            calls: v["calls"].as_array().unwrap().iter().map(|c| c.as_str().unwrap().to_string()).collect(),
            hold: v["hold"].as_bool().unwrap_or(false),
            frames: v["frames"]
                .as_array()
                .unwrap()
                .iter()
                .map(|f| RFrame {
                    call: f["call"].as_u64().unwrap() as usize,
                    err: f["err"].as_bool().unwrap(),
                    cont: f["cont"].as_bool().unwrap(),
                    pad: f["pad"].as_u64().unwrap_or(0) as usize,
                    gen: f["gen"].as_bool().unwrap_or(false),
                })
                .collect(),
            steps: v["steps"]
                .as_array()
                .map(|a| {
                    a.iter()
                        .map(|s| match s[0].as_str().unwrap() {
                            "feed" => Step::Feed(s[1].as_u64().unwrap() as usize),
                            "drop" => Step::Drop,
                            _ => Step::Poll,
                        })
                        .collect()
                })
                .unwrap_or_default(),
        }
    }
}

fn frame_bytes(idx: usize, f: &RFrame, kind: &str) -> Vec<u8> {
    let pad = "r".repeat(f.pad);
    let s = if f.call == 0 {
        format!("{{\"parameters\":{{\"s\":\"later{pad}\",\"i\":{idx}}}}}")
    } else if f.gen {
        match (idx + f.pad) % 5 {
            // (a frame of nothing but whitespace: no document, reported with the end-of-stream variant)
            4 => [" ", "\n", "\t \r\n"][idx % 3].to_string(),
            0 => format!("{{\"error\":\"org.varlink.service.InvalidParameter\",\"parameters\":{{\"parameter\":\"p{pad}\"}}}}"),
            1 => format!("{{\"parameters\":{{\"s\":{idx},\"i\":\"{pad}\"}}}}"),
            2 => format!("{{\"error\":\"x.y.Undeclared\",\"parameters\":{{\"why\":\"{pad}\"}}}}"),
            _ => "{\"error\":\"org.varlink.service.PermissionDenied\"}".to_string(),
        }
    } else if f.err {
        if f.pad == 0 && idx % 2 == 0 {
            "{\"error\":\"t.err.NotFound\"}".to_string()
        } else {
            format!("{{\"error\":\"t.err.Bad\",\"parameters\":{{\"code\":{idx},\"msg\":\"m{pad}\"}}}}")
        }
    } else if f.cont {
        format!("{{\"parameters\":{{\"s\":\"c{idx}{pad}\",\"i\":{idx}}},\"continues\":true}}")
    } else if kind == "more" {
        // the final reply of a streaming call says so in one of the three legal ways: `continues`
        // false, absent, or null
        match idx % 3 {
            0 => format!("{{\"continues\":false,\"parameters\":{{\"s\":\"f{idx}{pad}\"}}}}"),
            1 => format!("{{\"parameters\":{{\"s\":\"f{idx}{pad}\"}}}}"),
            _ => format!("{{\"parameters\":{{\"s\":\"f{idx}{pad}\"}},\"continues\":null}}"),
        }
    } else if idx % 4 == 3 {
        format!("{{\"parameters\":{{\"s\":\"p{idx}{pad}\",\"i\":{idx}}},\"continues\":false}}")
    } else {
        format!("{{\"parameters\":{{\"s\":\"p{idx}{pad}\",\"i\":{idx}}}}}")
    };
    s.into_bytes()
}

fn continues_true(frame: &[u8]) -> bool {
    serde_json::from_slice::<Value>(frame)
        .ok()
        .and_then(|v| v.get("continues").and_then(|c| c.as_bool()))
        .unwrap_or(false)
}

pub struct Stats {
    pub scenarios: u64,
    pub items: u64,
    pub held_checks: u64,
    pub held_changed: u64,
}

type Item<'c> = zlink_core::Result<zlink_core::reply::Result<RBorrow<'c>, UErrB<'c>>>;

fn item_outcome(it: &Item<'_>) -> (Outcome, bool) {
    match it {
        Ok(Ok(r)) => (Outcome::new("success", format!("{r:?}")), r.continues() == Some(true)),
        Ok(Err(e)) => (Outcome::new("method_err", format!("{e:?}")), false),
        Err(e) => (Outcome::err(e), false),
    }
}

/// The string a yielded item borrows from the receive buffer.
fn borrowed<'a>(it: &'a Item<'_>) -> &'a str {
    match it {
        Ok(Ok(r)) => r.parameters().map(|p| p.s).unwrap_or(""),
        Ok(Err(UErrB::Bad { msg, .. })) => msg,
        _ => "",
    }
}

pub fn run(sc: &Scenario, stats: &mut Stats) {
    stats.scenarios += 1;
    let wire: Wire = new_wire(0);
    wire.borrow_mut().log_write_docs = true;
    let mut conn = Connection::new(Sock(wire.clone()));
    // Every third scenario starts on a connection that has been used before: a call enqueued and flushed by
    // hand, its reply received.  That exchange is complete; the chain that follows owes and is owed nothing from it.
    // (It happens before the trace starts: the scripted transport is silent meanwhile and wiped afterwards.)
    if sc.sid.bytes().map(|b| b as usize).sum::<usize>() % 3 == 0 {
        {
            let mut w = wire.borrow_mut();
            w.log_reads = false;
            w.log_writes = false;
            w.log_write_docs = false;
        }
        let pre = Call::new(MEnum::Echo { i: 0, pad: "pre".into() });
        let _ = conn.enqueue_call(&pre);
        let _ = block_on(conn.flush());
        wire.borrow_mut().inb.push_back(Some(b"{\"parameters\":{\"s\":\"pre\",\"i\":0}}\0".to_vec()));
        let _ = block_on(conn.receive_reply::<RBorrow<'_>, UErrB<'_>>());
        let mut w = wire.borrow_mut();
        w.out.clear();
        w.writes.clear();
        w.write_calls = 0;
        w.fills.clear();
        w.delivered = 0;
        w.log_reads = true;
        w.log_writes = true;
        w.log_write_docs = true;
    }
    let calls: Vec<Call<MEnum<'static>>> = sc
        .calls
        .iter()
        .enumerate()
        .map(|(i, k)| {
            Call::new(MEnum::Echo { i: i as u32 + 1, pad: "q".repeat(i * 3) })
                .set_oneway(k == "oneway" || k == "om")
                .set_more(k == "more" || k == "om")
        })
        .collect();
    let docs: Vec<Value> = calls
        .iter()
        .map(|c| {
            let r = serde_json::to_vec(c).unwrap();
            json!({"h": fnv(&r), "len": r.len()})
        })
        .collect();
    let mut stream_bytes = Vec::new();
    let mut end = 0usize;
    let frames: Vec<Value> = sc
        .frames
        .iter()
        .enumerate()
        .map(|(i, f)| {
            let kind = if f.call > 0 { sc.calls[f.call - 1].as_str() } else { "plain" };
            let b = frame_bytes(i + 1, f, kind);
            end += b.len() + 1;
            let o = TReplyBorrow::isolated(&b);
            let cont = continues_true(&b);
            stream_bytes.extend_from_slice(&b);
            stream_bytes.push(0);
            let mut v = crate::targets::expected_fields(&o, &b);
            v["end"] = json!(end);
            v["cont"] = json!(cont);
            v
        })
        .collect();
    ev(json!({"ev":"reset","sid":sc.sid,"calls":sc.calls,"docs":docs,"frames":frames,"hold":sc.hold,
              "total":stream_bytes.len(),"MAXB":crate::buffer_max(),"B":crate::buffer_step()}));

    let mut off = 0usize;
    let feed = |n: usize, off: &mut usize| {
        let e = (*off + n).min(stream_bytes.len());
        if e > *off {
            wire.borrow_mut().inb.push_back(Some(stream_bytes[*off..e].to_vec()));
            *off = e;
        }
    };
    let mut ended = false;
    let mut failed = false;
    {
        let mut built = conn.chain_call::<MEnum<'static>, RBorrow<'_>, UErrB<'_>>(&calls[0]);
        for c in &calls[1..] {
            built = match built {
                Ok(chain) => chain.append(c),
                Err(e) => Err(e),
            };
        }
        let chain = match built {
            Ok(c) => c,
            Err(e) => {
                ev(json!({"ev":"build_err","cls":crate::util::err_class(&e)}));
                return;
            }
        };
        ev(json!({"ev":"send"}));
        let stream = match block_on(chain.send()) {
            Ok(s) => s,
            Err(e) => {
                ev(json!({"ev":"send_err","cls":crate::util::err_class(&e)}));
                return;
            }
        };
        ev(json!({"ev":"sent"}));
        let mut stream = Box::pin(stream);
        // (index, the item itself, address and length of the string it borrows, its bytes when yielded)
        // ... and the marks (transport reads, frees) at the time it was yielded
        let mut held: Vec<(usize, Item<'_>, usize, usize, Vec<u8>, usize, usize)> = Vec::new();
        let mut nitems = 0usize;
        let mut script: std::collections::VecDeque<Step> = sc.steps.iter().cloned().collect();
        let mut budget = 4 * sc.frames.len() + sc.steps.len() + 16;
        macro_rules! check_held {
            () => {{
                // what safe code sees when it looks at the items it still holds
                for (k, _it, ptr, len, saved, fills_mark, freed_mark) in &held {
                    // The bytes the held reference points to (what `item.s` would read). They are read
                    // as plain bytes: after the defect under study they need not be UTF-8 any more.
                    let now = unsafe { std::slice::from_raw_parts(*ptr as *const u8, *len) };
                    stats.held_checks += 1;
                    let same = now == &saved[..];
                    if !same {
                        stats.held_changed += 1;
                    }
                    if same {
                        ev(json!({"ev":"check","k":k,"same":true}));
                        continue;
                    }
                    // Measurements for the judgement of a change (all positions relative to the item's first byte):
                    // the runs of changed bytes, the memory the transport reads issued since the item was yielded
                    // were given to fill plus the end marker behind what they delivered, and whether the block
                    // the item points into was freed meanwhile.
                    let mut changed: Vec<[i64; 2]> = Vec::new();
                    for i in 0..*len {
                        if now[i] != saved[i] {
                            match changed.last_mut() {
                                Some(r) if r[1] + 1 == i as i64 => r[1] = i as i64,
                                _ => changed.push([i as i64, i as i64]),
                            }
                        }
                    }
                    let mut windows: Vec<[i64; 2]> = wire.borrow().fills[*fills_mark..]
                        .iter()
                        .map(|(p, _cap, n)| [*p as i64 - *ptr as i64, *p as i64 + *n as i64 - *ptr as i64])
                        .filter(|w| w[1] >= 0 && w[0] < *len as i64)
                        .map(|w| [w[0].max(0), w[1].min(*len as i64 - 1)])
                        .collect();
                    windows.sort();
                    let mut merged: Vec<[i64; 2]> = Vec::new();
                    for w in windows {
                        match merged.last_mut() {
                            Some(m) if w[0] <= m[1] + 1 => m[1] = m[1].max(w[1]),
                            _ => merged.push(w),
                        }
                    }
                    let freed = crate::freed_since(*freed_mark, *ptr).unwrap_or(true);
                    ev(json!({"ev":"check","k":k,"same":false,"freed":freed,"changed":changed,"windows":merged}));
                }
            }};
        }
        loop {
            budget -= 1;
            if budget == 0 {
                ev(json!({"ev":"stuck"}));
                break;
            }
            match script.pop_front() {
                Some(Step::Feed(n)) => {
                    feed(n, &mut off);
                    continue;
                }
                Some(Step::Poll) => {}
                Some(Step::Drop) => {
                    ev(json!({"ev":"stream_drop"}));
                    ended = true;
                    break;
                }
                None => {
                    // everything the server sent is now available
                    feed(usize::MAX / 2, &mut off);
                }
            }
            let all_fed = off >= stream_bytes.len();
            let polled = std::panic::catch_unwind(std::panic::AssertUnwindSafe(|| {
                let mut cx = std::task::Context::from_waker(std::task::Waker::noop());
                stream.as_mut().poll_next(&mut cx)
            }));
            let polled = match polled {
                Ok(p) => p,
                Err(_) => {
                    ev(json!({"ev":"panic"}));
                    failed = true;
                    break;
                }
            };
            let mut stop = false;
            match polled {
                Poll::Ready(Some(it)) => {
                    nitems += 1;
                    stats.items += 1;
                    // (an item whose borrowed text has been clobbered need not be valid UTF-8 any more: printing it
                    // can panic inside core::fmt - that is data about the code under test, not a harness failure)
                    let (o, cont) = std::panic::catch_unwind(std::panic::AssertUnwindSafe(|| item_outcome(&it))).unwrap_or_else(|_| {
                        let cls = match &it {
                            Ok(Ok(_)) => "success",
                            Ok(Err(_)) => "method_err",
                            Err(e) => crate::util::err_class(e),
                        };
                        (Outcome::new(cls, "<unprintable: the item's borrowed text is not valid UTF-8>".to_string()), false)
                    });
                    ev(json!({"ev":"item","k":nitems,"cls":o.cls,"canon":o.canon,"cont":cont}));
                    if matches!(o.cls, "success" | "method_err") {
                        if sc.hold {
                            let (p, n, saved) = {
                                let b = borrowed(&it);
                                (b.as_ptr() as usize, b.len(), b.as_bytes().to_vec())
                            };
                            let fills_mark = wire.borrow().fills.len();
                            let freed_mark = crate::FREED_N.load(std::sync::atomic::Ordering::Relaxed);
                            held.push((nitems, it, p, n, saved, fills_mark, freed_mark));
                        }
                    }
                }
                Poll::Ready(None) => {
                    ev(json!({"ev":"stream_end"}));
                    ended = true;
                    stop = true;
                }
                Poll::Pending => {
                    if all_fed && script.is_empty() {
                        // nothing more will ever arrive: the stream waits for a reply nobody owes
                        ev(json!({"ev":"stuck"}));
                        stop = true;
                    } else {
                        ev(json!({"ev":"pending"}));
                    }
                }
            }
            check_held!();
            if stop {
                break;
            }
        }
        // the items borrow from the connection, not from the stream object: they stay usable after the stream
        // is gone (abandoned or finished) - look at them once more
        drop(stream);
        check_held!();
        drop(held);
    }
    if ended && !failed {
        // later exchanges on the same connection: everything not owed to the chain is still there.
        // With a lowered size limit what is left may add up to the limit (oversized traffic is C17's
        // subject): it then arrives frame by frame, as the receives ask for it.
        let big = stream_bytes.len() + 1 >= crate::buffer_max();
        let ends: Vec<usize> = frames.iter().map(|f| f["end"].as_u64().unwrap() as usize).collect();
        if !big {
            feed(usize::MAX / 2, &mut off);
            wire.borrow_mut().closed = true;
            ev(json!({"ev":"close"}));
        }
        for _ in 0..(sc.frames.len() + 2) {
            if big {
                match ends.iter().find(|e| **e > off) {
                    Some(e) => feed(*e - off, &mut off),
                    None => {
                        if !wire.borrow().closed {
                            wire.borrow_mut().closed = true;
                            ev(json!({"ev":"close"}));
                        }
                    }
                }
            }
            let o = {
                let mut fut = Box::pin(<TReplyBorrow as Target>::recv(&mut conn));
                match poll_once(fut.as_mut()) {
                    Poll::Ready(o) => o,
                    Poll::Pending => {
                        ev(json!({"ev":"stuck"}));
                        break;
                    }
                }
            };
            let (blen, _rp, _mp) = {
                let (_p, b, r, m) = conn.read().verif_state();
                (b, r, m)
            };
            // the end of the stream, not the error result of a blank frame (same error variant)
            let eof = o.cls == "eof" && wire.borrow().eof_reported;
            ev(json!({"ev":"recv","cls":o.cls,"canon":o.canon,"blen":blen}));
            if eof {
                break;
            }
        }
    }
    ev(json!({"ev":"end","drained":ended}));
}

// ------------------------------------------------------------------ generators

/// A conforming reply script for the calls.  `gen_at`: the reply that ends the n-th answered call (if there
/// is one) is a reply the receiver reports as a general error.
fn gen_script(r: &mut Rng, calls: &[String], max_cont: usize, pad_style: u64) -> Vec<RFrame> {
    gen_script_g(r, calls, max_cont, pad_style, None)
}

fn gen_script_g(r: &mut Rng, calls: &[String], max_cont: usize, pad_style: u64, gen_at: Option<usize>) -> Vec<RFrame> {
    let step = crate::buffer_step();
    let pad = |r: &mut Rng| match pad_style {
        0 => 0,
        1 => r.range(0, 30),
        2 => (step * r.range(1, 2) + r.range(0, 8)).saturating_sub(60),
        _ => r.range(0, 2 * step),
    };
    let mut v = Vec::new();
    let mut answered = 0usize;
    for (i, k) in calls.iter().enumerate() {
        match k.as_str() {
            "oneway" | "om" => {}
            "plain" => {
                let g = gen_at == Some(answered);
                answered += 1;
                v.push(RFrame { call: i + 1, err: g || r.chance(1, 4), cont: false, pad: pad(r), gen: g })
            }
            _ => {
                let g = gen_at == Some(answered);
                answered += 1;
                let n = r.range(0, max_cont);
                for _ in 0..n {
                    v.push(RFrame { call: i + 1, err: false, cont: true, pad: pad(r), gen: false });
                }
                v.push(RFrame { call: i + 1, err: g || r.chance(1, 4), cont: false, pad: pad(r), gen: g });
            }
        }
    }
    v
}

fn frame_lens(sc: &Scenario) -> Vec<usize> {
    sc.frames
        .iter()
        .enumerate()
        .map(|(i, f)| {
            let kind = if f.call > 0 { sc.calls[f.call - 1].as_str() } else { "plain" };
            frame_bytes(i + 1, f, kind).len() + 1
        })
        .collect()
}

fn gen_steps(r: &mut Rng, lens: &[usize], style: u64) -> Vec<Step> {
    let total: usize = lens.iter().sum();
    let mut steps = Vec::new();
    match style {
        // everything in one read
        0 => steps.push(Step::Feed(total)),
        // one read per frame
        1 => {
            for l in lens {
                steps.push(Step::Feed(*l));
                steps.push(Step::Poll);
            }
        }
        // a cut inside every frame
        2 => {
            let mut carry = 0;
            for l in lens {
                let c = r.range(1, (*l).max(2) - 1);
                steps.push(Step::Feed(carry + c));
                steps.push(Step::Poll);
                carry = l - c;
            }
            steps.push(Step::Feed(carry));
        }
        // nothing fed before the first polls (the stream must wait, or end at once)
        3 => {
            steps.push(Step::Poll);
            steps.push(Step::Feed(total));
        }
        _ => {
            let mut left = total;
            while left > 0 {
                let n = match r.below(4) {
                    0 => 1,
                    1 => r.range(1, 20),
                    2 => r.range(1, 300),
                    _ => left,
                }
                .min(left);
                steps.push(Step::Feed(n));
                left -= n;
                for _ in 0..r.below(3) {
                    steps.push(Step::Poll);
                }
            }
        }
    }
    steps
}

/// The stream is abandoned at every point of a two-reply exchange: before anything arrived, after every
/// prefix of either reply (so also while it is suspended in the middle of a frame), between the replies.
pub fn gen_drop_edges(r: &mut Rng, out: &mut Vec<Scenario>) {
    for (v, kinds) in [["plain", "plain"], ["more", "plain"]].iter().enumerate() {
        let calls: Vec<String> = kinds.iter().map(|k| k.to_string()).collect();
        let frames = vec![
            RFrame { call: 1, err: false, cont: v == 1, pad: r.range(0, 12), gen: false },
            RFrame { call: if v == 1 { 1 } else { 2 }, err: v == 0 && r.chance(1, 3), cont: false, pad: r.range(0, 12), gen: false },
        ];
        let mut frames = frames;
        if v == 1 {
            frames.push(RFrame { call: 2, err: false, cont: false, pad: 3, gen: false });
        }
        let base = Scenario { sid: String::new(), calls, frames, steps: vec![], hold: false };
        let lens = frame_lens(&base);
        let total: usize = lens.iter().sum();
        for c in 0..=total {
            let mut sc = base.clone();
            sc.sid = format!("d{v}-{c}");
            // the first c bytes arrive (in one read, or byte-wise for every third cut), the consumer polls until the
            // stream is suspended, then gives up
            sc.steps = if c % 3 == 2 {
                (0..c).flat_map(|_| [Step::Feed(1), Step::Poll]).collect()
            } else {
                vec![Step::Feed(c)]
            };
            sc.steps.extend([Step::Poll, Step::Poll, Step::Poll, Step::Poll, Step::Drop]);
            out.push(sc);
        }
    }
}

pub fn gen_random(r: &mut Rng, sid: String, hold: bool) -> Scenario {
    if !hold && r.chance(1, 30) && crate::buffer_max() >= 1 << 20 {
        // a long burst: one `more` call answered by 33..90 continuing replies and a final one, everything
        // available at once (the stream never has to wait in between)
        let k = r.range(33, 90);
        let mut frames: Vec<RFrame> = (0..k).map(|_| RFrame { call: 1, err: false, cont: true, pad: r.range(0, 6), gen: false }).collect();
        frames.push(RFrame { call: 1, err: r.chance(1, 4), cont: false, pad: 0, gen: false });
        frames.push(RFrame { call: 0, err: false, cont: false, pad: 3, gen: false });
        return Scenario { sid, calls: vec!["more".to_string()], frames, steps: vec![], hold };
    }
    let n = r.range(1, 6);
    let calls: Vec<String> = (0..n).map(|_| r.pick(&["plain", "oneway", "more", "plain", "more", "om"]).to_string()).collect();
    let ps = r.below(4);
    // now and then one of the calls is answered by a reply the receiver reports as a general error
    let gen_at = if r.chance(1, 5) { Some(r.below(n as u64) as usize) } else { None };
    let mut frames = gen_script_g(r, &calls, 3, ps, gen_at);
    for _ in 0..r.below(3) {
        frames.push(RFrame { call: 0, err: false, cont: false, pad: r.range(0, 20), gen: false });
    }
    let mut sc = Scenario { sid, calls, frames, steps: vec![], hold };
    let lens = frame_lens(&sc);
    let mut st = r.below(6);
    if lens.iter().sum::<usize>() + 1 >= crate::buffer_max() {
        // lowered-limit builds: never let the buffered bytes reach the limit (oversized traffic
        // is C17's subject, not part of this property's quantifier)
        st = 1;
    }
    sc.steps = gen_steps(r, &lens, st);
    if r.chance(1, 5) && !sc.steps.is_empty() {
        // the consumer gives up somewhere on the way
        let at = r.range(0, sc.steps.len());
        sc.steps.truncate(at);
        sc.steps.push(Step::Drop);
    }
    sc
}

/// Every flag sequence of 1..=maxn calls (3 + 9 + ... sequences), one seeded script each,
/// with trailing frames, in the given chunking style.
pub fn gen_all_flags(r: &mut Rng, maxn: usize, out: &mut Vec<Scenario>, hold: bool) {
    // the four combinations of the two flags: neither, oneway, more, both (= oneway: nobody answers it)
    let kinds = ["plain", "oneway", "more", "om"];
    for n in 1..=maxn {
        let count = 4usize.pow(n as u32);
        for code in 0..count {
            let mut c = code;
            let calls: Vec<String> = (0..n)
                .map(|_| {
                    let k = kinds[c % 4];
                    c /= 4;
                    k.to_string()
                })
                .collect();
            let ps = r.below(3);
            // every seventh sequence has one reply that is reported as a general error
            let gen_at = if code % 7 == 3 { Some(code / 7 % n) } else { None };
            let mut frames = gen_script_g(r, &calls, 2, ps, gen_at);
            let trail = (code + n) % 3;
            for _ in 0..trail {
                frames.push(RFrame { call: 0, err: false, cont: false, pad: 0, gen: false });
            }
            let mut sc = Scenario { sid: format!("a{n}-{code}"), calls, frames, steps: vec![], hold };
            let lens = frame_lens(&sc);
            let mut st = (code % 5) as u64;
            if lens.iter().sum::<usize>() + 1 >= crate::buffer_max() {
                st = 1;
            }
            sc.steps = gen_steps(r, &lens, st);
            out.push(sc);
        }
    }
}

/// Held items at the boundaries of later transport reads: replies 1 and 2 arrive in one read and are held;
/// reply 3 arrives later (in one read or in two) and its length is swept so that the end of what that
/// read delivers passes over every position from just before to just behind the string reply 2 lends.
pub fn gen_hold_edges(r: &mut Rng, out: &mut Vec<Scenario>) {
    for (v, kinds) in [["plain", "plain", "plain"], ["more", "plain", "oneway"]].iter().enumerate() {
        let calls: Vec<String> = kinds.iter().map(|k| k.to_string()).collect();
        let (pad1, pad2) = (r.range(16, 28), r.range(2, 9));
        let mk = |pad3: usize| {
            let frames = if v == 0 {
                vec![
                    RFrame { call: 1, err: false, cont: false, pad: pad1, gen: false },
                    RFrame { call: 2, err: false, cont: false, pad: pad2, gen: false },
                    RFrame { call: 3, err: false, cont: false, pad: pad3, gen: false },
                ]
            } else {
                vec![
                    RFrame { call: 1, err: false, cont: true, pad: pad1, gen: false },
                    RFrame { call: 1, err: false, cont: true, pad: pad2, gen: false },
                    RFrame { call: 1, err: false, cont: false, pad: pad3, gen: false },
                    RFrame { call: 2, err: false, cont: false, pad: 0, gen: false },
                ]
            };
            Scenario { sid: String::new(), calls: calls.clone(), frames, steps: vec![], hold: true }
        };
        let base = mk(0);
        let lens = frame_lens(&base);
        let f2 = frame_bytes(2, &base.frames[1], &base.calls[base.frames[1].call - 1]);
        let at = f2.windows(5).position(|w| w == b"\"s\":\"").map(|p| p + 5).unwrap_or(0);
        let (lo, hi) = (lens[0] + at, lens[0] + lens[1] - 1); // the lent string .. the end of reply 2
        for end in lo.saturating_sub(4)..=hi + 3 {
            // `end` = number of bytes the later read delivers
            if end < lens[2] {
                continue;
            }
            let mut sc = mk(end - lens[2]);
            let l = frame_lens(&sc);
            debug_assert_eq!(l[2], end);
            sc.sid = format!("e{v}-{end}");
            sc.steps = vec![Step::Feed(l[0] + l[1]), Step::Poll, Step::Poll, Step::Poll];
            if end % 2 == 0 {
                sc.steps.push(Step::Feed(l[2]));
            } else {
                let c = r.range(1, l[2] - 1);
                sc.steps.extend([Step::Feed(c), Step::Poll, Step::Feed(l[2] - c)]);
            }
            out.push(sc);
        }
    }
}

/// Scenario from a TLC-exported Chain behaviour:
/// `{"calls":["plain",..],"frames":[{"call":1,"err":false,"cont":true},..],"reads":[2,1,..]}`
/// (`reads` = number of frames each transport read delivered).
pub fn from_model_behaviour(v: &Value, sid: String, hold: bool) -> Scenario {
    let calls: Vec<String> = v["calls"].as_array().unwrap().iter().map(|c| c.as_str().unwrap().to_string()).collect();
    let frames: Vec<RFrame> = v["frames"]
        .as_array()
        .unwrap()
        .iter()
        .map(|f| RFrame {
            call: f["call"].as_u64().unwrap() as usize,
            err: f["err"].as_bool().unwrap(),
            cont: f["cont"].as_bool().unwrap(),
            pad: 0,
            gen: f["gen"].as_bool().unwrap_or(false),
        })
        .collect();
    let mut sc = Scenario { sid, calls, frames, steps: vec![], hold };
    let lens = frame_lens(&sc);
    let mut steps = Vec::new();
    let mut i = 0;
    for rd in v["reads"].as_array().unwrap() {
        let n = rd.as_u64().unwrap() as usize;
        let bytes: usize = lens[i..(i + n).min(lens.len())].iter().sum();
        i += n;
        steps.push(Step::Feed(bytes));
        for _ in 0..n {
            steps.push(Step::Poll);
        }
    }
    sc.steps = steps;
    sc
}
