//! End-to-end sessions: zlink clients (generated proxy methods, chains, reply streams) talking to a
//! zlink `Server` running a scripted `Service`, over in-memory pipes whose delivery (chunk sizes,
//! delays) the driver decides.  Everything runs on the poll-by-poll executor: one round polls the
//! server once, moves some bytes along every pipe and polls every client once.
//!
//! Events (validated by specs/SessionTrace.tla against the composed model specs/Session.tla):
//!   reset   the scripts of all clients
//!   send    client c issued its x-th call (kind, n)             [logged when the exchange starts]
//!   handle  the service saw call x of client c                  [logged by the service]
//!   result  client c got a reply it attributes to call x: the (c, i, item) the reply carries
//!   done    client c finished its script (with the number of results per call)

use crate::util::{ev, poll_once, Rng};
use crate::wire::{new_wire, Sock, Wire};
use futures_util::stream::{Stream, StreamExt};
use serde::{Deserialize, Serialize};
use serde_json::{json, Value};
use std::{
    cell::RefCell,
    collections::VecDeque,
    future::{poll_fn, Future},
    pin::Pin,
    rc::Rc,
    task::{Context, Poll},
};
use zlink_core::{service::MethodReply, Call, Connection, Listener, Reply, Server, Service};

// ------------------------------------------------------------------ the service

#[derive(Debug, Serialize, Deserialize)]
#[serde(tag = "method", content = "parameters")]
enum M {
    #[serde(rename = "t.s.Echo")]
    Echo { c: u32, i: u32, pad: String },
    #[serde(rename = "t.s.Fail")]
    Fail { c: u32, i: u32 },
    #[serde(rename = "t.s.Note")]
    Note { c: u32, i: u32 },
    #[serde(rename = "t.s.Sub")]
    Sub { c: u32, i: u32, n: u32 },
}
#[derive(Debug, Serialize, Deserialize, PartialEq)]
pub struct Rp {
    pub c: u32,
    pub i: u32,
    pub item: u32,
}
#[derive(Debug, PartialEq, zlink_core::ReplyError)]
#[zlink(interface = "t.s", crate = "zlink_core")]
pub enum TErr {
    Failed { c: u32, i: u32 },
}

#[derive(Debug)]
struct St {
    c: u32,
    i: u32,
    n: u32,
    k: u32,
    /// Suspend once before every item (lets the other connections act in between).
    armed: bool,
}
impl Stream for St {
    type Item = Reply<Rp>;
    fn poll_next(mut self: Pin<&mut Self>, _cx: &mut Context<'_>) -> Poll<Option<Self::Item>> {
        if !self.armed {
            self.armed = true;
            return Poll::Pending;
        }
        self.armed = false;
        if self.k <= self.n {
            self.k += 1;
            // n continuing items, then the final one
            let cont = self.k <= self.n;
            Poll::Ready(Some(Reply::new(Some(Rp { c: self.c, i: self.i, item: self.k })).set_continues(Some(cont))))
        } else {
            Poll::Ready(None)
        }
    }
}

struct Svc;
impl Service for Svc {
    type MethodCall<'de> = M;
    type ReplyParams<'ser> = Rp;
    type ReplyStreamParams = Rp;
    type ReplyStream = St;
    type ReplyError<'ser> = TErr;
    async fn handle<'ser>(
        &'ser mut self,
        call: Call<Self::MethodCall<'_>>,
    ) -> MethodReply<Self::ReplyParams<'ser>, Self::ReplyStream, Self::ReplyError<'ser>> {
        let (c, i) = match call.method() {
            M::Echo { c, i, .. } | M::Fail { c, i } | M::Note { c, i } | M::Sub { c, i, .. } => (*c, *i),
        };
        ev(json!({"ev":"handle","c":c,"x":i,"oneway":call.oneway(),"more":call.more()}));
        match call.method() {
            M::Echo { c, i, .. } | M::Note { c, i } => MethodReply::Single(Some(Rp { c: *c, i: *i, item: 0 })),
            M::Fail { c, i } => MethodReply::Error(TErr::Failed { c: *c, i: *i }),
            M::Sub { c, i, n } => MethodReply::Multi(St { c: *c, i: *i, n: *n, k: 0, armed: false }),
        }
    }
}

// ------------------------------------------------------------------ the client side

#[zlink_core::proxy(interface = "t.s", crate = "zlink_core")]
trait TProxy {
    async fn echo(&mut self, c: u32, i: u32, pad: &str) -> zlink_core::Result<Result<Rp, TErr>>;
    async fn fail(&mut self, c: u32, i: u32) -> zlink_core::Result<Result<Rp, TErr>>;
    #[zlink(oneway)]
    async fn note(&mut self, c: u32, i: u32) -> zlink_core::Result<()>;
    /// the failing method, called oneway: the error must not come back either
    #[zlink(rename = "Fail", oneway)]
    async fn note_fail(&mut self, c: u32, i: u32) -> zlink_core::Result<()>;
    #[zlink(more)]
    async fn sub(&mut self, c: u32, i: u32, n: u32) -> zlink_core::Result<impl Stream<Item = zlink_core::Result<Result<Rp, TErr>>>>;
}

#[derive(Debug, Clone, Serialize, Deserialize)]
pub struct CallK {
    pub k: String, // plain error oneway more
    pub n: u32,
}
#[derive(Debug, Clone, Serialize, Deserialize)]
pub struct Exchange {
    /// one call through its proxy method, or several pipelined as a chain
    pub chain: bool,
    pub calls: Vec<CallK>,
}
#[derive(Debug, Clone, Serialize, Deserialize)]
pub struct Scenario {
    pub sid: String,
    pub clients: Vec<Vec<Exchange>>,
    pub seed: u64,
    pub pad: usize,
    /// per client: hang up after that many exchanges (absent / larger than the script = never); the last
    /// exchange before hanging up may be abandoned right after its calls were written (`abandon`)
    #[serde(default)]
    pub quit_after: Vec<usize>,
    #[serde(default)]
    pub abandon: Vec<bool>,
}

fn outcome(r: zlink_core::Result<Result<Rp, TErr>>) -> Value {
    match r {
        Ok(Ok(p)) => json!({"cls":"success","c":p.c,"i":p.i,"item":p.item}),
        Ok(Err(TErr::Failed { c, i })) => json!({"cls":"method_err","c":c,"i":i,"item":0}),
        Err(e) => json!({"cls":crate::util::err_class(&e),"c":0,"i":0,"item":0}),
    }
}

/// The script of one client, run sequentially on its connection.
async fn client_task(c: u32, script: Vec<Exchange>, conn: &mut Connection<Sock>, pad: String, quit_after: usize, abandon: bool) {
    let mut x = 0u32; // number of calls issued so far
    let mut counts: Vec<u32> = Vec::new();
    for (ei, e) in script.iter().enumerate() {
        if ei >= quit_after {
            break;
        }
        if abandon && ei + 1 == quit_after {
            // the client writes the calls of this exchange and hangs up without reading any reply
            for k in &e.calls {
                x += 1;
                ev(json!({"ev":"send","c":c,"x":x,"k":k.k,"n":k.n}));
                let call: Call<M> = match k.k.as_str() {
                    "plain" => Call::new(M::Echo { c, i: x, pad: pad.clone() }),
                    "error" => Call::new(M::Fail { c, i: x }),
                    "oneway" if k.n == 1 => Call::new(M::Fail { c, i: x }).set_oneway(true),
                    "oneway" => Call::new(M::Note { c, i: x }).set_oneway(true),
                    _ => Call::new(M::Sub { c, i: x, n: k.n }).set_more(true),
                };
                let _ = conn.send_call(&call).await;
                counts.push(0);
            }
            break;
        }
        if !e.chain {
            let k = &e.calls[0];
            x += 1;
            ev(json!({"ev":"send","c":c,"x":x,"k":k.k,"n":k.n}));
            let mut got = 0u32;
            match k.k.as_str() {
                "plain" => {
                    let r = conn.echo(c, x, &pad).await;
                    ev(json!({"ev":"result","c":c,"x":x,"r":outcome(r)}));
                    got = 1;
                }
                "error" => {
                    let r = conn.fail(c, x).await;
                    ev(json!({"ev":"result","c":c,"x":x,"r":outcome(r)}));
                    got = 1;
                }
                "oneway" => {
                    let r = if k.n == 1 { conn.note_fail(c, x).await } else { conn.note(c, x).await };
                    if r.is_err() {
                        ev(json!({"ev":"result","c":c,"x":x,"r":{"cls":"io_err","c":0,"i":0,"item":0}}));
                    }
                }
                _ => match conn.sub(c, x, k.n).await {
                    Ok(stream) => {
                        let mut stream = std::pin::pin!(stream);
                        while let Some(r) = stream.next().await {
                            ev(json!({"ev":"result","c":c,"x":x,"r":outcome(r)}));
                            got += 1;
                        }
                    }
                    Err(e) => ev(json!({"ev":"result","c":c,"x":x,"r":{"cls":crate::util::err_class(&e),"c":0,"i":0,"item":0}})),
                },
            }
            counts.push(got);
        } else {
            // a chain: all calls are written at once, then the replies are read in order.  The stream does
            // not say which call a reply answers: the attribution below is the one a user of the API makes
            // (replies in order; a call is done when a reply does not continue).
            let first_x = x + 1;
            let mk = |k: &CallK, x: u32| -> Call<M> {
                match k.k.as_str() {
                    "plain" => Call::new(M::Echo { c, i: x, pad: pad.clone() }),
                    "error" => Call::new(M::Fail { c, i: x }),
                    "oneway" if k.n == 1 => Call::new(M::Fail { c, i: x }).set_oneway(true),
                    "oneway" => Call::new(M::Note { c, i: x }).set_oneway(true),
                    _ => Call::new(M::Sub { c, i: x, n: k.n }).set_more(true),
                }
            };
            for (j, k) in e.calls.iter().enumerate() {
                ev(json!({"ev":"send","c":c,"x":first_x + j as u32,"k":k.k,"n":k.n}));
            }
            let mut chain = conn.chain_call::<M, Rp, TErr>(&mk(&e.calls[0], first_x)).expect("chain");
            for (j, k) in e.calls.iter().enumerate().skip(1) {
                chain = chain.append(&mk(k, first_x + j as u32)).expect("append");
            }
            let mut got = vec![0u32; e.calls.len()];
            match chain.send().await {
                Ok(stream) => {
                    let mut stream = std::pin::pin!(stream);
                    // index of the call the next reply is attributed to
                    let mut at = e.calls.iter().position(|k| k.k != "oneway");
                    while let Some(r) = stream.next().await {
                        let Some(a) = at else {
                            ev(json!({"ev":"result","c":c,"x":0,"r":{"cls":"unexpected_reply","c":0,"i":0,"item":0}}));
                            break;
                        };
                        let (o, cont) = match r {
                            Ok(Ok(rep)) => {
                                let cont = rep.continues() == Some(true);
                                let o = match rep.into_parameters() {
                                    Some(p) => json!({"cls":"success","c":p.c,"i":p.i,"item":p.item}),
                                    None => json!({"cls":"success_without_parameters","c":0,"i":0,"item":0}),
                                };
                                (o, cont)
                            }
                            Ok(Err(TErr::Failed { c, i })) => (json!({"cls":"method_err","c":c,"i":i,"item":0}), false),
                            Err(e) => (json!({"cls":crate::util::err_class(&e),"c":0,"i":0,"item":0}), false),
                        };
                        ev(json!({"ev":"result","c":c,"x":first_x + a as u32,"r":o}));
                        got[a] += 1;
                        if !cont {
                            at = e.calls.iter().enumerate().skip(a + 1).find(|(_, k)| k.k != "oneway").map(|(j, _)| j);
                        }
                    }
                }
                Err(e) => ev(json!({"ev":"result","c":c,"x":first_x,"r":{"cls":crate::util::err_class(&e),"c":0,"i":0,"item":0}})),
            }
            x += e.calls.len() as u32;
            counts.extend(got);
        }
    }
    ev(json!({"ev":"done","c":c,"counts":counts,"gone":quit_after < script.len() || (abandon && quit_after <= script.len()),"abandoned":abandon && quit_after <= script.len()}));
}

// ------------------------------------------------------------------ plumbing

#[derive(Debug)]
struct L(Rc<RefCell<VecDeque<Wire>>>);
impl Listener for L {
    type Socket = Sock;
    async fn accept(&mut self) -> zlink_core::Result<Connection<Sock>> {
        poll_fn(|_cx| match self.0.borrow_mut().pop_front() {
            Some(w) => Poll::Ready(Ok(Connection::new(Sock(w)))),
            None => Poll::Pending,
        })
        .await
    }
}

/// Bytes written on `from` travel to `to.inb` in pieces the driver chooses.
struct Pipe {
    from: Wire,
    to: Wire,
    taken: usize, // bytes of from.out already moved
}
impl Pipe {
    fn pump(&mut self, r: &mut Rng, all: bool) -> bool {
        let avail = self.from.borrow().out.len() - self.taken;
        if avail == 0 {
            return false;
        }
        let n = if all {
            avail
        } else {
            match r.below(5) {
                0 => 0,
                1 => 1.min(avail),
                2 => r.range(1, avail.min(7)),
                3 => r.range(1, avail),
                _ => avail,
            }
        };
        if n == 0 {
            return false;
        }
        let chunk = self.from.borrow().out[self.taken..self.taken + n].to_vec();
        self.taken += n;
        self.to.borrow_mut().inb.push_back(Some(chunk));
        true
    }
}

pub struct Stats {
    pub scenarios: u64,
    pub calls: u64,
    pub stuck: u64,
}

pub fn run(sc: &Scenario, stats: &mut Stats) {
    stats.scenarios += 1;
    let mut r = Rng::new(sc.seed);
    ev(json!({"ev":"reset","sid":sc.sid,"clients":sc.clients}));
    let quiet = |tag: u32| {
        let w = new_wire(tag);
        {
            let mut s = w.borrow_mut();
            s.log_reads = false;
            s.log_writes = false;
        }
        w
    };
    let queue: Rc<RefCell<VecDeque<Wire>>> = Rc::new(RefCell::new(VecDeque::new()));
    let server = Server::new(L(queue.clone()), Svc);
    let mut server_fut: Pin<Box<dyn Future<Output = zlink_core::Result<()>>>> = Box::pin(server.run());
    let mut pipes: Vec<Pipe> = Vec::new();
    let mut conns: Vec<Connection<Sock>> = Vec::new();
    for c in 0..sc.clients.len() {
        let cw = quiet(c as u32 + 1);
        let sw = quiet(100 + c as u32 + 1);
        pipes.push(Pipe { from: cw.clone(), to: sw.clone(), taken: 0 });
        pipes.push(Pipe { from: sw.clone(), to: cw.clone(), taken: 0 });
        queue.borrow_mut().push_back(sw);
        conns.push(Connection::new(Sock(cw)));
        stats.calls += sc.clients[c].iter().map(|e| e.calls.len() as u64).sum::<u64>();
    }
    let pad = "p".repeat(sc.pad);
    // Safety of the borrow: every client future borrows its own connection for the whole run.
    let mut tasks: Vec<Option<Pin<Box<dyn Future<Output = ()> + '_>>>> = conns
        .iter_mut()
        .enumerate()
        .map(|(c, conn)| {
            let q = sc.quit_after.get(c).copied().unwrap_or(usize::MAX);
            let a = sc.abandon.get(c).copied().unwrap_or(false);
            Some(Box::pin(client_task(c as u32 + 1, sc.clients[c].clone(), conn, pad.clone(), q, a)) as Pin<Box<dyn Future<Output = ()> + '_>>)
        })
        .collect();
    let mut idle_rounds = 0u32;
    let mut rounds = 0u32;
    loop {
        rounds += 1;
        // (a panic inside the server is data: the event has no explanation in the specification)
        match std::panic::catch_unwind(std::panic::AssertUnwindSafe(|| poll_once(server_fut.as_mut()).is_ready())) {
            Ok(false) => {}
            Ok(true) => {
                ev(json!({"ev":"server_returned"}));
                break;
            }
            Err(_) => {
                ev(json!({"ev":"server_panicked"}));
                break;
            }
        }
        let force = idle_rounds >= 3;
        let mut moved = false;
        for p in pipes.iter_mut() {
            moved |= p.pump(&mut r, force);
        }
        let mut all_done = true;
        for (ci, t) in tasks.iter_mut().enumerate() {
            if let Some(f) = t {
                if poll_once(f.as_mut()).is_ready() {
                    *t = None;
                    moved = true;
                    let q = sc.quit_after.get(ci).copied().unwrap_or(usize::MAX);
                    if q < sc.clients[ci].len() || (q == sc.clients[ci].len() && sc.abandon.get(ci).copied().unwrap_or(false)) {
                        // the client hangs up: what it wrote still arrives, then the server reads end-of-stream and
                        // its writes to this client fail
                        pipes[2 * ci].pump(&mut r, true);
                        let sw = pipes[2 * ci].to.clone();
                        sw.borrow_mut().closed = true;
                        let calls = sw.borrow().write_calls;
                        sw.borrow_mut().fail_write_at = Some(calls + 1);
                        ev(json!({"ev":"hangup","c":ci + 1}));
                    }
                } else {
                    all_done = false;
                }
            }
        }
        if all_done {
            break;
        }
        idle_rounds = if moved { 0 } else { idle_rounds + 1 };
        if idle_rounds > 50 || rounds > 200_000 {
            // nobody can make progress any more: a reply that never came
            stats.stuck += 1;
            ev(json!({"ev":"stuck","waiting":tasks.iter().enumerate().filter(|(_, t)| t.is_some()).map(|(i, _)| i + 1).collect::<Vec<_>>()}));
            break;
        }
    }
    ev(json!({"ev":"end"}));
}

fn gen_call(r: &mut Rng) -> CallK {
    match r.below(6) {
        0 => CallK { k: "error".into(), n: 0 },
        1 => CallK { k: "oneway".into(), n: r.below(2) as u32 },
        2 => CallK { k: "more".into(), n: r.below(4) as u32 },
        _ => CallK { k: "plain".into(), n: 0 },
    }
}

pub fn gen(r: &mut Rng, sid: String) -> Scenario {
    let nclients = r.range(1, 3);
    let clients = (0..nclients)
        .map(|_| {
            (0..r.range(1, 5))
                .map(|_| {
                    if r.chance(1, 3) {
                        Exchange { chain: true, calls: (0..r.range(1, 5)).map(|_| gen_call(r)).collect() }
                    } else {
                        Exchange { chain: false, calls: vec![gen_call(r)] }
                    }
                })
                .collect()
        })
        .collect();
    let clients: Vec<Vec<Exchange>> = clients;
    // now and then one client (never all of them) hangs up early, possibly leaving calls unanswered
    let mut quit_after = vec![usize::MAX; clients.len()];
    let mut abandon = vec![false; clients.len()];
    if clients.len() >= 2 && r.chance(1, 3) {
        let c = r.below(clients.len() as u64) as usize;
        quit_after[c] = r.range(1, clients[c].len());
        abandon[c] = r.chance(1, 2);
    }
    Scenario { sid, clients, seed: r.next(), pad: *r.pick(&[0usize, 3, 200, 300, 700]), quit_after, abandon }
}
