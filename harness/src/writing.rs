//! C02 / C17 (outbound): histories of enqueue/send/flush operations against a capturing write half.
//!
//! Every operation is logged (`op`), every transport write is logged by the mock with the
//! documents it carried (`write`), and every return (`ret`) with its error class and the
//! hook-reported cursor / buffer length. The reference encoding of every submitted value is
//! serde_json's (`serde_json::to_vec` of the same value): its digest and length identify the
//! document in the trace; a value serde_json cannot encode either is a `bad` one.

use crate::{
    targets::{MEnum, RStrict, UErr},
    util::{block_on, err_class, ev, fnv, Rng},
    wire::{new_wire, Sock},
};
use serde::ser::{Error as _, SerializeMap};
use serde::{Serialize, Serializer};
use serde_json::{json, Value};
use zlink_core::{Call, Connection, Reply};

#[derive(Debug, Clone, PartialEq)]
pub enum Mode {
    /// `{"p":"<pad>"}`
    Pad,
    /// `{}`
    Empty,
    /// `{"<pad>":0}`
    Key,
    /// a map with a tuple key: refused by every JSON serializer
    BadKey,
    /// k entries, then `Error::custom`
    CustomAt(usize),
    /// the library's typed messages (derive output) instead of the dynamic document
    Typed,
}

/// A dynamic document: a map whose shape is chosen at run time.
#[derive(Debug, Clone)]
pub struct Doc {
    pub pad: String,
    pub mode: Mode,
}

impl Serialize for Doc {
    fn serialize<S: Serializer>(&self, s: S) -> Result<S::Ok, S::Error> {
        let mut m = s.serialize_map(None)?;
        match &self.mode {
            Mode::Pad | Mode::Typed => m.serialize_entry("p", &self.pad)?,
            Mode::Empty => {}
            Mode::Key => m.serialize_entry(&self.pad, &0u8)?,
            Mode::BadKey => {
                m.serialize_entry("p", &self.pad)?;
                m.serialize_entry(&(1u8, 2u8), &0u8)?;
            }
            Mode::CustomAt(k) => {
                for i in 0..*k {
                    m.serialize_entry(&format!("a{i}"), &self.pad)?;
                }
                return Err(S::Error::custom("refused on purpose"));
            }
        }
        m.end()
    }
}

/// A raw JSON string document of an exact length (`send_error` accepts any `Serialize`).
#[derive(Debug, Clone, Serialize)]
#[serde(transparent)]
pub struct Raw(pub String);

#[derive(Debug, Clone)]
pub struct Op {
    /// enqueue_call | send_call | send_reply | send_error | send_raw | flush
    pub api: String,
    pub mode: Mode,
    /// requested document length (the pad is sized to get as close as possible)
    pub want: usize,
    pub i: u32,
    /// oneway / more / upgrade (calls), continues (replies)
    pub flags: u8,
}

#[derive(Debug, Clone)]
pub struct Scenario {
    pub sid: String,
    pub ops: Vec<Op>,
    /// fail the k-th transport write (1-based), 0 = never
    pub fail_write_at: usize,
}

fn mode_to_json(m: &Mode) -> Value {
    match m {
        Mode::Pad => json!("pad"),
        Mode::Empty => json!("empty"),
        Mode::Key => json!("key"),
        Mode::BadKey => json!("badkey"),
        Mode::CustomAt(k) => json!(["custom", k]),
        Mode::Typed => json!("typed"),
    }
}
fn mode_from_json(v: &Value) -> Mode {
    match v.as_str() {
        Some("pad") => Mode::Pad,
        Some("empty") => Mode::Empty,
        Some("key") => Mode::Key,
        Some("badkey") => Mode::BadKey,
        Some("typed") => Mode::Typed,
        _ => Mode::CustomAt(v[1].as_u64().unwrap() as usize),
    }
}

impl Scenario {
    pub fn to_json(&self) -> Value {
        json!({"family":"writing","sid":self.sid,"fail_write_at":self.fail_write_at,
               "ops": self.ops.iter().map(|o| json!({"api":o.api,"mode":mode_to_json(&o.mode),"want":o.want,"i":o.i,"flags":o.flags})).collect::<Vec<_>>()})
    }
    pub fn from_json(v: &Value) -> Scenario {
        Scenario {
            sid: v["sid"].as_str().unwrap_or("replay").to_string(),
            fail_write_at: v["fail_write_at"].as_u64().unwrap_or(0) as usize,
            ops: v["ops"]
                .as_array()
                .unwrap()
                .iter()
                .map(|o| Op {
                    api: o["api"].as_str().unwrap().to_string(),
                    mode: mode_from_json(&o["mode"]),
                    want: o["want"].as_u64().unwrap() as usize,
                    i: o["i"].as_u64().unwrap_or(0) as u32,
                    flags: o["flags"].as_u64().unwrap_or(0) as u8,
                })
                .collect(),
        }
    }
}

/// The concrete value of an operation.
#[derive(Debug)]
enum Msg<'a> {
    CallDyn(Call<Doc>),
    CallTyped(Call<MEnum<'a>>),
    ReplyDyn(Reply<Doc>),
    ReplyTyped(Reply<RStrict>),
    ReplyNone(Reply<Doc>),
    ErrDyn(Doc),
    ErrTyped(UErr),
    Raw(Raw),
}

impl Msg<'_> {
    fn reference(&self) -> Option<Vec<u8>> {
        match self {
            Msg::CallDyn(c) => serde_json::to_vec(c).ok(),
            Msg::CallTyped(c) => serde_json::to_vec(c).ok(),
            Msg::ReplyDyn(r) | Msg::ReplyNone(r) => serde_json::to_vec(r).ok(),
            Msg::ReplyTyped(r) => serde_json::to_vec(r).ok(),
            Msg::ErrDyn(d) => serde_json::to_vec(d).ok(),
            Msg::ErrTyped(e) => serde_json::to_vec(e).ok(),
            Msg::Raw(r) => serde_json::to_vec(r).ok(),
        }
    }
}

/// Bit of `Op::flags`: the pad starts with a character the encoder has to escape (or a multi-byte one).
pub const SPICY: u8 = 32;

fn build(op: &Op, pad: usize) -> Msg<'static> {
    let p = if op.flags & SPICY != 0 {
        let pre = ["\u{0}", "\"", "\\", "\n", "é", "\u{1f}", "\u{7f}€", "\u{0}\u{0}"][op.i as usize % 8];
        format!("{pre}{}", "p".repeat(pad))
    } else {
        "p".repeat(pad)
    };
    let call_flags = |c: Call<Doc>| c.set_oneway(op.flags & 1 != 0).set_more(op.flags & 2 != 0).set_upgrade(op.flags & 4 != 0);
    match (op.api.as_str(), &op.mode) {
        ("enqueue_call" | "send_call", Mode::Typed) => Msg::CallTyped(
            Call::new(MEnum::Echo { i: op.i, pad: p })
                .set_oneway(op.flags & 1 != 0)
                .set_more(op.flags & 2 != 0),
        ),
        ("enqueue_call" | "send_call", m) => Msg::CallDyn(call_flags(Call::new(Doc { pad: p, mode: m.clone() }))),
        ("send_reply", Mode::Typed) => Msg::ReplyTyped(
            Reply::new(Some(RStrict { i: op.i, pad: p })).set_continues(if op.flags & 1 != 0 { Some(true) } else { None }),
        ),
        ("send_reply", Mode::Empty) => Msg::ReplyNone(Reply::new(None).set_continues(if op.flags & 1 != 0 { Some(false) } else { None })),
        ("send_reply", m) => Msg::ReplyDyn(
            Reply::new(Some(Doc { pad: p, mode: m.clone() })).set_continues(if op.flags & 1 != 0 { Some(true) } else { None }),
        ),
        ("send_error", Mode::Typed) => Msg::ErrTyped(if op.flags & 1 != 0 {
            UErr::NotFound
        } else {
            UErr::Bad { code: op.i as i32, msg: p }
        }),
        ("send_error", m) => Msg::ErrDyn(Doc { pad: p, mode: m.clone() }),
        ("send_raw", _) => Msg::Raw(Raw(p)),
        (a, _) => panic!("bad api {a}"),
    }
}

/// Build the value whose reference encoding is as close to `want` bytes as the shape allows.
fn sized(op: &Op) -> Msg<'static> {
    let m0 = build(op, 0);
    let base = match m0.reference() {
        Some(r) => r.len(),
        None => return build(op, op.want.min(64)),
    };
    let m1 = build(op, 1);
    let grows = m1.reference().map(|r| r.len() > base).unwrap_or(false);
    if !grows || op.want <= base {
        return m0;
    }
    build(op, op.want - base)
}

fn hook(conn: &Connection<Sock>) -> (usize, usize) {
    conn.write().verif_state()
}

pub struct Stats {
    pub scenarios: u64,
    pub ops: u64,
    pub refused: u64,
    pub overflow: u64,
    pub writes: u64,
}

/// Bit of `Op::flags`: the operation is abandoned at its first suspension (the transport write, which the
/// scripted write half suspends once before it takes any byte).
pub const CANCEL: u8 = 16;

/// Run an operation to completion, or poll it once and drop it if it suspends (`None`).
fn drive<F: std::future::Future>(f: F, cancel: bool) -> Option<F::Output> {
    if !cancel {
        return Some(block_on(f));
    }
    let mut f = Box::pin(f);
    match crate::util::poll_once(f.as_mut()) {
        std::task::Poll::Ready(v) => Some(v),
        std::task::Poll::Pending => None,
    }
}

pub fn run(sc: &Scenario, stats: &mut Stats) {
    let wire = new_wire(0);
    {
        let mut w = wire.borrow_mut();
        w.log_write_docs = true;
        if sc.fail_write_at > 0 {
            w.fail_write_at = Some(sc.fail_write_at);
        }
    }
    let mut conn = Connection::new(Sock(wire.clone()));
    let (blen0, pos0) = hook(&conn);
    ev(json!({"ev":"reset","sid":sc.sid,"B":crate::buffer_step(),"MAXB":crate::buffer_max(),"blen":blen0,"pos":pos0}));
    stats.scenarios += 1;
    for op in &sc.ops {
        stats.ops += 1;
        let cancel = op.flags & CANCEL != 0;
        {
            let mut w = wire.borrow_mut();
            w.write_yield = cancel;
            w.write_yielded = false;
        }
        if op.api == "rejoin" {
            // the connection is split into its halves and joined again: nothing that was enqueued is touched
            // (not an operation of the specification: no event)
            let (r, w) = conn.split();
            conn = Connection::join(r, w);
            continue;
        }
        if op.api == "chain" {
            // Connection::chain_call / Chain::append / Chain::send: every call of the chain is enqueued behind
            // whatever is enqueued already, `send` is one flush.  (While the chain borrows the connection the
            // hook cannot be read: these returns are logged as `retq`, without cursor values.)
            let n = 1 + (op.i as usize % 3);
            let calls: Vec<Call<Doc>> = (0..n)
                .map(|k| Call::new(Doc { pad: "c".repeat(op.want / (k + 1)), mode: Mode::Pad }).set_oneway(k == 1).set_more(k == 2 && op.flags & 2 != 0))
                .collect();
            let log_op = |c: &Call<Doc>| {
                let reference = serde_json::to_vec(c).unwrap();
                ev(json!({"ev":"op","kind":"enqueue","api":"chain","h":fnv(&reference),"len":reference.len(),"bad":false}));
            };
            let log_ret = |e: Option<&zlink_core::Error>| {
                let cls = match e {
                    None => "ok",
                    Some(e) => match err_class(e) {
                        "decode_err" => "ser_err",
                        o => o,
                    },
                };
                ev(json!({"ev":"retq","cls":cls}));
            };
            log_op(&calls[0]);
            let mut chain = match conn.chain_call::<Doc, RStrict, UErr>(&calls[0]) {
                Ok(ch) => {
                    log_ret(None);
                    Some(ch)
                }
                Err(e) => {
                    log_ret(Some(&e));
                    None
                }
            };
            for c in &calls[1..] {
                if let Some(ch) = chain.take() {
                    log_op(c);
                    match ch.append(c) {
                        Ok(ch) => {
                            log_ret(None);
                            chain = Some(ch);
                        }
                        Err(e) => log_ret(Some(&e)),
                    }
                }
            }
            let alive = chain.is_some();
            if alive {
                ev(json!({"ev":"op","kind":"flush","api":"chain_send","h":"","len":0,"bad":false}));
                let cls = match drive(chain.take().unwrap().send(), false) {
                    Some(Ok(_stream)) => "ok",
                    Some(Err(e)) => err_class(&e),
                    None => "cancelled",
                };
                let (blen, pos) = hook(&conn);
                ev(json!({"ev":"ret","cls":cls,"pos":pos,"blen":blen}));
            }
            continue;
        }
        if op.api == "flush" {
            ev(json!({"ev":"op","kind":"flush","api":"flush","h":"","len":0,"bad":false}));
            let r = drive(conn.flush(), cancel);
            let (blen, pos) = hook(&conn);
            let cls = match &r {
                None => "cancelled",
                Some(Ok(())) => "ok",
                Some(Err(e)) => err_class(e),
            };
            ev(json!({"ev":"ret","cls":cls,"pos":pos,"blen":blen}));
            continue;
        }
        let msg = sized(op);
        let reference = msg.reference();
        let (h, len, bad) = match &reference {
            Some(r) => (fnv(r), r.len(), false),
            None => (String::new(), 0, true),
        };
        let kind = if op.api == "enqueue_call" { "enqueue" } else { "send" };
        ev(json!({"ev":"op","kind":kind,"api":op.api,"h":h,"len":len,"bad":bad}));
        let r = std::panic::catch_unwind(std::panic::AssertUnwindSafe(|| match (&msg, op.api.as_str()) {
            (Msg::CallDyn(c), "enqueue_call") => Some(conn.enqueue_call(c)),
            (Msg::CallTyped(c), "enqueue_call") => Some(conn.enqueue_call(c)),
            (Msg::CallDyn(c), _) => drive(conn.send_call(c), cancel),
            (Msg::CallTyped(c), _) => drive(conn.send_call(c), cancel),
            (Msg::ReplyDyn(r), _) | (Msg::ReplyNone(r), _) => drive(conn.send_reply(r), cancel),
            (Msg::ReplyTyped(r), _) => drive(conn.send_reply(r), cancel),
            (Msg::ErrDyn(d), _) => drive(conn.send_error(d), cancel),
            (Msg::ErrTyped(e), _) => drive(conn.send_error(e), cancel),
            (Msg::Raw(x), _) => drive(conn.send_error(x), cancel),
        }));
        let (blen, pos) = hook(&conn);
        let r = match r {
            Ok(r) => r,
            Err(_) => {
                // a panic inside the code under test is data: no specification explains it
                ev(json!({"ev":"ret","cls":"panic","pos":pos,"blen":blen}));
                break;
            }
        };
        let r = match r {
            Some(r) => r,
            None => {
                // abandoned while the transport write was pending (no byte taken yet)
                ev(json!({"ev":"ret","cls":"cancelled","pos":pos,"blen":blen}));
                continue;
            }
        };
        let cls = match &r {
            Ok(()) => "ok",
            Err(e) => match err_class(e) {
                "decode_err" => {
                    stats.refused += 1;
                    "ser_err"
                }
                "overflow" => {
                    stats.overflow += 1;
                    "overflow"
                }
                o => o,
            },
        };
        ev(json!({"ev":"ret","cls":cls,"pos":pos,"blen":blen}));
    }
    stats.writes += wire.borrow().writes.len() as u64;
    ev(json!({"ev":"end"}));
}

// ------------------------------------------------------------------ generators

fn rand_mode(r: &mut Rng, allow_bad: bool) -> Mode {
    match r.below(12) {
        0 => Mode::Empty,
        1 | 2 => Mode::Key,
        3 | 4 | 5 => Mode::Typed,
        6 if allow_bad => Mode::BadKey,
        7 if allow_bad => Mode::CustomAt(r.range(0, 4)),
        _ => Mode::Pad,
    }
}

fn rand_api(r: &mut Rng) -> &'static str {
    *r.pick(&["enqueue_call", "enqueue_call", "enqueue_call", "send_call", "send_reply", "send_error", "send_raw", "flush", "chain", "rejoin"])
}

fn rand_len(r: &mut Rng) -> usize {
    let step = crate::buffer_step();
    // now and then a message of 17..40 growth steps (several of them make a batch of tens of kilobytes)
    if r.chance(1, 12) && crate::buffer_max() >= 1 << 20 {
        return r.range(17 * step, 40 * step);
    }
    match r.below(6) {
        0 => 0,
        1 => r.range(0, 2 * step),
        2 | 3 => (step * r.range(1, 3) + r.range(0, 6)).saturating_sub(3),
        4 => r.range(0, 5 * step),
        _ => r.range(0, 80),
    }
}

pub fn gen_history(r: &mut Rng, sid: String) -> Scenario {
    let n = r.range(1, 12);
    let ops = (0..n)
        .map(|_| Op {
            api: rand_api(r).into(),
            mode: rand_mode(r, true),
            want: rand_len(r),
            i: r.below(100000) as u32,
            // now and then a send / flush is abandoned while its transport write is pending
            flags: r.below(8) as u8 | if r.chance(1, 8) { CANCEL } else { 0 } | if r.chance(1, 6) { SPICY } else { 0 },
        })
        .collect();
    Scenario { sid, ops, fail_write_at: if r.chance(1, 12) { r.range(1, 3) } else { 0 } }
}

/// Every free-space value 0..=fmax at the moment a message starts x message sizes around it.
pub fn gen_free_sweep(out: &mut Vec<Scenario>, fmax: usize, stride: usize) {
    let step = crate::buffer_step();
    let first_min = 64; // shortest first message we can size freely ({"p":"..."} typed call is ~50 bytes)
    let mut f = 0;
    while f <= fmax {
        // free space f after a first message of document length L1: blen - (L1 + 1) = f
        let mut blen = step;
        while blen < f + 1 + first_min {
            blen += step;
        }
        let l1 = blen - f - 1;
        let mut sizes: Vec<usize> = vec![2, 8];
        for d in [-2i64, -1, 0, 1, 2] {
            for base in [f as i64, (f + step) as i64, (f + 2 * step) as i64] {
                let s = base + d;
                if s >= 2 {
                    sizes.push(s as usize);
                }
            }
        }
        sizes.sort();
        sizes.dedup();
        for (k, s) in sizes.iter().enumerate() {
            let api2 = ["enqueue_call", "send_raw", "send_call", "send_reply"][(f + k) % 4];
            let mode2 = if api2 == "send_raw" { Mode::Pad } else if *s < 12 { Mode::Key } else { Mode::Pad };
            out.push(Scenario {
                sid: format!("f{f}-{s}"),
                fail_write_at: 0,
                ops: vec![
                    Op { api: "enqueue_call".into(), mode: Mode::Pad, want: l1, i: 1, flags: 0 },
                    Op { api: api2.into(), mode: mode2, want: *s, i: 2, flags: 0 },
                    Op { api: "flush".into(), mode: Mode::Pad, want: 0, i: 0, flags: 0 },
                    Op { api: "send_reply".into(), mode: Mode::Typed, want: 40 + (f % 7), i: 3, flags: 1 },
                    Op { api: "flush".into(), mode: Mode::Pad, want: 0, i: 0, flags: 0 },
                ],
            });
        }
        // calls that carry flags (the envelope appends them behind the method's own members): every length from
        // just fitting to 16 bytes too long, so that the free space ends at every position inside the flag members
        for d in 0..=16usize {
            let flags = [1u8, 2, 4, 3, 7, 6][(f + d) % 6];
            let api2 = if (f + d) % 2 == 0 { "send_call" } else { "enqueue_call" };
            out.push(Scenario {
                sid: format!("f{f}-flag{d}"),
                fail_write_at: 0,
                ops: vec![
                    Op { api: "enqueue_call".into(), mode: Mode::Pad, want: l1, i: 1, flags: 0 },
                    Op { api: api2.into(), mode: Mode::Pad, want: (f + d).max(40), i: 2, flags },
                    Op { api: "flush".into(), mode: Mode::Pad, want: 0, i: 0, flags: 0 },
                ],
            });
        }
        f += stride;
    }
}

/// Lowered-limit builds: every document length around the limit, with and without messages
/// already enqueued, through enqueue and through send.
pub fn gen_limit_sweep(out: &mut Vec<Scenario>) {
    let step = crate::buffer_step();
    let maxb = crate::buffer_max();
    if maxb > 1 << 20 {
        return;
    }
    let lo = maxb.saturating_sub(2 * step + 2).max(2);
    for pending in [0usize, 2, 9, step + 3] {
        for len in lo..=(maxb + step + 2) {
            for (a, api) in ["enqueue_call", "send_raw"].iter().enumerate() {
                let mut ops = Vec::new();
                if pending > 0 {
                    ops.push(Op { api: "enqueue_call".into(), mode: if pending < 6 { Mode::Empty } else { Mode::Key }, want: pending, i: 0, flags: 0 });
                }
                let want = len.saturating_sub(pending.min(len));
                if want < 2 {
                    continue;
                }
                ops.push(Op { api: (*api).into(), mode: if want < 8 { Mode::Key } else { Mode::Pad }, want, i: 1, flags: 0 });
                ops.push(Op { api: "flush".into(), mode: Mode::Pad, want: 0, i: 0, flags: 0 });
                ops.push(Op { api: "send_raw".into(), mode: Mode::Pad, want: 2, i: 0, flags: 0 });
                out.push(Scenario { sid: format!("l{pending}-{len}-{a}"), ops, fail_write_at: 0 });
            }
        }
    }
}

/// Scenario from a TLC-exported WriteConn behaviour: `{"ops":[{"kind":"send","len":3,"bad":false},..]}`.
pub fn from_model_behaviour(v: &Value, sid: String) -> Scenario {
    let ops = v["ops"]
        .as_array()
        .unwrap()
        .iter()
        .map(|o| {
            let kind = o["kind"].as_str().unwrap();
            let len = o["len"].as_u64().unwrap() as usize;
            let bad = o["bad"].as_bool().unwrap();
            match kind {
                "flush" => Op { api: "flush".into(), mode: Mode::Pad, want: 0, i: 0, flags: 0 },
                "enqueue" => Op {
                    api: "enqueue_call".into(),
                    mode: if bad { Mode::CustomAt(0) } else if len < 6 { Mode::Empty } else { Mode::Key },
                    want: len,
                    i: 0,
                    flags: 0,
                },
                _ => {
                    if bad {
                        Op { api: "send_error".into(), mode: Mode::CustomAt(0), want: len, i: 0, flags: 0 }
                    } else {
                        Op { api: "send_raw".into(), mode: Mode::Pad, want: len, i: 0, flags: 0 }
                    }
                }
            }
        })
        .collect();
    Scenario { sid, ops, fail_write_at: 0 }
}
