//! C08 / C09 / C10 / C18: `Server::run` polled by hand over scripted listener, sockets and service.
//!
//! The environment (the driver) acts only between polls of the server future: connect a client,
//! make bytes available on a connection (whole call frames or cuts inside a frame), close it,
//! inject a read error, release a stream item, poll the server. The scripted service suspends
//! once inside every `handle`, so the environment can act between any two served calls.
//! Everything observable is logged: connects, accepts, injected bytes (in complete call frames),
//! every `handle`, every transport write with the replies it carried (parsed), drops, the exit of
//! the server future.

use crate::{
    util::{ev, poll_once, Rng},
    wire::{new_wire, split_frames, Sock, Wire},
};
use futures_util::Stream;
use serde::{Deserialize, Serialize};
use serde_json::{json, Value};
use std::{
    cell::RefCell,
    collections::VecDeque,
    future::poll_fn,
    pin::Pin,
    rc::Rc,
    task::{Context, Poll},
};
use zlink_core::{service::MethodReply, Call, Connection, Listener, Reply, Server, Service};

// ------------------------------------------------------------------ scenario

#[derive(Debug, Clone, PartialEq)]
pub enum Kind {
    Plain(usize),
    Oneway,
    OnewayErr,
    Error,
    /// stream of n items, then the stream ends; `fin`: the last item carries continues=false
    Stream(u32, bool),
    /// a call the service cannot decode (unknown method / wrong parameter types)
    Bad(u8),
    /// bytes that are no JSON at all
    Garbage,
}

#[derive(Debug, Clone, PartialEq)]
pub enum Step {
    Connect(usize),
    /// make the next `frames` call frames of connection c available plus `extra` bytes of the one behind
    Send { c: usize, frames: usize, extra: usize },
    Close(usize),
    ReadErr(usize),
    /// release the next item (or the end) of the oldest unfinished stream of connection c
    Tick(usize),
    Poll,
}

#[derive(Debug, Clone)]
pub struct ConnScript {
    pub calls: Vec<Kind>,
    pub faulty: bool,
    /// fail the k-th transport write on this connection (1-based; 0 = never)
    pub fail_write_at: usize,
    /// only that one: the transport accepts writes again afterwards
    pub fail_once: bool,
    /// what the failing write hands over before it reports the error: 0 nothing, 1 a prefix, 2 everything
    pub fail_deliver: u8,
}

#[derive(Debug, Clone)]
pub struct Scenario {
    pub sid: String,
    pub conns: Vec<ConnScript>,
    pub steps: Vec<Step>,
    /// whole-frame injections only and no faults: the fairness counters are meaningful
    pub fair: bool,
}

fn kind_to_json(k: &Kind) -> Value {
    match k {
        Kind::Plain(p) => json!({"k":"plain","a":p,"f":false}),
        Kind::Oneway => json!({"k":"oneway","a":0,"f":false}),
        Kind::OnewayErr => json!({"k":"onewayerr","a":0,"f":false}),
        Kind::Error => json!({"k":"error","a":0,"f":false}),
        Kind::Stream(n, f) => json!({"k":"stream","a":n,"f":f}),
        Kind::Bad(b) => json!({"k":"bad","a":b,"f":false}),
        Kind::Garbage => json!({"k":"garbage","a":0,"f":false}),
    }
}
fn kind_from_json(v: &Value) -> Kind {
    let a = v["a"].as_u64().unwrap_or(0);
    match v["k"].as_str().unwrap() {
        "plain" => Kind::Plain(a as usize),
        "oneway" => Kind::Oneway,
        "onewayerr" => Kind::OnewayErr,
        "error" => Kind::Error,
        "stream" => Kind::Stream(a as u32, v["f"].as_bool().unwrap_or(false)),
        "bad" => Kind::Bad(a as u8),
        _ => Kind::Garbage,
    }
}

impl Scenario {
    pub fn to_json(&self) -> Value {
        json!({"family":"server","sid":self.sid,"fair":self.fair,
            "conns": self.conns.iter().map(|c| json!({"calls": c.calls.iter().map(kind_to_json).collect::<Vec<_>>(),
                                                     "faulty": c.faulty, "fail_write_at": c.fail_write_at,
                                                     "fail_once": c.fail_once, "fail_deliver": c.fail_deliver})).collect::<Vec<_>>(),
            "steps": self.steps.iter().map(|s| match s {
                Step::Connect(c) => json!(["connect", c]),
                Step::Send{c,frames,extra} => json!(["send", c, frames, extra]),
                Step::Close(c) => json!(["close", c]),
                Step::ReadErr(c) => json!(["readerr", c]),
                Step::Tick(c) => json!(["tick", c]),
                Step::Poll => json!(["poll"]),
            }).collect::<Vec<_>>()})
    }
    pub fn from_json(v: &Value) -> Scenario {
        let u = |x: &Value| x.as_u64().unwrap() as usize;
        Scenario {
            sid: v["sid"].as_str().unwrap_or("replay").into(),
            fair: v["fair"].as_bool().unwrap_or(false),
            conns: v["conns"]
                .as_array()
                .unwrap()
                .iter()
                .map(|c| ConnScript {
                    calls: c["calls"].as_array().unwrap().iter().map(kind_from_json).collect(),
                    faulty: c["faulty"].as_bool().unwrap_or(false),
                    fail_write_at: c["fail_write_at"].as_u64().unwrap_or(0) as usize,
                    fail_once: c["fail_once"].as_bool().unwrap_or(false),
                    fail_deliver: c["fail_deliver"].as_u64().unwrap_or(0) as u8,
                })
                .collect(),
            steps: v["steps"]
                .as_array()
                .unwrap()
                .iter()
                .map(|s| match s[0].as_str().unwrap() {
                    "connect" => Step::Connect(u(&s[1])),
                    "send" => Step::Send { c: u(&s[1]), frames: u(&s[2]), extra: u(&s[3]) },
                    "close" => Step::Close(u(&s[1])),
                    "readerr" => Step::ReadErr(u(&s[1])),
                    "tick" => Step::Tick(u(&s[1])),
                    _ => Step::Poll,
                })
                .collect(),
        }
    }
}

// ------------------------------------------------------------------ mocks

#[derive(Debug)]
struct L(Rc<RefCell<VecDeque<Wire>>>);
impl Listener for L {
    type Socket = Sock;
    async fn accept(&mut self) -> zlink_core::Result<Connection<Sock>> {
        poll_fn(|_cx| match self.0.borrow_mut().pop_front() {
            Some(w) => {
                ev(json!({"ev":"accept","c": w.borrow().tag}));
                Poll::Ready(Ok(Connection::new(Sock(w))))
            }
            None => Poll::Pending,
        })
        .await
    }
}

#[derive(Debug, Serialize, Deserialize)]
#[serde(tag = "method", content = "parameters")]
enum M {
    #[serde(rename = "t.Echo")]
    Echo { c: u32, i: u32, pad: String },
    #[serde(rename = "t.Fail")]
    Fail { c: u32, i: u32 },
    #[serde(rename = "t.Sub")]
    Sub { c: u32, i: u32, n: u32, fin: bool },
}
#[derive(Debug, Serialize)]
struct Rp {
    c: u32,
    i: u32,
    #[serde(skip_serializing_if = "Option::is_none")]
    item: Option<u32>,
    /// the call's pad comes back, so that replies have every size relative to the write buffer, too
    #[serde(skip_serializing_if = "String::is_empty")]
    pad: String,
}
#[derive(Debug, Serialize)]
#[serde(tag = "error", content = "parameters")]
enum E {
    #[serde(rename = "t.Failed")]
    Failed { c: u32, i: u32 },
}

/// Shared control block of one reply stream: how many items the driver has released.
#[derive(Debug, Default)]
struct StreamCtl {
    c: u32,
    i: u32,
    n: u32,
    fin: bool,
    released: u32, // n + 1 = the end is released too
    finished: bool,
}
type Ctl = Rc<RefCell<StreamCtl>>;

#[derive(Debug)]
struct St {
    ctl: Ctl,
    k: u32,
}
impl Stream for St {
    type Item = Reply<Rp>;
    fn poll_next(mut self: Pin<&mut Self>, _cx: &mut Context<'_>) -> Poll<Option<Self::Item>> {
        let (c, i, n, fin, released) = {
            let s = self.ctl.borrow();
            (s.c, s.i, s.n, s.fin, s.released)
        };
        if self.k < n {
            if self.k < released {
                self.k += 1;
                let cont = !(fin && self.k == n);
                ev(json!({"ev":"stream_item","c":c,"i":i,"j":self.k}));
                Poll::Ready(Some(Reply::new(Some(Rp { c, i, item: Some(self.k), pad: "s".repeat((i as usize * 37 + self.k as usize * 53) % 320) })).set_continues(Some(cont))))
            } else {
                Poll::Pending
            }
        } else if released > n {
            self.ctl.borrow_mut().finished = true;
            ev(json!({"ev":"stream_end","c":c,"i":i}));
            Poll::Ready(None)
        } else {
            Poll::Pending
        }
    }
}

struct Svc {
    streams: Rc<RefCell<Vec<Ctl>>>,
    yield_in_handle: bool,
}
impl Service for Svc {
    type MethodCall<'de> = M;
    type ReplyParams<'ser> = Rp;
    type ReplyStreamParams = Rp;
    type ReplyStream = St;
    type ReplyError<'ser> = E;
    async fn handle<'ser>(
        &'ser mut self,
        call: Call<Self::MethodCall<'_>>,
    ) -> MethodReply<Self::ReplyParams<'ser>, Self::ReplyStream, Self::ReplyError<'ser>> {
        let (c, i) = match call.method() {
            M::Echo { c, i, .. } | M::Fail { c, i } | M::Sub { c, i, .. } => (*c, *i),
        };
        ev(json!({"ev":"handle","c":c,"i":i,"oneway":call.oneway(),"more":call.more()}));
        if self.yield_in_handle {
            let mut yielded = false;
            poll_fn(|_cx| {
                if yielded {
                    Poll::Ready(())
                } else {
                    yielded = true;
                    Poll::Pending
                }
            })
            .await;
        }
        match call.method() {
            M::Echo { c, i, pad } => MethodReply::Single(Some(Rp { c: *c, i: *i, item: None, pad: pad.clone() })),
            M::Fail { c, i } => MethodReply::Error(E::Failed { c: *c, i: *i }),
            M::Sub { c, i, n, fin } => {
                let ctl: Ctl = Rc::new(RefCell::new(StreamCtl { c: *c, i: *i, n: *n, fin: *fin, released: 0, finished: false }));
                self.streams.borrow_mut().push(ctl.clone());
                MethodReply::Multi(St { ctl, k: 0 })
            }
        }
    }
}

fn call_frame(c: usize, i: usize, k: &Kind) -> Vec<u8> {
    let s = match k {
        Kind::Plain(p) => format!("{{\"method\":\"t.Echo\",\"parameters\":{{\"c\":{c},\"i\":{i},\"pad\":\"{}\"}}}}", "p".repeat(*p)),
        Kind::Oneway => format!("{{\"oneway\":true,\"method\":\"t.Echo\",\"parameters\":{{\"c\":{c},\"i\":{i},\"pad\":\"\"}}}}"),
        Kind::OnewayErr => format!("{{\"method\":\"t.Fail\",\"parameters\":{{\"c\":{c},\"i\":{i}}},\"oneway\":true}}"),
        Kind::Error => format!("{{\"method\":\"t.Fail\",\"parameters\":{{\"c\":{c},\"i\":{i}}}}}"),
        Kind::Stream(n, f) => format!("{{\"method\":\"t.Sub\",\"parameters\":{{\"c\":{c},\"i\":{i},\"n\":{n},\"fin\":{f}}},\"more\":true}}"),
        Kind::Bad(0) => format!("{{\"method\":\"t.Nope\",\"parameters\":{{\"c\":{c},\"i\":{i}}}}}"),
        Kind::Bad(1) => format!("{{\"method\":\"t.Echo\",\"parameters\":{{\"c\":\"x\",\"i\":{i},\"pad\":7}}}}"),
        Kind::Bad(2) => "{\"parameters\":{}}".to_string(),
        // longer calls the service cannot decode, full of characters of two, three and four bytes at every
        // alignment (whatever the server does with such a frame - log it, quote it - concerns this connection only)
        Kind::Bad(b) => format!(
            "{{\"method\":\"t.N{}pe\",\"parameters\":{{\"c\":{c},\"i\":{i},\"text\":\"{}{}\"}}}}",
            "o".repeat(*b as usize % 5),
            "x".repeat((*b as usize * 7 + c + i) % 9),
            "é€😀".repeat(8 + (*b as usize % 4) * 9)
        ),
        Kind::Garbage => format!("\u{1}garbage {c} {i} }}{{"),
    };
    let mut v = s.into_bytes();
    v.push(0);
    v
}

/// Parse the frames of one transport write into the abstract replies the specification knows.
fn parse_written(buf: &[u8]) -> (Vec<Value>, usize) {
    let (frames, complete) = split_frames(buf);
    let n = if complete { frames.len() } else { frames.len() - 1 };
    let tail = if complete { 0 } else { frames[frames.len() - 1].len() };
    let v = frames[..n]
        .iter()
        .map(|f| match serde_json::from_slice::<Value>(f) {
            Ok(v) => {
                let p = v.get("parameters").cloned().unwrap_or(Value::Null);
                let c = p.get("c").and_then(|x| x.as_u64()).unwrap_or(999);
                let i = p.get("i").and_then(|x| x.as_u64()).unwrap_or(999);
                let j = p.get("item").and_then(|x| x.as_u64()).unwrap_or(0);
                let t = if v.get("error").is_some() {
                    if v["error"] == "t.Failed" { "error" } else { "other_error" }
                } else if j > 0 {
                    "item"
                } else {
                    "reply"
                };
                // continues: 0 absent, 1 false, 2 true
                let cont = match v.get("continues").and_then(|x| x.as_bool()) {
                    None => 0,
                    Some(false) => 1,
                    Some(true) => 2,
                };
                json!({"t":t,"c":c,"i":i,"j":j,"cont":cont})
            }
            Err(_) => json!({"t":"unparsable","c":999,"i":999,"j":0,"cont":0}),
        })
        .collect();
    (v, tail)
}

pub struct Stats {
    pub scenarios: u64,
    pub handled: u64,
    pub writes: u64,
    pub exits: u64,
}

pub fn run(sc: &Scenario, stats: &mut Stats) {
    stats.scenarios += 1;
    let n = sc.conns.len();
    let wires: Vec<Wire> = (0..n).map(|c| new_wire(c as u32)).collect();
    for (c, w) in wires.iter().enumerate() {
        let mut w = w.borrow_mut();
        w.log_reads = false;
        w.log_writes = true;
        w.write_yield = true;
        if sc.conns[c].fail_write_at > 0 {
            w.fail_write_at = Some(sc.conns[c].fail_write_at);
            w.fail_write_once = sc.conns[c].fail_once;
            w.fail_deliver = sc.conns[c].fail_deliver;
        }
        w.on_failed_write = Some(crate::wire::OnWrite(Box::new(|tag, buf| {
            let (frames, tail) = parse_written(buf);
            ev(json!({"ev":"wrote_partial","w":tag,"frames":frames,"tail":tail}));
        })));
        w.on_write = Some(crate::wire::OnWrite(Box::new(|tag, buf| {
            let (frames, tail) = parse_written(buf);
            ev(json!({"ev":"wrote","w":tag,"frames":frames,"tail":tail}));
        })));
    }
    // byte streams of the clients, with the end offset of every call frame
    let streams: Vec<Vec<u8>> = sc
        .conns
        .iter()
        .enumerate()
        .map(|(c, s)| s.calls.iter().enumerate().flat_map(|(i, k)| call_frame(c, i + 1, k)).collect())
        .collect();
    let ends: Vec<Vec<usize>> = sc
        .conns
        .iter()
        .enumerate()
        .map(|(c, s)| {
            let mut e = 0;
            s.calls
                .iter()
                .enumerate()
                .map(|(i, k)| {
                    e += call_frame(c, i + 1, k).len();
                    e
                })
                .collect()
        })
        .collect();
    ev(json!({"ev":"reset","sid":sc.sid,"fair":sc.fair,"n":n,
        "conns": sc.conns.iter().map(|c| json!({"calls": c.calls.iter().map(kind_to_json).collect::<Vec<_>>(),
                                                 "faulty": c.faulty || c.fail_write_at > 0 || c.calls.iter().any(|k| matches!(k, Kind::Bad(_) | Kind::Garbage)),
                                                 // the only fault is a failing write or a call that cannot be decoded: what
                                                 // reaches the client is still judged
                                                 "wonly": !c.faulty && (c.fail_write_at > 0 || c.calls.iter().any(|k| matches!(k, Kind::Bad(_) | Kind::Garbage)))})).collect::<Vec<_>>()}));
    let q = Rc::new(RefCell::new(VecDeque::new()));
    let svc_streams: Rc<RefCell<Vec<Ctl>>> = Default::default();
    let server = Server::new(L(q.clone()), Svc { streams: svc_streams.clone(), yield_in_handle: true });
    let mut fut: Pin<Box<dyn std::future::Future<Output = zlink_core::Result<()>>>> = Box::pin(server.run());
    let mut sent = vec![0usize; n]; // bytes made available per connection
    let mut connected = vec![false; n];
    let mut dropped_logged = vec![false; n];
    let mut exited = false;

    let mut do_poll = |fut: &mut Pin<Box<dyn std::future::Future<Output = zlink_core::Result<()>>>>, exited: &mut bool, dropped_logged: &mut Vec<bool>| {
        if *exited {
            return;
        }
        let r = std::panic::catch_unwind(std::panic::AssertUnwindSafe(|| poll_once(fut.as_mut())));
        match r {
            Ok(Poll::Pending) => {}
            Ok(Poll::Ready(res)) => {
                let ok: bool = match &res {
                    Ok(()) => true,
                    Err(_) => false,
                };
                ev(json!({"ev":"exit","ok":ok}));
                *exited = true;
            }
            Err(_) => {
                ev(json!({"ev":"exit","ok":false,"panic":true}));
                *exited = true;
            }
        }
        for (c, w) in wires.iter().enumerate() {
            let w = w.borrow();
            if w.read_dropped && w.write_dropped && !dropped_logged[c] {
                dropped_logged[c] = true;
                ev(json!({"ev":"dropped","c":c}));
            }
        }
    };

    let complete_frames = |c: usize, bytes: usize| ends[c].iter().filter(|e| **e <= bytes).count();
    let apply = |s: &Step, sent: &mut Vec<usize>, connected: &mut Vec<bool>| match s {
        Step::Connect(c) => {
            if !connected[*c] {
                connected[*c] = true;
                ev(json!({"ev":"connect","c":c}));
                q.borrow_mut().push_back(wires[*c].clone());
            }
        }
        Step::Send { c, frames, extra } => {
            let have = complete_frames(*c, sent[*c]);
            let target_frames = (have + frames).min(ends[*c].len());
            let base = if target_frames == 0 { 0 } else { ends[*c][target_frames - 1] };
            let upto = (base.max(sent[*c]) + extra).min(streams[*c].len());
            if upto > sent[*c] {
                wires[*c].borrow_mut().inb.push_back(Some(streams[*c][sent[*c]..upto].to_vec()));
                sent[*c] = upto;
                let avail = complete_frames(*c, upto);
                ev(json!({"ev":"inject","c":c,"avail":avail,"partial": upto > if avail == 0 { 0 } else { ends[*c][avail - 1] }}));
            }
        }
        Step::Close(c) => {
            wires[*c].borrow_mut().closed = true;
            ev(json!({"ev":"fault","c":c,"type":"close"}));
        }
        Step::ReadErr(c) => {
            wires[*c].borrow_mut().read_err = true;
            ev(json!({"ev":"fault","c":c,"type":"read_err"}));
        }
        Step::Tick(c) => {
            let st = svc_streams.borrow();
            if let Some(ctl) = st.iter().find(|s| s.borrow().c as usize == *c && s.borrow().released <= s.borrow().n) {
                let mut s = ctl.borrow_mut();
                s.released += 1;
                ev(json!({"ev":"tick","c":c,"i":s.i,"released":s.released}));
            }
        }
        Step::Poll => {}
    };

    for s in &sc.steps {
        if *s == Step::Poll {
            do_poll(&mut fut, &mut exited, &mut dropped_logged);
        } else {
            apply(s, &mut sent, &mut connected);
        }
    }
    // Drain: connect everybody, deliver everything, release every stream, poll until nothing moves.
    for c in 0..n {
        apply(&Step::Connect(c), &mut sent, &mut connected);
    }
    do_poll(&mut fut, &mut exited, &mut dropped_logged);
    for c in 0..n {
        apply(&Step::Send { c, frames: usize::MAX / 4, extra: 0 }, &mut sent, &mut connected);
    }
    let mut idle = 0;
    let mut rounds = 0;
    while idle < 3 && rounds < 400 && !exited {
        rounds += 1;
        let before = crate::util::log_lines();
        // release whatever streams exist now
        let pending_ticks: Vec<usize> = svc_streams
            .borrow()
            .iter()
            .filter(|s| s.borrow().released <= s.borrow().n)
            .map(|s| s.borrow().c as usize)
            .collect();
        for c in pending_ticks {
            apply(&Step::Tick(c), &mut sent, &mut connected);
        }
        do_poll(&mut fut, &mut exited, &mut dropped_logged);
        if crate::util::log_lines() == before {
            idle += 1;
        } else {
            idle = 0;
        }
    }
    for w in &wires {
        stats.writes += w.borrow().writes.len() as u64;
    }
    if exited {
        stats.exits += 1;
    }
    ev(json!({"ev":"quiesce","exited":exited}));
    drop(fut);
    for w in &wires {
        w.borrow_mut().on_write = None;
    }
}

// ------------------------------------------------------------------ generators

fn rand_kind(r: &mut Rng, allow_stream: bool) -> Kind {
    let step = crate::buffer_step();
    match r.below(14) {
        0..=4 => Kind::Plain(match r.below(5) {
            0 => 0,
            1 => r.range(0, 30),
            2 => match r.below(3) {
                0 => (step + r.range(0, 8)).saturating_sub(60),
                // ... and replies (which carry the pad back) that end around a growth step of the write buffer
                _ => (step * r.range(1, 3) + r.range(0, 40)).saturating_sub(80).min(crate::buffer_max() / 4),
            },
            // a call that needs many growth steps (and stays far below the limit)
            // (production constants only: with a lowered limit a burst of such calls would legitimately overflow)
            3 if crate::buffer_max() >= 1 << 20 => r.range(17 * step, 40 * step),
            _ => r.range(0, 3 * step).min(crate::buffer_max() / 4),
        }),
        5 | 6 => Kind::Oneway,
        7 => Kind::OnewayErr,
        8 | 9 => Kind::Error,
        _ if allow_stream => Kind::Stream(r.below(5) as u32, r.chance(1, 2)),
        _ => Kind::Plain(0),
    }
}

/// Random interleaving of connects, sends (bursts, cuts inside frames), ticks and polls.
fn rand_steps(r: &mut Rng, conns: &[ConnScript], whole_frames: bool, faults: &[(usize, u8)]) -> Vec<Step> {
    let n = conns.len();
    let mut steps = Vec::new();
    let mut left: Vec<usize> = conns.iter().map(|c| c.calls.len()).collect();
    let mut connected = vec![false; n];
    let mut budget = 200;
    let mut fault_done = vec![false; faults.len()];
    while budget > 0 && (left.iter().any(|l| *l > 0) || connected.iter().any(|c| !*c)) {
        budget -= 1;
        match r.below(10) {
            0 | 1 => {
                if let Some(c) = (0..n).filter(|c| !connected[*c]).nth(0) {
                    let c = if r.chance(1, 2) { c } else { (0..n).filter(|c| !connected[*c]).last().unwrap() };
                    connected[c] = true;
                    steps.push(Step::Connect(c));
                }
            }
            2..=5 => {
                let c = r.below(n as u64) as usize;
                if connected[c] && left[c] > 0 {
                    let k = if r.chance(1, 2) { 1 } else { r.range(1, left[c]) };
                    left[c] -= k;
                    // (the part of the following frame that is delivered with this burst: a few bytes, or most of a large call)
                    let extra = if whole_frames || left[c] == 0 || r.chance(2, 3) {
                        0
                    } else if r.chance(1, 2) {
                        r.range(1, 40)
                    } else {
                        r.range(1, 36 * crate::buffer_step())
                    };
                    steps.push(Step::Send { c, frames: k, extra });
                }
            }
            6 => steps.push(Step::Tick(r.below(n as u64) as usize)),
            _ => steps.push(Step::Poll),
        }
        for (fi, (c, ty)) in faults.iter().enumerate() {
            if !fault_done[fi] && connected[*c] && r.chance(1, 12) {
                fault_done[fi] = true;
                steps.push(if *ty == 0 { Step::Close(*c) } else { Step::ReadErr(*c) });
            }
        }
    }
    for (fi, (c, ty)) in faults.iter().enumerate() {
        if !fault_done[fi] {
            steps.push(if *ty == 0 { Step::Close(*c) } else { Step::ReadErr(*c) });
        }
    }
    steps
}

/// C08: healthy connections only.
pub fn gen_healthy(r: &mut Rng, sid: String, streams: bool) -> Scenario {
    let n = r.range(1, 4);
    let conns: Vec<ConnScript> = (0..n)
        .map(|_| ConnScript { calls: (0..r.below(6)).map(|_| rand_kind(r, streams)).collect(), faulty: false, fail_write_at: 0, fail_once: false, fail_deliver: 0 })
        .collect();
    let steps = rand_steps(r, &conns, false, &[]);
    Scenario { sid, conns, steps, fair: false }
}

/// C10 "while the stream is open other clients are still served": a stream that always has its next item at
/// hand (every item released before the server gets to run) next to clients whose complete calls arrive
/// meanwhile; whole frames only, so that a call is ready as soon as it is available (`fair`).
pub fn gen_hot_stream(r: &mut Rng, sid: String) -> Scenario {
    let n = r.range(2, 4);
    let k = r.range(n + 3, n + 7) as u32;
    let mut conns: Vec<ConnScript> = Vec::new();
    for c in 0..n {
        let calls: Vec<Kind> = if c == 0 {
            let mut v = vec![Kind::Stream(k, r.chance(1, 2))];
            if r.chance(1, 2) {
                v.push(Kind::Plain(0));
            }
            v
        } else {
            (0..r.range(1, 3)).map(|_| if r.chance(1, 5) { Kind::Error } else { Kind::Plain(r.range(0, 8)) }).collect()
        };
        conns.push(ConnScript { calls, faulty: false, fail_write_at: 0, fail_once: false, fail_deliver: 0 });
    }
    let mut steps = vec![Step::Connect(0), Step::Poll];
    let early: Vec<usize> = (1..n).filter(|_| r.chance(1, 2)).collect();
    for c in &early {
        steps.push(Step::Connect(*c));
    }
    steps.push(Step::Poll);
    steps.push(Step::Send { c: 0, frames: 1, extra: 0 });
    steps.push(Step::Poll);
    // the whole stream becomes available at once (or after the first item went out)
    let first = if r.chance(1, 3) { 1 } else { 0 };
    for _ in 0..first {
        steps.push(Step::Tick(0));
        steps.push(Step::Poll);
    }
    for _ in first..(k as usize + 1) {
        steps.push(Step::Tick(0));
    }
    // ... and the others show up with complete calls
    let mut order: Vec<usize> = (1..n).collect();
    for i in (1..order.len()).rev() {
        order.swap(i, r.below(i as u64 + 1) as usize);
    }
    for c in order {
        if !early.contains(&c) {
            steps.push(Step::Connect(c));
        }
        steps.push(Step::Send { c, frames: if r.chance(1, 2) { 1 } else { conns[c].calls.len() }, extra: 0 });
        if r.chance(1, 3) {
            steps.push(Step::Poll);
        }
    }
    for _ in 0..6 {
        steps.push(Step::Poll);
    }
    Scenario { sid, conns, steps, fair: true }
}

/// C10 with three to five streams open at the same time: items are released in any order, the streams end in any
/// order (the oldest first, a middle one first), calls are pipelined behind some of them.
pub fn gen_many_streams(r: &mut Rng, sid: String) -> Scenario {
    let n = r.range(3, 5);
    let mut conns: Vec<ConnScript> = Vec::new();
    for _ in 0..n {
        let mut calls = vec![Kind::Stream(r.range(1, 4) as u32, r.chance(1, 2))];
        if r.chance(1, 2) {
            calls.push(Kind::Plain(r.range(0, 6)));
        }
        conns.push(ConnScript { calls, faulty: false, fail_write_at: 0, fail_once: false, fail_deliver: 0 });
    }
    let mut steps = Vec::new();
    for c in 0..n {
        steps.push(Step::Connect(c));
    }
    steps.push(Step::Poll);
    for c in 0..n {
        steps.push(Step::Send { c, frames: conns[c].calls.len(), extra: 0 });
        steps.push(Step::Poll);
    }
    // every stream is parked now; release items and ends in a random order
    let mut left: Vec<usize> = conns.iter().map(|c| if let Kind::Stream(k, _) = c.calls[0] { k as usize + 1 } else { 0 }).collect();
    while left.iter().any(|l| *l > 0) {
        let c = r.below(n as u64) as usize;
        if left[c] > 0 {
            // sometimes a stream runs to its end in one go (it ends while the others stay open)
            let k = if r.chance(1, 3) { left[c] } else { 1 };
            for _ in 0..k {
                steps.push(Step::Tick(c));
            }
            left[c] -= k;
            steps.push(Step::Poll);
            if r.chance(1, 2) {
                steps.push(Step::Poll);
            }
        }
    }
    for _ in 0..4 {
        steps.push(Step::Poll);
    }
    Scenario { sid, conns, steps, fair: false }
}

/// C08 with a call the service cannot decode somewhere in a connection's traffic, calls pipelined behind it: the
/// calls in front of it are answered, nothing behind it is handled or answered (replies are paired with calls by
/// position, so an unanswered call in the middle would shift every later answer).
pub fn gen_badcall(r: &mut Rng, sid: String) -> Scenario {
    let n = r.range(1, 3);
    let mut conns: Vec<ConnScript> = (0..n)
        .map(|_| ConnScript {
            calls: (0..r.range(2, 6)).map(|_| { let st = r.chance(1, 4); rand_kind(r, st) }).collect(),
            faulty: false,
            fail_write_at: 0,
            fail_once: false,
            fail_deliver: 0,
        })
        .collect();
    let c = r.below(n as u64) as usize;
    let at = r.range(0, conns[c].calls.len() - 1);
    let bad = if r.chance(1, 5) { Kind::Garbage } else { Kind::Bad(r.below(9) as u8) };
    conns[c].calls.insert(at, bad);
    let steps = rand_steps(r, &conns, false, &[]);
    Scenario { sid, conns, steps, fair: false }
}

/// C08 on connections whose transport fails a write (for good or once, having handed over nothing, a part
/// or everything): calls keep coming behind the failure; what reaches each client is judged.
pub fn gen_wfault(r: &mut Rng, sid: String) -> Scenario {
    let n = r.range(1, 3);
    let mut conns: Vec<ConnScript> = (0..n)
        .map(|_| ConnScript {
            calls: (0..r.range(2, 6)).map(|_| { let st = r.chance(1, 3); rand_kind(r, st) }).collect(),
            faulty: false,
            fail_write_at: 0,
            fail_once: false,
            fail_deliver: 0,
        })
        .collect();
    let c = r.below(n as u64) as usize;
    conns[c].fail_write_at = r.range(1, 3);
    conns[c].fail_once = r.chance(3, 4);
    conns[c].fail_deliver = r.below(3) as u8;
    let steps = rand_steps(r, &conns, false, &[]);
    Scenario { sid, conns, steps, fair: false }
}

/// C09 / C10: one or two faulty connections next to healthy ones.
pub fn gen_faulty(r: &mut Rng, sid: String) -> Scenario {
    let n = r.range(2, 4);
    let nf = if n > 2 && r.chance(1, 3) { 2 } else { 1 };
    let mut conns: Vec<ConnScript> = (0..n)
        .map(|_| ConnScript { calls: (0..r.range(0, 5)).map(|_| rand_kind(r, true)).collect(), faulty: false, fail_write_at: 0, fail_once: false, fail_deliver: 0 })
        .collect();
    let mut faults = Vec::new();
    let mut picked: Vec<usize> = Vec::new();
    while picked.len() < nf {
        let c = r.below(n as u64) as usize;
        if !picked.contains(&c) {
            picked.push(c);
        }
    }
    for c in picked {
        conns[c].faulty = true;
        match r.below(7) {
            0 => faults.push((c, 0u8)),                                // disconnect (EOF), possibly mid-burst / mid-frame
            1 => faults.push((c, 1u8)),                                // read error
            2 | 6 => {
                // write error on the k-th write: for good, or only that once (the transport takes writes again
                // afterwards), having handed over nothing, part or all of the bytes.  Nothing else is wrong with
                // this connection, so what reaches its client is still judged (ServerTrace: wonly).
                conns[c].faulty = false;
                conns[c].fail_write_at = r.range(1, 4);
                conns[c].fail_once = r.chance(2, 3);
                conns[c].fail_deliver = r.below(3) as u8;
            }
            3 => {
                // a call the service cannot decode: the connection ends there - nothing is handled or written
                // behind it (what reaches the client is still judged: `strict` in the reset event)
                conns[c].faulty = false;
                let at = r.range(0, conns[c].calls.len());
                conns[c].calls.insert(at, Kind::Bad(r.below(9) as u8));
            }
            4 => {
                conns[c].faulty = false;
                let at = r.range(0, conns[c].calls.len());
                conns[c].calls.insert(at, Kind::Garbage);
            }
            _ => {
                // truncated frame then EOF: handled by a close fault while a cut is pending
                faults.push((c, 0u8));
                conns[c].calls.push(Kind::Plain(40));
            }
        }
    }
    let steps = rand_steps(r, &conns, false, &faults);
    Scenario { sid, conns, steps, fair: false }
}

/// Pad of a single-call client in the fairness scenarios: mostly short, sometimes (production constants) a call
/// of 17..120 growth steps.
fn fair_pad(r: &mut Rng) -> usize {
    let step = crate::buffer_step();
    if crate::buffer_max() >= 1 << 20 && r.chance(1, 4) {
        r.range(17 * step, 120 * step)
    } else {
        r.range(0, 10)
    }
}

/// C18: flooders (all calls available at once) next to single-call clients that show up at
/// arbitrary moments; whole frames only.
pub fn gen_fair(r: &mut Rng, sid: String, transitions: bool) -> Scenario {
    let n = r.range(2, 5);
    let nflood = r.range(1, n - 1);
    let mut conns: Vec<ConnScript> = Vec::new();
    for c in 0..n {
        let calls: Vec<Kind> = if c < nflood {
            (0..r.range(3, 8))
                .map(|_| {
                    if transitions && r.chance(1, 6) {
                        Kind::Stream(r.below(3) as u32, true)
                    } else {
                        // a flood may consist of any kind of call (answered, failing, oneway)
                        match r.below(6) {
                            0 => Kind::Oneway,
                            1 => Kind::Error,
                            2 => Kind::OnewayErr,
                            _ => Kind::Plain(0),
                        }
                    }
                })
                .collect()
        } else {
            // (now and then a call of many growth steps: it is complete and waiting all the same)
            (0..r.range(1, 2)).map(|_| Kind::Plain(fair_pad(r))).collect()
        };
        conns.push(ConnScript { calls, faulty: false, fail_write_at: 0, fail_once: false, fail_deliver: 0 });
    }
    // now and then the first flooder's transport refuses every write (its sending side works): the server drops it
    // at its first answer - while it is there it takes its turn like everybody else
    if r.chance(1, 4) {
        conns[0].fail_write_at = 1;
    }
    let mut steps = Vec::new();
    // flooders connect and deliver everything first
    for c in 0..nflood {
        steps.push(Step::Connect(c));
    }
    steps.push(Step::Poll);
    for c in 0..nflood {
        steps.push(Step::Send { c, frames: conns[c].calls.len(), extra: 0 });
    }
    // the others arrive while the flood is being served
    let mut later: Vec<usize> = (nflood..n).collect();
    let mut sent = vec![0usize; n];
    let mut budget = 60;
    while budget > 0 && (!later.is_empty() || (nflood..n).any(|c| sent[c] < conns[c].calls.len())) {
        budget -= 1;
        match r.below(6) {
            0 | 1 => {
                if !later.is_empty() {
                    let k = r.below(later.len() as u64) as usize;
                    steps.push(Step::Connect(later.remove(k)));
                }
            }
            2 | 3 => {
                let c = r.range(nflood, n - 1);
                if !later.contains(&c) && sent[c] < conns[c].calls.len() {
                    sent[c] += 1;
                    steps.push(Step::Send { c, frames: 1, extra: 0 });
                }
            }
            4 if transitions => steps.push(Step::Tick(r.below(nflood as u64) as usize)),
            _ => steps.push(Step::Poll),
        }
    }
    Scenario { sid, conns, steps, fair: true }
}

/// C18 with several hundred connections open at the same time (an index that is kept in too narrow a type, a
/// scan that is not really circular, show only there): all idle except a flooder and two waiting clients in
/// slots before and behind it.
pub fn gen_fair_wide(r: &mut Rng, sid: String) -> Scenario {
    let n = r.range(270, 330);
    let flooder = r.range(257, n - 8);
    let before = r.range(0, flooder - 256);
    let behind = r.range(flooder + 1, n - 1);
    let mut conns: Vec<ConnScript> = Vec::new();
    for c in 0..n {
        let calls: Vec<Kind> = if c == flooder {
            (0..r.range(5, 8)).map(|_| Kind::Plain(0)).collect()
        } else if c == before || c == behind {
            (0..r.range(1, 3)).map(|_| Kind::Plain(r.range(0, 6))).collect()
        } else {
            vec![]
        };
        conns.push(ConnScript { calls, faulty: false, fail_write_at: 0, fail_once: false, fail_deliver: 0 });
    }
    let mut steps = Vec::new();
    for c in 0..n {
        steps.push(Step::Connect(c));
        if c % 16 == 15 {
            steps.push(Step::Poll);
        }
    }
    steps.push(Step::Poll);
    steps.push(Step::Poll);
    // everything the three active clients have to say is available before the first call is served
    steps.push(Step::Send { c: flooder, frames: conns[flooder].calls.len(), extra: 0 });
    let (a, b) = if r.chance(1, 2) { (before, behind) } else { (behind, before) };
    steps.push(Step::Send { c: a, frames: conns[a].calls.len(), extra: 0 });
    steps.push(Step::Send { c: b, frames: conns[b].calls.len(), extra: 0 });
    for _ in 0..24 {
        steps.push(Step::Poll);
    }
    Scenario { sid, conns, steps, fair: true }
}

/// C18 with mixed roles: flooders, single-call clients and clients that open a stream and then stay silent
/// connect in any order and send at any moment (always whole frames, so that a call is ready as soon as it
/// is available); streams start and end in between.  The fairness counters of ServerTrace restart at every
/// change of the connection set, so every quiet stretch between two changes is a fairness experiment.
pub fn gen_fair_mixed(r: &mut Rng, sid: String) -> Scenario {
    let n = r.range(3, 5);
    let mut conns: Vec<ConnScript> = Vec::new();
    // role 0 = flooder, 1 = single calls, 2 = one streaming call, then silence
    let mut roles: Vec<u8> = (0..n).map(|_| r.below(3) as u8).collect();
    roles[0] = 0;
    roles[1] = 1;
    // (positions are shuffled by the connect order below, not by the index)
    for c in 0..n {
        let calls: Vec<Kind> = match roles[c] {
            0 => (0..r.range(3, 8))
                .map(|_| match r.below(6) {
                    0 => Kind::Oneway,
                    1 => Kind::Error,
                    _ => Kind::Plain(0),
                })
                .collect(),
            1 => (0..r.range(1, 3)).map(|_| Kind::Plain(fair_pad(r))).collect(),
            _ => vec![Kind::Stream(r.below(3) as u32, true)],
        };
        conns.push(ConnScript { calls, faulty: false, fail_write_at: 0, fail_once: false, fail_deliver: 0 });
    }
    let mut steps = Vec::new();
    let mut to_connect: Vec<usize> = (0..n).collect();
    let mut sent = vec![0usize; n];
    let mut budget = 120;
    while budget > 0 && (!to_connect.is_empty() || (0..n).any(|c| sent[c] < conns[c].calls.len())) {
        budget -= 1;
        match r.below(8) {
            0 | 1 => {
                if !to_connect.is_empty() {
                    let k = r.below(to_connect.len() as u64) as usize;
                    steps.push(Step::Connect(to_connect.remove(k)));
                }
            }
            2..=4 => {
                let c = r.below(n as u64) as usize;
                if !to_connect.contains(&c) && sent[c] < conns[c].calls.len() {
                    // a flooder delivers everything it has left in one go, the others one call at a time
                    let k = if roles[c] == 0 && r.chance(2, 3) { conns[c].calls.len() - sent[c] } else { 1 };
                    sent[c] += k;
                    steps.push(Step::Send { c, frames: k, extra: 0 });
                }
            }
            5 => steps.push(Step::Tick(r.below(n as u64) as usize)),
            _ => steps.push(Step::Poll),
        }
    }
    for c in 0..n {
        if to_connect.contains(&c) {
            steps.push(Step::Connect(c));
        }
    }
    // let every stream finish and everything be served
    for _ in 0..12 {
        for c in 0..n {
            if roles[c] == 2 {
                steps.push(Step::Tick(c));
            }
        }
        steps.push(Step::Poll);
    }
    Scenario { sid, conns, steps, fair: true }
}

/// Scenario from a TLC-exported Server behaviour (MCServerExport): scripts plus the sequence of
/// environment actions and server iterations.
pub fn from_model_behaviour(v: &Value, sid: String) -> Scenario {
    let conns: Vec<ConnScript> = v["scripts"]
        .as_array()
        .unwrap()
        .iter()
        .map(|s| ConnScript {
            calls: s
                .as_array()
                .unwrap()
                .iter()
                .map(|k| match k[0].as_str().unwrap() {
                    "plain" => Kind::Plain(0),
                    "oneway" => Kind::Oneway,
                    "error" => Kind::Error,
                    "bad" => Kind::Bad(0),
                    _ => Kind::Stream(k[1].as_u64().unwrap() as u32, true),
                })
                .collect(),
            faulty: s.as_array().unwrap().iter().any(|k| k[0] == "bad"),
            fail_write_at: 0,
            fail_once: false,
            fail_deliver: 0,
        })
        .collect();
    let mut faulty: Vec<usize> = Vec::new();
    let steps: Vec<Step> = v["steps"]
        .as_array()
        .unwrap()
        .iter()
        .map(|s| {
            let c = s["c"].as_u64().unwrap_or(0) as usize;
            match s["a"].as_str().unwrap() {
                "connect" => Step::Connect(c),
                "send" => Step::Send { c, frames: s["k"].as_u64().unwrap() as usize, extra: if s["cut"].as_bool().unwrap() { 7 } else { 0 } },
                "tick" => Step::Tick(c),
                "close" => {
                    faulty.push(c);
                    Step::Close(c)
                }
                _ => Step::Poll,
            }
        })
        .collect();
    let mut conns = conns;
    for c in faulty {
        conns[c].faulty = true;
    }
    Scenario { sid, conns, steps, fair: false }
}
