#[doc(hidden)]
pub mod __private228 {
    #[doc(hidden)]
    pub use crate::private::*;
}
