#[doc(hidden)]
pub mod __private228 {
    #[doc(hidden)]
    pub use crate::private::*;
}
use serde_core::__private228 as serde_core_private;
