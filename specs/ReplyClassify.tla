---------------------------- MODULE ReplyClassify ----------------------------
(***************************************************************************)
(* C04: how a received reply frame is classified.                           *)
(*                                                                           *)
(* A frame is described by five observable facts, each obtained by decoding   *)
(* that frame alone:                                                          *)
(*   json      it is a JSON document                                          *)
(*   hasError  it is an object with an `error' member                         *)
(*   std       it decodes as one of the standard org.varlink.service errors    *)
(*   usr       it decodes as the caller's error type                           *)
(*   rep       it decodes as a success reply with the caller's parameter type  *)
(* Allowed(o) is the set of outcomes the property permits.  Code(o) is the     *)
(* decision procedure of ReadConnection::receive_reply (three-way untagged      *)
(* decode: standard error, caller's error, success reply), with the pinned      *)
(* code's permissive third arm as the deviation PermissiveReply.               *)
(***************************************************************************)
EXTENDS Naturals, FiniteSets, TLC
CONSTANT PermissiveReply

Obs == [json : BOOLEAN, hasError : BOOLEAN, std : BOOLEAN, usr : BOOLEAN, rep : BOOLEAN]
\* combinations that cannot occur: only JSON objects with an `error' member decode as errors;
\* something that is not JSON decodes as nothing
Possible(o) == /\ (o.std \/ o.usr => o.hasError)
               /\ (o.hasError \/ o.rep => o.json)
Outcomes == {"success", "method_err", "service_err", "decode_err"}

Allowed(o) ==
    IF o.std \/ o.usr
    THEN {x \in {"service_err", "method_err"} : (x = "service_err" => o.std) /\ (x = "method_err" => o.usr)}
    ELSE IF o.hasError THEN {"decode_err"}            \* an error nobody recognises is never a success
    ELSE IF o.rep THEN {"success"} ELSE {"decode_err"}

\* the implementation's decision procedure
Code(o) == IF o.std THEN "service_err"
           ELSE IF o.usr THEN "method_err"
           ELSE IF o.rep /\ (PermissiveReply \/ ~o.hasError) THEN "success"
           ELSE "decode_err"

\* model-level check: explore all possible observations
VARIABLE o
Init == o \in {x \in Obs : Possible(x)}
Next == UNCHANGED o
Spec == Init /\ [][Next]_o
Total == Allowed(o) # {} /\ Allowed(o) \subseteq Outcomes
CodeConforms == Code(o) \in Allowed(o)
NeverSuccessWithError == o.hasError => Code(o) # "success"
ExactlyWhen == /\ (Code(o) = "method_err" => o.usr)
               /\ (Code(o) = "service_err" => o.std)
               /\ (Code(o) = "success" => ~o.hasError)
=============================================================================
