CONSTANT AllowCommentedEnumRender = FALSE
SPECIFICATION TSpec
POSTCONDITION Accepted
CHECK_DEADLOCK FALSE
