---------------------------- MODULE CodegenTrace ----------------------------
(* C15 trace validation: every call a generated method sent, every reply and every error a generated
   method decoded, judged by Codegen.tla against the interface description the code was generated from.
   `cg_failed': the parser rejected, or the generator failed on, a description of the corpus. *)
EXTENDS Codegen, Json, IOUtils
Rec == ndJsonDeserialize(IOEnv.TRACE)
VARIABLE l
IsEv(e) == l <= Len(Rec) /\ Rec[l].ev = e /\ l' = l + 1
TInit == l = 1
TCall == IsEv("cg_call") /\ CallOk(Rec[l].iface, Rec[l].mi, Rec[l].present, Rec[l])
TReply == IsEv("cg_reply") /\ ReplyOk(Rec[l].iface, Rec[l].mi, Rec[l])
TError == IsEv("cg_error") /\ ErrorOk(Rec[l].iface, Rec[l].ei, Rec[l])
TOther == IsEv("reset") \/ IsEv("end")
\* (there is no disjunct for `cg_failed': a description the pipeline could not turn into code is a violation)
TNext == TCall \/ TReply \/ TError \/ TOther
TSpec == TInit /\ [][TNext]_l
Accepted ==
    LET d == TLCGet("stats").diameter IN
    IF d - 1 = Len(Rec) THEN TRUE
    ELSE /\ PrintT(<<"REJECT", d, ToJson([ev |-> Rec[d].ev, id |-> Rec[d].id, raw |-> Rec[d].raw])>>)
         /\ FALSE
=============================================================================
