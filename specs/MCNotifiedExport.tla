-------------------------- MODULE MCNotifiedExport --------------------------
(* Behaviour export for Notified (simulation mode): the schedule of operations, one JSON line per
   behaviour of the requested length; the harness runs it against both runtime crates. *)
EXTENDS Notified, Json
CONSTANT Len0
VARIABLE h
hvars == <<vars, h>>
Op(a, s) == [a |-> a, s |-> s]
SubIndex == CHOOSE f \in [Subs -> 0..(Cardinality(Subs) - 1)] : \A a, b \in Subs : a # b => f[a] # f[b]
HInit == Init /\ h = <<>>
HNext == \/ Set /\ h' = Append(h, Op("set", 0))
         \/ CloneState /\ h' = Append(h, Op("clone", 0))
         \/ DropState /\ h' = Append(h, Op("drop_state", 0))
         \/ OnceNew /\ h' = Append(h, Op("once_new", 0))
         \/ Notify /\ h' = Append(h, Op("notify", 0))
         \/ DropNotifier /\ h' = Append(h, Op("drop_notifier", 0))
         \/ PollOnce /\ h' = Append(h, Op("poll_once", 0))
         \/ \E s \in Subs : Subscribe(s) /\ h' = Append(h, Op("subscribe", SubIndex[s]))
         \/ \E s \in Subs : Poll(s) /\ h' = Append(h, Op("poll", SubIndex[s]))
HSpec == HInit /\ [][HNext]_hvars
Export == Len(h) = Len0 => PrintT(<<"REPLAY", ToJson([ops |-> h])>>)
HBound == Len(h) <= Len0
=============================================================================
