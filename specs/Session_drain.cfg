CONSTANTS MaxCalls = 3 MaxItems = 2 ServerAnswersOneway = FALSE ClientMayAbandon = TRUE ClientDrainsAbandoned = TRUE
SPECIFICATION Spec
INVARIANTS Correspondence
CHECK_DEADLOCK FALSE
