CONSTANT PermissiveReply = FALSE
SPECIFICATION Spec
INVARIANTS Total CodeConforms NeverSuccessWithError ExactlyWhen
CHECK_DEADLOCK FALSE
