CONSTANTS Subs = {s1, s2, s3}  MaxSets = 6  MaxHandles = 2  LagRule = "skip"  Len0 = 24
SPECIFICATION HSpec
INVARIANT Export
CHECK_DEADLOCK FALSE
