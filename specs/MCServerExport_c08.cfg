CONSTANTS N = 3  Script <- S_c08_3  Faulty = {}  ReplyToOneway = FALSE  AllowPartial = TRUE  StartRule = "next"
SPECIFICATION HSpec
INVARIANT Export
CHECK_DEADLOCK FALSE
