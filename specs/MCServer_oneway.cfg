CONSTANTS N = 2  Script <- S_c08  Faulty = {}  ReplyToOneway = TRUE  AllowPartial = FALSE  StartRule = "next"
SPECIFICATION Spec
INVARIANT Safety
CHECK_DEADLOCK FALSE
