-------------------------------- MODULE Chain --------------------------------
(***************************************************************************)
(* Implementation-shaped model of zlink's call chains                        *)
(* (zlink-core/src/connection/chain/{mod,reply_stream}.rs).                  *)
(*   Build     chain_call / append: each call is enqueued, reply_count       *)
(*             counts the calls that are not oneway                          *)
(*   Send      one flush: all calls reach the transport in one write         *)
(*   Poll      one completed poll of the reply stream: a receive_reply on     *)
(*             the connection, then the index / done bookkeeping              *)
(*   After     a plain receive_reply on the connection after the stream ended *)
(*   Abandon   the consumer drops the stream before it ended; the frames it did *)
(*             not take are then received through the connection itself        *)
(* The inbound side is abstracted to a queue of frames (ReadConn/Framing      *)
(* cover fragmentation); what matters here is how many frames the stream      *)
(* takes from that queue.                                                     *)
(*                                                                           *)
(* Ghost state for C11: every yielded item borrows the bytes of its frame in  *)
(* the receive buffer; a transport read overwrites the buffer from the        *)
(* position where the previous read ended (from 0 after the buffer was        *)
(* drained).  Items may be held by the consumer while it polls on             *)
(* (HoldItems = TRUE is what the public API allows today).                    *)
(***************************************************************************)
EXTENDS Naturals, Sequences, FiniteSets, TLC

CONSTANTS MaxCalls, MaxCont, MaxTrail,
          WithGenErr,  \* server scripts may contain replies that are reported as general errors
          DoneInit,    \* "count" : done starts as reply_count = 0 (repaired) | "false" : pinned code
          HoldItems    \* consumer keeps yielded items while polling on

\* "om": a call flagged both oneway and more - it is oneway, nobody answers it
Kinds == {"plain", "oneway", "more", "om"}
Unanswered(kd) == kd \in {"oneway", "om"}
\* a reply frame: [call |-> index of the call it answers (0 = unrelated), err |-> BOOLEAN, cont |-> BOOLEAN,
\*                 gen |-> BOOLEAN]   gen: the reply is reported as a general error (it does not decode as the
\* expected types, or it is one of the standard service errors): the stream yields it and stops
\* (reply_stream.rs: "mark the stream as done as it's likely not recoverable"); the replies it did not take
\* stay with the connection.
VARIABLES calls,     \* Seq(Kinds)
          inq,       \* frames the server sent, not yet taken by a receive
          batch,     \* how many of the frames at the head of inq arrived in the same transport read
          wire,      \* writes: Seq(Seq(call index))
          phase,     \* "build" | "sent" | "ended" | "after"
          replyCount, idx, done,
          yielded,   \* frames yielded by the stream
          afterGot,  \* frames returned by receives after the stream
          reads,     \* number of receive operations issued by the stream
          bufItems,  \* ghost: frames currently lying in the receive buffer (consumed or not)
          live,      \* ghost: yielded frames the consumer still holds
          clobbered, \* ghost: a held item's bytes were overwritten
          dropped,   \* the consumer abandoned the stream before it ended
          script     \* ghost: everything the server sent, in order
vars == <<calls, inq, batch, wire, phase, replyCount, idx, done, yielded, afterGot, reads, bufItems, live, clobbered,
          dropped, script>>

Frame(c, e, k) == [call |-> c, err |-> e, cont |-> k, gen |-> FALSE]
GenErr(c) == [call |-> c, err |-> TRUE, cont |-> FALSE, gen |-> TRUE]

\* All conforming reply scripts for a call sequence: for a plain call one success or error, for a
\* `more' call 0..MaxCont continuing replies then a final success or an error, nothing for oneway.
RECURSIVE Scripts(_, _)
Scripts(cs, i) ==
    IF i > Len(cs) THEN {<<>>}
    ELSE LET rest == Scripts(cs, i + 1)
             finals(c) == {Frame(c, FALSE, FALSE), Frame(c, TRUE, FALSE)} \cup (IF WithGenErr THEN {GenErr(c)} ELSE {})
             mine == CASE Unanswered(cs[i]) -> {<<>>}
                       [] cs[i] = "plain" -> {<<f>> : f \in finals(i)}
                       [] cs[i] = "more" ->
                            UNION {{[j \in 1..k |-> Frame(i, FALSE, TRUE)] \o <<f>> : f \in finals(i)}
                                   : k \in 0..MaxCont}
         IN {m \o r : m \in mine, r \in rest}

Trailing(n) == [j \in 1..n |-> Frame(0, FALSE, FALSE)]

Init == /\ calls \in UNION {[1..n -> Kinds] : n \in 1..MaxCalls}
        /\ \E s \in Scripts(calls, 1) : \E t \in 0..MaxTrail : inq = s \o Trailing(t)
        /\ batch = 0
        /\ wire = <<>> /\ phase = "build"
        /\ replyCount = Cardinality({i \in 1..Len(calls) : ~Unanswered(calls[i])})
        /\ idx = 0
        /\ done = (IF DoneInit = "count" THEN replyCount = 0 ELSE FALSE)
        /\ yielded = <<>> /\ afterGot = <<>> /\ reads = 0
        /\ bufItems = <<>> /\ live = {} /\ clobbered = FALSE
        /\ dropped = FALSE /\ script = inq

Send == /\ phase = "build"
        /\ wire' = Append(wire, [i \in 1..Len(calls) |-> i])     \* one flush of everything enqueued
        /\ phase' = "sent"
        /\ UNCHANGED <<calls, inq, batch, replyCount, idx, done, yielded, afterGot, reads, bufItems, live, clobbered, dropped, script>>

\* One receive on the connection: if no buffered frame is left, a transport read brings the next
\* n frames (overwriting the buffer from its start: the previous content was fully consumed).
Receive(n, held) ==
    IF batch > 0
    THEN /\ batch' = batch - 1 /\ inq' = Tail(inq)
         /\ UNCHANGED <<bufItems, clobbered>>
    ELSE /\ n \in 1..Len(inq)
         /\ batch' = n - 1 /\ inq' = Tail(inq)
         /\ bufItems' = SubSeq(inq, 1, n)
         /\ clobbered' = (clobbered \/ held # {})              \* the read overwrites what items borrow

PollStream ==
    /\ phase = "sent"
    /\ IF done
       THEN /\ phase' = "ended"
            /\ UNCHANGED <<calls, inq, batch, wire, replyCount, idx, done, yielded, afterGot, reads, bufItems, live, clobbered,
                           dropped, script>>
       ELSE /\ inq # <<>>
            \* without HoldItems the previous item was dropped before this poll
            /\ \E n \in 1..Len(inq) : Receive(n, IF HoldItems THEN live ELSE {})
            /\ LET f == Head(inq)
                   idx1 == IF f.gen THEN idx ELSE IF f.err \/ ~f.cont THEN idx + 1 ELSE idx
               IN /\ yielded' = Append(yielded, f)
                  /\ idx' = idx1
                  /\ done' = (f.gen \/ idx1 >= replyCount)
                  /\ live' = IF HoldItems THEN live \cup {Len(yielded) + 1} ELSE {Len(yielded) + 1}
            /\ reads' = reads + 1
            /\ UNCHANGED <<calls, wire, phase, replyCount, afterGot, dropped, script>>

\* the consumer drops the stream; later exchanges use the connection directly
After ==
    /\ phase \in {"ended", "after"} /\ inq # <<>>
    \* (the stream's borrow of the connection has ended: no item can be held any more)
    /\ \E n \in 1..Len(inq) : Receive(n, {})
    /\ afterGot' = Append(afterGot, Head(inq))
    /\ phase' = "after" /\ live' = {}
    /\ UNCHANGED <<calls, wire, replyCount, idx, done, yielded, reads, dropped, script>>

\* the consumer gives up before the stream ended (buffered frames stay buffered: batch is kept)
Abandon ==
    /\ phase = "sent" /\ ~done
    /\ phase' = "ended" /\ dropped' = TRUE /\ live' = {}
    /\ UNCHANGED <<calls, inq, batch, wire, replyCount, idx, done, yielded, afterGot, reads, bufItems, clobbered, script>>

Next == Send \/ PollStream \/ After \/ Abandon
Spec == Init /\ [][Next]_vars

\* ---- properties -------------------------------------------------------------------
\* C06: what the chain is owed = the frames that answer its calls
Owed == LET all == yielded \o afterGot \o inq IN SelectSeq(all, LAMBDA f : f.call # 0)
NotOwed == LET all == yielded \o afterGot \o inq IN SelectSeq(all, LAMBDA f : f.call = 0)
OneWriteInOrder == phase # "build" => wire = << [i \in 1..Len(calls) |-> i] >>
YieldsPrefixOfOwed == \A i \in 1..Len(yielded) : i <= Len(Owed) /\ yielded[i] = Owed[i]
GaveUp == yielded # <<>> /\ yielded[Len(yielded)].gen          \* the stream stopped at a general error
EndsExactly == (phase \in {"ended", "after"} /\ ~dropped /\ ~GaveUp) => yielded = Owed   \* all owed, nothing from a later exchange
NoReadWhenNothingOwed == replyCount = 0 => reads = 0
LaterExchangeIntact == (~dropped /\ ~GaveUp) => \A i \in 1..Len(afterGot) : afterGot[i].call = 0
\* nothing is lost, duplicated or reordered between the stream and the connection, abandoned or not
Conserved == yielded \o afterGot \o inq = script
ChainInv == OneWriteInOrder /\ YieldsPrefixOfOwed /\ EndsExactly /\ NoReadWhenNothingOwed /\ LaterExchangeIntact /\ Conserved
\* C11
NoLiveBorrowClobbered == ~clobbered
=============================================================================
