CONSTANTS MsgLens <- L2  K = 3  AllowCancel = FALSE
SPECIFICATION Spec
INVARIANTS Intact AllArrives EndBehindData
CHECK_DEADLOCK FALSE
