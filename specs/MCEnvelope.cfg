CONSTANT OwnSets <- Owns
SPECIFICATION Spec
INVARIANT Laws
CHECK_DEADLOCK FALSE
