--------------------------- MODULE WriteConnTrace ---------------------------
(* Implementation-level trace validation (drift only, never a verdict): the cursor `pos' and the
   buffer length reported by the hook after every operation are compared with what WriteConn.tla
   computes for the same operation sequence.  The whole synchronous part of an operation is
   folded into one step here (TLC has no action composition), using WriteConn's own operators. *)
EXTENDS Naturals, Sequences, Json, IOUtils, TLC
CONSTANTS B, MAXB
Rec == ndJsonDeserialize(IOEnv.TRACE)
VARIABLES blen, pos, l, opn
tvars == <<blen, pos, l, opn>>
IsEv(e) == l <= Len(Rec) /\ Rec[l].ev = e /\ l' = l + 1

CanGrow(b) == b < MAXB
RECURSIVE Fit(_, _, _)
Fit(b, p, n) == IF b - p >= n THEN <<TRUE, b>> ELSE IF CanGrow(b) THEN Fit(b + B, p, n) ELSE <<FALSE, b>>
\* <<result, blen', pos'>> of enqueue (Serialize then Terminate of WriteConn.tla)
Enq(b, p, n) == LET f == Fit(b, p, n) IN
                IF ~f[1] THEN <<"overflow", f[2], p>>
                ELSE IF p + n = f[2] /\ ~CanGrow(f[2]) THEN <<"overflow", f[2], p>>
                ELSE <<"ok", IF p + n = f[2] THEN f[2] + B ELSE f[2], p + n + 1>>

TInit == l = 1 /\ blen = B /\ pos = 0 /\ opn = [kind |-> "none", len |-> 0, bad |-> FALSE]
TReset == IsEv("reset") /\ blen' = Rec[l].blen /\ pos' = Rec[l].pos /\ Rec[l].B = B /\ Rec[l].MAXB = MAXB
          /\ opn' = [kind |-> "none", len |-> 0, bad |-> FALSE]
TOp == IsEv("op") /\ opn' = [kind |-> Rec[l].kind, len |-> Rec[l].len, bad |-> Rec[l].bad] /\ UNCHANGED <<blen, pos>>
TWrite == IsEv("write") /\ UNCHANGED <<blen, pos, opn>>
          /\ Rec[l].n = (IF opn.kind = "send" THEN Enq(blen, pos, opn.len)[3] ELSE pos)
TWriteErr == IsEv("write_err") /\ UNCHANGED <<blen, pos, opn>>
TRetAny(hooked) ==
        /\ LET e == Rec[l] IN
           /\ opn' = opn
           /\ IF opn.kind = "flush" THEN blen' = blen /\ pos' = (IF e.cls = "ok" THEN 0 ELSE pos)
              ELSE IF opn.bad THEN e.cls \in {"ser_err", "overflow"} /\ pos' = pos /\ blen' = e.blen /\ e.blen >= blen
              ELSE LET r == Enq(blen, pos, opn.len) IN
                   /\ blen' = r[2]
                   /\ IF r[1] = "overflow" THEN e.cls = "overflow" /\ pos' = pos
                      ELSE IF opn.kind = "enqueue" THEN e.cls = "ok" /\ pos' = r[3]
                      ELSE (e.cls = "ok" /\ pos' = 0) \/ (e.cls \in {"io_err", "cancelled"} /\ pos' = r[3])
           /\ (hooked => pos' = e.pos /\ blen' = e.blen)
TRet == (IsEv("ret") /\ TRetAny(TRUE)) \/ (IsEv("retq") /\ TRetAny(FALSE))
TEnd == IsEv("end") /\ UNCHANGED <<blen, pos, opn>>
TNext == TReset \/ TOp \/ TWrite \/ TWriteErr \/ TRet \/ TEnd
TSpec == TInit /\ [][TNext]_tvars
Accepted ==
    LET d == TLCGet("stats").diameter IN
    IF d - 1 = Len(Rec) THEN TRUE
    ELSE /\ PrintT(<<"REJECT", d, ToJson(Rec[d])>>)
         /\ FALSE
=============================================================================
