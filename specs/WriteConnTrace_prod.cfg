CONSTANTS B = 256  MAXB = 104857600
SPECIFICATION TSpec
POSTCONDITION Accepted
CHECK_DEADLOCK FALSE
