CONSTANT PoolSize = 10
CONSTANT IfacePool = 14
SPECIFICATION Spec
INVARIANTS Inverse Truncation Accounted Export
CHECK_DEADLOCK FALSE
