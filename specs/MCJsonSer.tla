------------------------------ MODULE MCJsonSer ------------------------------
(* Enumeration of value trees for JsonSer: atoms, every composite kind over <=2 children, nested
   three levels deep (deeper pools are seeded random subsets).  For every tree the model checks that
   Encode produces balanced text; every tree is exported for the harness. *)
EXTENDS JsonSer, Json, Randomization, FiniteSets
CONSTANT PoolSize
S(toks) == [t |-> "str", s |-> toks]
Atoms == {[t |-> "null"], [t |-> "bool", b |-> TRUE], [t |-> "num", a |-> "0", int |-> TRUE],
          [t |-> "num", a |-> "-12", int |-> TRUE], S(<<>>), S(<<"a">>), S(<<"QUOTE", "b", "BSLASH">>),
          S(<<"NL", "C01", "EACUTE">>), [t |-> "char", s |-> <<"x">>], [t |-> "unitvar", name |-> "Uv"],
          [t |-> "none"], [t |-> "unitstruct"], [t |-> "disp", parts |-> <<<<"a", "QUOTE", "b", "c", "NL", "d", "e", "f">>, <<"g">>, <<>>, <<"EACUTE", "h">>>>], [t |-> "bytes", n |-> <<0, 255>>], [t |-> "bytes", n |-> <<>>]}
Keys == {S(<<"k">>), S(<<"QUOTE">>), [t |-> "char", s |-> <<"c">>], [t |-> "num", a |-> "7", int |-> TRUE],
         [t |-> "unitvar", name |-> "Kv"], [t |-> "newtype", v |-> S(<<"n">>)],
         \* newtype structs around every class of key: integers (quoted like bare ones, through any number of
         \* layers), a key the serializer may refuse (bool), one it must refuse (a sequence)
         [t |-> "newtype", v |-> [t |-> "num", a |-> "42", int |-> TRUE]],
         [t |-> "newtype", v |-> [t |-> "newtype", v |-> [t |-> "num", a |-> "-3", int |-> TRUE]]],
         [t |-> "newtype", v |-> [t |-> "bool", b |-> TRUE]],
         [t |-> "newtype", v |-> [t |-> "seq", items |-> <<>>]],
         [t |-> "newtype", v |-> [t |-> "unitvar", name |-> "Kv"]],
         [t |-> "disp", parts |-> <<<<"k", "e", "y">>, <<"BSLASH">>, <<"2">>>>]}
Lists(P) == {<<>>} \cup {<<x>> : x \in P} \cup {<<x, y>> : x \in P, y \in P}
KV(P) == {<<>>} \cup {<<<<k, x>>>> : k \in Keys, x \in P} \cup {<<<<k, x>>, <<S(<<"z">>), y>>>> : k \in Keys, x \in P, y \in P}
FV(P) == {<<>>} \cup {<<<<"f", x>>>> : x \in P} \cup {<<<<"f", x>>, <<"g2", y>>>> : x \in P, y \in P}
         \cup {<<<<"q\"t", x>>, <<"b\\s\tn\nl", x>>>> : x \in P}          \* renamed fields whose names need escaping
Over(P) ==
    {[t |-> "seq", items |-> l] : l \in Lists(P)} \cup {[t |-> "tuple", items |-> l] : l \in Lists(P) \ {<<>>}}
    \cup {[t |-> "tuplestruct", items |-> l] : l \in Lists(P)}
    \cup {[t |-> "map", entries |-> e] : e \in KV(P)} \cup {[t |-> "struct", fields |-> f] : f \in FV(P)}
    \cup {[t |-> "some", v |-> x] : x \in P} \cup {[t |-> "newtype", v |-> x] : x \in P}
    \cup {[t |-> "newtypevar", name |-> "Nv", v |-> x] : x \in P}
    \cup {[t |-> "tuplevar", name |-> "Tv", items |-> l] : l \in Lists(P)}
    \cup {[t |-> "structvar", name |-> "Sv", fields |-> f] : f \in FV(P)}
V1 == Over(RandomSubset(PoolSize, Atoms))
V2 == Over(RandomSubset(PoolSize, V1))
V3 == Over(RandomSubset(PoolSize, V2))
All == Atoms \cup V1 \cup V2 \cup V3
VARIABLE v
\* (the trees are chosen in a step, not in Init: TLC evaluates Init on the main thread, whose stack is small)
Init == v = [t |-> "null"]
Next == v.t = "null" /\ v' \in All
Spec == Init /\ [][Next]_v
WellFormed == Balanced(Encode(v))
Export == PrintT(<<"REPLAY", ToJson(v)>>)
=============================================================================
