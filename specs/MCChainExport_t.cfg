CONSTANTS MaxCalls = 3  MaxCont = 2  MaxTrail = 1  WithGenErr = TRUE  DoneInit = "count"  HoldItems = FALSE
SPECIFICATION HSpec
INVARIANT Export
CHECK_DEADLOCK FALSE
