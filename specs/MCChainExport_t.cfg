CONSTANTS MaxCalls = 4  MaxCont = 2  MaxTrail = 1  WithGenErr = TRUE  DoneInit = "count"  HoldItems = FALSE
SPECIFICATION HSpec
INVARIANT Export
CHECK_DEADLOCK FALSE
