CONSTANT AllowHeldClobber = FALSE
SPECIFICATION TSpec
POSTCONDITION Accepted
CHECK_DEADLOCK FALSE
