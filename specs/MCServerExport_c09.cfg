CONSTANTS N = 2  Script <- S_c09  Faulty = {0}  ReplyToOneway = FALSE  AllowPartial = TRUE  StartRule = "next"
SPECIFICATION HSpec
INVARIANT Export
CHECK_DEADLOCK FALSE
