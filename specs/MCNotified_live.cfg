CONSTANTS Subs = {s1, s2}  MaxSets = 3  MaxHandles = 1  LagRule = "skip"
SPECIFICATION Spec
INVARIANT Safety
PROPERTY EventuallyLatest
CHECK_DEADLOCK FALSE
