CONSTANT AllowCancelCorruption = FALSE
SPECIFICATION TSpec
POSTCONDITION Accepted
CHECK_DEADLOCK FALSE
