---------------------------- MODULE MCIntrospect ----------------------------
(* Enumeration of derive groups for C16 (exported for gen/introspect.py) and the model-level laws:
     RendersLegal    the interface a group adds up to is in the grammar: Parse inverts its canonical
                     rendering (so derived descriptions can be rendered and parsed back at all)
     OrderKept       members, fields and variants appear in declaration order under their Rust names *)
EXTENDS Introspect, Json, Randomization, FiniteSets, SequencesExt
CONSTANTS NGroups, N1, N2

T(k, n, a) == [k |-> k, n |-> n, a |-> a]
Prim(n) == T("prim", n, <<>>)
Special(n) == T("special", n, <<>>)
Unit == T("unit", "", <<>>)
R0 == {Prim(n) : n \in {"bool"} \cup Ints \cup Floats \cup Strs}
      \cup {Special(n) : n \in SpecialFloat \cup SpecialString \cup SpecialObject} \cup {Unit}
Hashable == {Prim(n) : n \in {"u8", "i32", "u64", "usize", "String", "&str", "char", "bool"}}
RECURSIVE OptLike(_)
OptLike(x) == x.k = "opt" \/ (x.k = "wrap" /\ OptLike(x.a[1]))
Refs == {T("custom", "Rec", <<>>), T("custom", "Mode", <<>>), T("inline", "Inner", <<>>), T("inline", "Kind", <<>>)}
Over(S) == {T("opt", "", <<x>>) : x \in {y \in S : ~OptLike(y)}}
           \cup {T("seq", n, <<x>>) : n \in {"Vec", "slice"}, x \in S}
           \cup {T("seq", n, <<x>>) : n \in {"HashSet", "BTreeSet"}, x \in S \cap Hashable}
           \cup {T("map", n, <<x>>) : n \in {"HashMapString", "HashMapStr", "BTreeMapString", "BTreeMapStr"}, x \in S}
           \cup {T("wrap", n, <<x>>) : n \in {"Box", "Rc", "Arc", "Cell", "RefCell"}, x \in S}
\* one representative of every constructor row, whatever the random pools hold
Rows == {T("opt", "", <<Prim("u32")>>), T("seq", "Vec", <<Prim("String")>>), T("seq", "slice", <<Prim("u8")>>),
         T("seq", "HashSet", <<Prim("String")>>), T("seq", "BTreeSet", <<Prim("i32")>>),
         T("map", "HashMapString", <<Prim("bool")>>), T("map", "HashMapStr", <<Prim("i64")>>),
         T("map", "BTreeMapString", <<Prim("f64")>>), T("map", "BTreeMapStr", <<Prim("char")>>),
         T("wrap", "Box", <<Prim("u16")>>), T("wrap", "Rc", <<Prim("String")>>), T("wrap", "Arc", <<Prim("&str")>>),
         T("wrap", "Cell", <<Prim("isize")>>), T("wrap", "RefCell", <<T("seq", "Vec", <<Prim("f32")>>)>>),
         \* an optional whose payload maps to `object', `float' or `string' through a special type (also behind a
         \* transparent wrapper, inside a sequence and as a map value)
         T("opt", "", <<Special("Value")>>), T("opt", "", <<T("wrap", "Arc", <<Special("Value")>>)>>),
         T("seq", "Vec", <<T("opt", "", <<Special("Value")>>)>>), T("map", "HashMapString", <<T("opt", "", <<Special("Value")>>)>>),
         T("opt", "", <<Special("Duration")>>), T("opt", "", <<Special("PathBuf")>>), T("opt", "", <<Unit>>)}
L1 == Rows \cup RandomSubset(N1, Over(R0 \cup Refs))
L2 == RandomSubset(N2, Over(L1))
L3 == RandomSubset(N2, Over(L2))
\* the pool for fields of custom types and errors (may refer to every type of the group) and the
\* pool for fields of the inline types (no inline references: a type cannot contain itself)
Pool == SetToSeq(R0 \cup Refs \cup L1 \cup L2 \cup L3)
RECURSIVE NoInline(_)
NoInline(x) == x.k # "inline" /\ (x.a = <<>> \/ NoInline(x.a[1]))
RECURSIVE NoRec(_)
NoRec(x) == ~(x.k = "custom" /\ x.n = "Rec") /\ (x.a = <<>> \/ NoRec(x.a[1]))
\* (a struct cannot contain itself by value: Rec does not mention Rec, Inner mentions neither Rec nor an inline type)
PoolRec == SetToSeq({x \in R0 \cup Refs \cup L1 \cup L2 \cup L3 : NoRec(x)})
PoolNI == SetToSeq({x \in R0 \cup Refs \cup L1 \cup L2 : NoInline(x) /\ NoRec(x)})
Pick(s, n) == s[(n % Len(s)) + 1]

Docs == << <<>>, <<"the value">>, <<"first line", "second: line (2)">>, <<"">> >>
\* (more than ten names, not in alphabetical order: a wide struct shows whether declaration order survives
\* whatever the derive does with its per-field items)
FNames == <<"id", "user_name", "x2", "is_ok", "a", "count_3d", "zeta", "alpha", "mid", "b2", "kilo", "lima",
            "charlie", "echo">>
Wide(i) == i % 9 = 8
Field(i, j, pool) == [name |-> FNames[j], docs |-> Pick(Docs, i + j), ty |-> Pick(pool, i * 7 + j * 13)]
Var(n, d) == [name |-> n, docs |-> d]
ErrOrders == << <<1, 2, 3, 4>>, <<2, 1, 4, 3, 5>>, <<3, 4, 1, 2>>, <<5, 4, 3, 2, 1>>, <<2, 3>>, <<3, 1>>, <<1>>, <<>>, <<5, 2>> >>
Group(i) ==
    LET k == IF Wide(i) THEN 11 + (i % 4) ELSE i % 7
        rec == [name |-> "Rec", docs |-> Pick(Docs, i), isenum |-> FALSE,
                fields |-> [j \in 1..k |-> Field(i, j, PoolRec)], variants |-> <<>>]
        mode == [name |-> "Mode", docs |-> Pick(Docs, i + 1), isenum |-> TRUE, fields |-> <<>>,
                 variants |-> IF i % 3 = 0 THEN <<Var("Only", <<>>)>>
                              ELSE IF i % 3 = 1 THEN <<Var("Active", <<>>), Var("V2", <<>>), Var("IoError", <<>>)>>
                              ELSE <<Var("Active", <<"is active">>), Var("Off", <<>>)>>]
        inner == [name |-> "Inner", isenum |-> FALSE, variants |-> <<>>,
                  fields |-> [j \in 1..((i % 3) + 1) |-> Field(i + 3, j, PoolNI)]]
        kind == [name |-> "Kind", isenum |-> TRUE, fields |-> <<>>,
                 variants |-> IF i % 2 = 0 THEN <<Var("small", <<>>), Var("Large", <<>>)>> ELSE <<Var("one", <<>>)>>]
        evs == << [name |-> "NotFound", docs |-> Pick(Docs, i + 2), kind |-> "unit", fields |-> <<>>, inline |-> ""],
                  [name |-> "Invalid", docs |-> Pick(Docs, i + 3), kind |-> "struct",
                   fields |-> [j \in 1..(IF Wide(i) THEN 12 ELSE (i % 4) + 1) |-> Field(i + 5, j, Pool)], inline |-> ""],
                  [name |-> "Detailed", docs |-> Pick(Docs, i), kind |-> "tuple", fields |-> <<>>, inline |-> "Inner"],
                  [name |-> "Busy", docs |-> <<>>, kind |-> "unit", fields |-> <<>>, inline |-> ""],
                  \* a second struct-like variant whose name differs from `Invalid' only in case and whose fields have
                  \* the same names but other types (their descriptions must not be mixed up)
                  [name |-> "InValid", docs |-> Pick(Docs, i + 1), kind |-> "struct",
                   fields |-> [j \in 1..((i % 3) + 1) |-> Field(i + 6, j, Pool)], inline |-> ""] >>
        ord == Pick(ErrOrders, i)
    IN [id |-> i, customs |-> IF i % 5 = 4 THEN <<mode, rec>> ELSE <<rec, mode>>, inlines |-> <<inner, kind>>,
        errs |-> [x \in 1..Len(ord) |-> evs[ord[x]]],
        probes |-> [j \in 1..((i % 4) + 1) |-> Pick(Pool, i * 11 + j * 5 + 3)]]

VARIABLES g, b
NB == 16
Init == g = Group(0) /\ b = 0
Next == \/ b = 0 /\ b' \in 1..NB /\ g' = g
        \/ b \in 1..NB /\ g' \in {Group(i) : i \in {x \in 1..NGroups : x % NB = b - 1}} /\ b' = NB + 1
Spec == Init /\ [][Next]_<<g, b>>

\* (row coverage is measured on the exported corpus by the check itself: see `rows_covered' in the evidence)
MCLex(ts) == [x \in 1..Len(ts) |->
              [k |-> ts[x].k, s |-> ts[x].s, c |-> "", sp |-> ~(x > 1 /\ ts[x - 1].k = "P" /\ ts[x - 1].s \in {"?", "[]", "[string]"}),
               own |-> TRUE]]
OrderKept == LET a == IfaceOf(g) IN
             /\ Len(a.members) = Len(g.customs) + 1 + Len(g.errs)
             /\ \A x \in 1..Len(g.customs) : a.members[x].name = g.customs[x].name
             /\ \A x \in 1..Len(g.errs) : a.members[Len(g.customs) + 1 + x].name = g.errs[x].name
Export == b = NB + 1 => PrintT(<<"REPLAY", ToJson(g)>>)
=============================================================================
