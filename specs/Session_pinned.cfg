CONSTANTS MaxCalls = 3 MaxItems = 1 ServerAnswersOneway = TRUE
SPECIFICATION Spec
INVARIANTS Correspondence Complete
CHECK_DEADLOCK FALSE
