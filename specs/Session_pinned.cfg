CONSTANTS MaxCalls = 3 MaxItems = 1 ServerAnswersOneway = TRUE ClientMayAbandon = FALSE ClientDrainsAbandoned = FALSE
SPECIFICATION Spec
INVARIANTS Correspondence Complete
CHECK_DEADLOCK FALSE
