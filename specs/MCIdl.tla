-------------------------------- MODULE MCIdl --------------------------------
(* Model-level laws of Idl.tla over an enumerated space of descriptions, and the export of those
   descriptions for the harness (which renders each with several legal layouts, feeds the text to
   zlink's parser and lets TLC compare).

   Laws checked for every enumerated description a, with T = Lex(Canon(a)):
     Inverse      Parse(T) accepts, with no comment flag, and yields Norm(a)
     Truncation   every proper prefix of T is rejected, or is itself a complete description: the one
                  made of the members that are complete
     Accounted    whenever Parse accepts a mutation of T (one token deleted, duplicated or swapped
                  with its neighbour) every non-comment token of the input is in the output:
                  nothing is ignored *)
EXTENDS Idl, Json, Randomization, FiniteSets
CONSTANTS PoolSize, IfacePool

Upper == {"A", "B", "C", "D", "E", "F", "G", "H", "I", "J", "K", "L", "M", "N", "O", "P", "Q", "R", "S", "T", "U", "V", "W", "X", "Y", "Z"}
Lower == {"a", "b", "c", "d", "e", "f", "g", "h", "i", "j", "k", "l", "m", "n", "o", "p", "q", "r", "s", "t", "u", "v", "w", "x", "y", "z"}
Digit == {"0", "1", "2", "3", "4", "5", "6", "7", "8", "9"}
CharClass(ch) == IF ch \in Upper THEN "U" ELSE IF ch \in Lower THEN "l" ELSE IF ch \in Digit THEN "d" ELSE ch
RECURSIVE ClassOf(_)
ClassOf(s) == IF s = "" THEN "" ELSE CharClass(SubSeq(s, 1, 1)) \o ClassOf(SubSeq(s, 2, Len(s)))
Glue == {"?", "[]", "[string]"}
\* tokens of a canonical list as the lexer would deliver them for a text in canonical layout
Lex(ts) == [x \in 1..Len(ts) |->
              [k |-> ts[x].k, s |-> ts[x].s, c |-> IF ts[x].k = "W" THEN ClassOf(ts[x].s) ELSE "",
               sp |-> ~(x > 1 /\ ts[x - 1].k = "P" /\ ts[x - 1].s \in Glue), own |-> TRUE]]

\* ---- the space of descriptions ---------------------------------------------------------------
Ty(t, n, in, fs, vs) == [t |-> t, name |-> n, inner |-> in, fields |-> fs, variants |-> vs]
Prim(n) == Ty("prim", n, <<>>, <<>>, <<>>)
Custom(n) == Ty("custom", n, <<>>, <<>>, <<>>)
Wrap(k, x) == Ty(k, "", <<x>>, <<>>, <<>>)
Struct(fs) == Ty("struct", "", <<>>, fs, <<>>)
Enum(vs) == Ty("enum", "", <<>>, <<>>, vs)
F(n, cs, ty) == [name |-> n, comments |-> cs, ty |-> ty]
V(n, cs) == [name |-> n, comments |-> cs]
T0 == {Prim(p) : p \in Prims} \cup {Custom("Thing"), Custom("A1b")}
Over(S) == {Wrap("opt", x) : x \in {y \in S : y.t # "opt"}} \cup {Wrap("arr", x) : x \in S} \cup {Wrap("map", x) : x \in S}
           \cup {Struct(<<>>)} \cup {Struct(<<F("a", <<>>, x)>>) : x \in S}
           \cup {Struct(<<F("type", <<>>, x), F("b_c9", <<"inner">>, y)>>) : x \in S, y \in S}
           \cup {Enum(<<V("one", <<>>)>>), Enum(<<V("int", <<>>), V("t_2", <<"inner">>)>>)}
T1 == Over(T0)
T2 == Over(RandomSubset(PoolSize, T1))
T3 == Over(RandomSubset(PoolSize, T2))
Types == T0 \cup T1 \cup T2 \cup T3
M(kind, n, cs, ins, outs, vs, isenum) ==
    [kind |-> kind, name |-> n, comments |-> cs, ins |-> ins, outs |-> outs, variants |-> vs, isenum |-> isenum]
MembersOf(ty) ==
    {M("method", "Get", <<>>, <<F("x", <<>>, ty)>>, <<>>, <<>>, FALSE),
     M("method", "Do2", <<"about Do2", "second line">>, <<F("interface", <<"the: input">>, Prim("int")), F("y", <<>>, ty)>>,
       <<F("r", <<"# result )">>, ty)>>, <<>>, FALSE),
     M("type", "Rec", <<"a record">>, <<F("f", <<"field f">>, ty), F("g", <<>>, Prim("string"))>>, <<>>, <<>>, FALSE),
     M("error", "Bad", <<>>, <<F("why", <<>>, ty)>>, <<>>, <<>>, FALSE)}
Fixed == {M("method", "Ping", <<>>, <<>>, <<>>, <<>>, FALSE),
          M("type", "Empty", <<>>, <<>>, <<>>, <<>>, FALSE),
          M("type", "Color", <<"colours">>, <<>>, <<>>, <<V("red", <<>>), V("dark_blue", <<"deep">>), V("error", <<>>)>>, TRUE),
          M("type", "One", <<>>, <<>>, <<>>, <<V("only", <<>>)>>, TRUE),
          M("error", "Gone", <<"no fields">>, <<>>, <<>>, <<>>, FALSE)}
AllMembers == Fixed \cup UNION {MembersOf(ty) : ty \in Types}
I(n, cs, ms) == [name |-> n, comments |-> cs, members |-> ms]
Pool == RandomSubset(IfacePool, AllMembers)
Ifaces == {I("org.example", <<>>, <<>>), I("a.b", <<"only comments">>, <<>>), I("x-y.z0.a--b", <<>>, <<>>)}
          \cup {I("org.example.one", <<>>, <<m>>) : m \in AllMembers}
          \cup {I("com.ex-ample.two", <<"first", "second">>, <<m, n>>) : m \in Pool, n \in Pool}
          \cup {I("io.s9.three", <<>>, <<m, n, o>>) : m \in Fixed, n \in Pool, o \in Pool}

\* (the descriptions are chosen in two steps so that TLC's workers share the work: a bucket, then a
\* description of that bucket; nothing is chosen in Init, which TLC evaluates on its small main stack)
VARIABLES v, b
NB == 16
Bucket(a) == (Len(Canon(a)) % NB) + 1
Init == v = I("org.example", <<>>, <<>>) /\ b = 0
Next == \/ b = 0 /\ b' \in 1..NB /\ v' = v
        \/ b \in 1..NB /\ v' \in {a \in Ifaces : Bucket(a) = b} /\ b' = NB + 1
Spec == Init /\ [][Next]_<<v, b>>

Inverse == LET T == Lex(Canon(v)) p == Parse(T) IN p.ok /\ ~p.gpos /\ ~p.gown /\ p.out = Norm(v) /\ p.members = Len(v.members)
Truncation ==
    LET T == Lex(Canon(v)) IN
    \A n \in 0..(Len(T) - 1) :
        LET p == Parse(SubSeq(T, 1, n)) IN
        p.ok => /\ p.members < Len(v.members) \/ n = Len(T)
                /\ p.out = Norm([v EXCEPT !.members = SubSeq(v.members, 1, p.members)])
                /\ Len(NoComments(Canon([v EXCEPT !.members = SubSeq(v.members, 1, p.members)])))
                     = Len(NoComments(SubSeq(T, 1, n)))
Del(s, i) == SubSeq(s, 1, i - 1) \o SubSeq(s, i + 1, Len(s))
Dup(s, i) == SubSeq(s, 1, i) \o SubSeq(s, i, Len(s))
Swap(s, i) == [x \in 1..Len(s) |-> IF x = i THEN s[i + 1] ELSE IF x = i + 1 THEN s[i] ELSE s[x]]
Whole(U) == LET p == Parse(U) IN p.ok => Len(NoComments(p.out)) = Len(NoComments(U))
Accounted == LET T == Lex(Canon(v)) IN
             /\ \A i \in 1..Len(T) : Whole(Del(T, i)) /\ Whole(Dup(T, i))
             /\ \A i \in 1..(Len(T) - 1) : Whole(Swap(T, i))
Export == b = NB + 1 => PrintT(<<"REPLAY", ToJson(v)>>)
=============================================================================
