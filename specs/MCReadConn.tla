----------------------------- MODULE MCReadConn -----------------------------
(* Exhaustive small-scope configuration of ReadConn: every sequence of up to MaxFrames frames
   (leading/trailing whitespace, bodies up to MaxBody bytes, decodable or not), every partition
   of the byte stream into transport reads, every cancellation point; refinement of Framing. *)
EXTENDS ReadConn

CONSTANTS MaxFrames, MaxBody, MaxExtra

FrameD == {f \in [lead : 0..1, body : 1..MaxBody, trail : 0..1, ok : BOOLEAN] : f.ok => f.body >= 2}
MCInit == \E n \in 1..MaxFrames : \E fs \in [1..n -> FrameD] : InitWith(fs)
MCSpec == MCInit /\ [][Next]_vars

\* stop exploring once more receives were completed than there are frames (+ the eof ones)
Bound == Len(results) <= Len(frames) + MaxExtra

HasOverflow == \E x \in 1..Len(results) : results[x][1] = "overflow"
HasEof == \E x \in 1..Len(results) : results[x][1] = "eof"

F == INSTANCE Framing WITH
        fr <- [i \in 1..Len(frames) |->
                 [cls |-> IF frames[i].ok THEN "ok" ELSE "bad", canon |-> i,
                  acls |-> IF frames[i].ok THEN "ok" ELSE "bad", acanon |-> i, end |-> EndOfFrame(frames, i)]],
        total <- Len(stream), maxb <- MAXB, got <- off,
        k <- NumFrameResults,
        closed <- closed, eofSeen <- (pc = "eofd" \/ HasEof), rdErr <- FALSE,
        dead <- HasOverflow

\* A garbage result counts as a frame result with a class no frame has: Deliver cannot match it.
RefinesFraming == [][F!FNext \/ (HasOverflow /\ HasOverflow')]_(F!fvars)

Inv == FramingInv /\ OverflowOnlyAtLimit /\ BufferBounded /\ SmallFramesAccepted /\ NothingFromTheFuture
=============================================================================
