----------------------------- MODULE MCReadConn -----------------------------
(* Exhaustive small-scope configuration of ReadConn: every sequence of up to MaxFrames frames
   (leading/trailing whitespace, bodies up to MaxBody bytes, decodable or not), every partition
   of the byte stream into transport reads, every cancellation point; refinement of Framing. *)
EXTENDS ReadConn

CONSTANTS MaxFrames, MaxBody, MaxExtra

\* body = 0: a blank frame (whitespace only, at least one byte)
FrameD == {f \in [lead : 0..1, body : 0..MaxBody, trail : 0..1, ok : BOOLEAN] :
              /\ f.ok => f.body >= 2
              /\ f.body = 0 => f.lead = 1}
Cls(f) == IF f.body = 0 THEN "blank" ELSE IF f.ok THEN "ok" ELSE "bad"
MCInit == \E n \in 1..MaxFrames : \E fs \in [1..n -> FrameD] : InitWith(fs)
MCSpec == MCInit /\ [][Next]_vars

\* stop exploring once more receives were completed than there are frames (+ the eof ones)
Bound == Len(results) <= Len(frames) + MaxExtra

HasOverflow == \E x \in 1..Len(results) : results[x][1] = "overflow"
HasEof == \E x \in 1..Len(results) : results[x][1] = "eof"

F == INSTANCE Framing WITH
        fr <- [i \in 1..Len(frames) |->
                 [cls |-> Cls(frames[i]), canon |-> i,
                  acls |-> Cls(frames[i]), acanon |-> i, end |-> EndOfFrame(frames, i)]],
        total <- Len(stream), maxb <- MAXB, got <- off,
        k <- NumFrameResults,
        closed <- closed, eofSeen <- (pc = "eofd" \/ HasEof), rdErr <- FALSE,
        dead <- HasOverflow

\* A garbage result counts as a frame result with a class no frame has: Deliver cannot match it.
RefinesFraming == [][F!FNext \/ (HasOverflow /\ HasOverflow')]_(F!fvars)

Inv == FramingInv /\ OverflowOnlyAtLimit /\ BufferBounded /\ SmallFramesAccepted /\ NothingFromTheFuture
=============================================================================
