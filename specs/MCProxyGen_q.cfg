CONSTANTS NDecl = 220
SPECIFICATION Spec
INVARIANTS LegalMethodName OmitsOnlyNone FormsAgree Export
CHECK_DEADLOCK FALSE
