CONSTANTS NDecl = 240 NPair = 60 NLong = 5
SPECIFICATION Spec
INVARIANTS LegalMethodName OmitsOnlyNone FormsAgree Export
CHECK_DEADLOCK FALSE
