CONSTANTS B = 4  MAXB = 12
SPECIFICATION TSpec
POSTCONDITION Accepted
CHECK_DEADLOCK FALSE
