CONSTANTS B = 4  MAXB = 8
SPECIFICATION TSpec
POSTCONDITION Accepted
CHECK_DEADLOCK FALSE
