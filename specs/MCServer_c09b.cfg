CONSTANTS N = 2  Script <- S_c09b  Faulty = {0}  ReplyToOneway = FALSE  AllowPartial = TRUE  StartRule = "next"
SPECIFICATION Spec
INVARIANT Safety
CHECK_DEADLOCK FALSE
