-------------------------------- MODULE Server --------------------------------
(***************************************************************************)
(* Implementation-shaped model of zlink's Server::run                        *)
(* (zlink-core/src/server/{mod,select_all}.rs).                              *)
(*                                                                           *)
(* State as in the code: the listener's accept queue, the vector of idle      *)
(* connections `conns', the vector of connections parked with a reply stream  *)
(* `streams', the indices of the last winners of the two round-robin selects. *)
(* One loop iteration (Iter) is deterministic given the state, exactly as     *)
(* select_biased! is: accept wins when the listener is ready; otherwise the    *)
(* first ready connection in round-robin order from lastCall + 1 (polls that   *)
(* lose still drain their sockets - receive is cancel safe); otherwise the     *)
(* first ready stream from lastStream + 1.  handle_call writes one reply or    *)
(* error (none for oneway), or parks the connection with its stream           *)
(* (swap_remove + push).  A failed read/decode/write swap_removes only the     *)
(* connection concerned.                                                      *)
(*                                                                           *)
(* The environment: Connect, ClientSend (bursts of frames, possibly cut inside *)
(* a frame), ClientClose, BreakWrites, StreamTick.                            *)
(*                                                                           *)
(* Readiness as the code computes it: a connection is ready iff it has a      *)
(* buffered frame or the bytes read so far end in a terminator; a complete     *)
(* call followed by half of the next frame is not visible until that frame     *)
(* completes (head-of-line effect of the read loop).                          *)
(***************************************************************************)
EXTENDS Naturals, Integers, Sequences, FiniteSets, TLC, SequencesExt

CONSTANTS N,              \* connections are 0..N-1
          Script,         \* [0..N-1 -> Seq(<<kind, arg>>)]
          Faulty,         \* connections the environment may close / make unwritable
          ReplyToOneway,  \* TRUE = the code as pinned (deviation), FALSE = repaired
          AllowPartial,   \* the environment may cut a burst inside a frame
          StartRule       \* "next" : round robin starts after the last winner (code) | "same" : mutant

Conn == 0..(N - 1)
NONE == -1
VARIABLES lq, conns, streams, lastCall, lastStream,
          toSend, sock, pend, buffered, out, gone, unwritable, closedC,
          served, wait, wtot, wtr
vars == <<lq, conns, streams, lastCall, lastStream, toSend, sock, pend, buffered, out, gone, unwritable, closedC,
          served, wait, wtot, wtr>>
hist == <<served, wait, wtot, wtr>>

Init == /\ lq = <<>> /\ conns = <<>> /\ streams = <<>> /\ lastCall = NONE /\ lastStream = NONE
        /\ toSend = [c \in Conn |-> [i \in 1..Len(Script[c]) |-> <<c, i, Script[c][i]>>]]
        /\ sock = [c \in Conn |-> <<>>] /\ pend = [c \in Conn |-> <<>>] /\ buffered = [c \in Conn |-> <<>>]
        /\ out = [c \in Conn |-> <<>>] /\ gone = {} /\ unwritable = {} /\ closedC = {}
        /\ served = <<>>
        /\ wait = [x \in Conn |-> [d \in Conn |-> 0]] /\ wtot = [x \in Conn |-> 0] /\ wtr = [x \in Conn |-> 0]

ConnSet(v) == {v[i] : i \in 1..Len(v)}
Connected == ConnSet(conns) \cup {streams[i].c : i \in 1..Len(streams)} \cup ConnSet(lq)

\* ---------------- environment ----------------
EnvUnch == UNCHANGED <<conns, streams, lastCall, lastStream, buffered, out, gone, served>>
Connect(c) == /\ c \notin Connected /\ c \notin gone
              /\ lq' = Append(lq, c)
              /\ EnvUnch /\ UNCHANGED <<toSend, sock, pend, unwritable, closedC>>
\* a burst of k whole frames, optionally followed by the first part of the next frame
ClientSend(c, k, cut) ==
    /\ c \in Connected /\ c \notin closedC /\ k \in 1..Len(toSend[c])
    /\ (cut => AllowPartial /\ k < Len(toSend[c]))
    /\ sock' = [sock EXCEPT ![c] = Append(@, [fr |-> SubSeq(toSend[c], 1, k), whole |-> ~cut, eof |-> FALSE])]
    /\ toSend' = [toSend EXCEPT ![c] = SubSeq(@, k + 1, Len(@))]
    /\ EnvUnch /\ UNCHANGED <<lq, pend, unwritable, closedC>>
ClientClose(c) ==
    /\ c \in Faulty /\ c \in Connected /\ c \notin closedC
    /\ sock' = [sock EXCEPT ![c] = Append(@, [fr |-> <<>>, whole |-> TRUE, eof |-> TRUE])]
    /\ closedC' = closedC \cup {c}
    /\ EnvUnch /\ UNCHANGED <<lq, toSend, pend, unwritable>>
BreakWrites(c) ==
    /\ c \in Faulty /\ c \notin unwritable /\ unwritable' = unwritable \cup {c}
    /\ EnvUnch /\ UNCHANGED <<lq, toSend, sock, pend, closedC>>
\* a stream's next item (or its end) becomes available
StreamTick(i) == /\ i \in 1..Len(streams) /\ ~streams[i].avail
                 /\ streams' = [streams EXCEPT ![i].avail = TRUE]
                 /\ UNCHANGED <<lq, conns, lastCall, lastStream, toSend, sock, pend, buffered, out, gone, unwritable,
                                closedC, served>>

\* ---------------- server: one loop iteration ----------------
SwapRemove(s, i) == IF i = Len(s) THEN SubSeq(s, 1, Len(s) - 1)
                    ELSE [k \in 1..(Len(s) - 1) |-> IF k = i THEN s[Len(s)] ELSE s[k]]
EofCall(c) == <<c, 0, <<"eof", 0>> >>
\* polling connection c's receive_call: <<ready, sock', pend', frames now buffered>>
RECURSIVE Drain(_, _, _)
Drain(c, sk, pd) ==
    IF sk = <<>> THEN <<FALSE, sk, pd, <<>> >>
    ELSE LET ch == Head(sk) IN
         IF ch.eof THEN <<TRUE, Tail(sk), <<>>, <<EofCall(c)>> >>        \* end of stream (possibly mid-frame)
         ELSE IF ch.whole THEN <<TRUE, Tail(sk), <<>>, pd \o ch.fr>>
         ELSE Drain(c, Tail(sk), pd \o ch.fr)
Poll(c) == IF buffered[c] # <<>> THEN <<TRUE, sock[c], pend[c], buffered[c]>> ELSE Drain(c, sock[c], pend[c])
Order(n, start) == [k \in 1..n |-> ((start + k - 1) % n) + 1]   \* 1-based indices, start is a 0-based offset
StartOf(last, n) == IF last = NONE THEN 0
                    ELSE IF StartRule = "next" THEN (last + 1) % n ELSE last % n

Accept == /\ lq # <<>>
          /\ conns' = Append(conns, Head(lq)) /\ lq' = Tail(lq)
          /\ UNCHANGED <<streams, lastCall, lastStream, toSend, sock, pend, buffered, out, gone, unwritable, closedC, served>>

Reply(call) == <<"reply", call[1], call[2], 0>>
ErrorR(call) == <<"error", call[1], call[2], 0>>
Item(call, j) == <<"item", call[1], call[2], j>>

CallBranch ==
  /\ lq = <<>> /\ conns # <<>>
  /\ LET n == Len(conns)
         ord == Order(n, StartOf(lastCall, n))
         polls == [k \in 1..n |-> Poll(conns[ord[k]])]
         winners == {k \in 1..n : polls[k][1]}
     IN /\ winners # {}
        /\ LET w == CHOOSE k \in winners : \A j \in winners : k <= j
               idx == ord[w]                 \* 1-based index in conns
               c == conns[idx]
               call == Head(polls[w][4])
               kind == call[3][1]
               karg == call[3][2]
               \* polls up to and including the winner keep their side effects
               touched == {conns[ord[k]] : k \in 1..w}
               sock1 == [x \in Conn |-> IF x \in touched THEN Poll(x)[2] ELSE sock[x]]
               pend1 == [x \in Conn |-> IF x \in touched THEN Poll(x)[3] ELSE pend[x]]
               buf1 == [x \in Conn |-> IF x = c THEN Tail(Poll(x)[4]) ELSE IF x \in touched THEN Poll(x)[4] ELSE buffered[x]]
               writeFails == c \in unwritable
               drop == /\ conns' = SwapRemove(conns, idx) /\ gone' = gone \cup {c}
               keep == UNCHANGED <<conns, gone>>
           IN /\ lastCall' = idx - 1
              /\ sock' = sock1 /\ pend' = pend1 /\ buffered' = buf1
              /\ served' = IF kind \in {"eof", "bad"} THEN served ELSE Append(served, <<c, call[2]>>)
              /\ CASE kind = "plain" -> IF writeFails THEN drop /\ UNCHANGED <<out, streams>>
                                        ELSE out' = [out EXCEPT ![c] = Append(@, Reply(call))] /\ keep /\ UNCHANGED streams
                   [] kind = "error" -> IF writeFails THEN drop /\ UNCHANGED <<out, streams>>
                                        ELSE out' = [out EXCEPT ![c] = Append(@, ErrorR(call))] /\ keep /\ UNCHANGED streams
                   [] kind = "oneway" -> IF ReplyToOneway
                                         THEN (IF writeFails THEN drop /\ UNCHANGED <<out, streams>>
                                               ELSE out' = [out EXCEPT ![c] = Append(@, Reply(call))] /\ keep /\ UNCHANGED streams)
                                         ELSE keep /\ UNCHANGED <<out, streams>>
                   [] kind \in {"bad", "eof"} -> drop /\ UNCHANGED <<out, streams>>
                   [] OTHER -> \* <<"stream", k>>: the connection is parked with its stream
                               /\ conns' = SwapRemove(conns, idx) /\ UNCHANGED <<gone, out>>
                               /\ streams' = Append(streams, [c |-> c, call |-> call, left |-> karg, j |-> 0, avail |-> FALSE])
  /\ UNCHANGED <<lq, lastStream, toSend, unwritable, closedC>>

NoCallReady == \A i \in 1..Len(conns) : ~Poll(conns[i])[1]
\* polls with no winner still drain partial chunks (cancel-safe reads)
DrainAll == /\ sock' = [x \in Conn |-> IF x \in ConnSet(conns) THEN Poll(x)[2] ELSE sock[x]]
            /\ pend' = [x \in Conn |-> IF x \in ConnSet(conns) THEN Poll(x)[3] ELSE pend[x]]

StreamBranch ==
  /\ lq = <<>> /\ NoCallReady /\ streams # <<>>
  /\ LET n == Len(streams)
         ord == Order(n, StartOf(lastStream, n))
         winners == {k \in 1..n : streams[ord[k]].avail}
     IN /\ winners # {}
        /\ LET w == CHOOSE k \in winners : \A j \in winners : k <= j
               idx == ord[w]
               s == streams[idx]
           IN /\ lastStream' = idx - 1
              /\ IF s.left > 0
                 THEN IF s.c \in unwritable
                      THEN \* the subscription is dropped, nothing else
                           /\ streams' = SwapRemove(streams, idx) /\ gone' = gone \cup {s.c}
                           /\ UNCHANGED <<out, conns>>
                      ELSE /\ out' = [out EXCEPT ![s.c] = Append(@, Item(s.call, s.j + 1))]
                           /\ streams' = [streams EXCEPT ![idx] = [@ EXCEPT !.left = @ - 1, !.j = @ + 1, !.avail = FALSE]]
                           /\ UNCHANGED <<conns, gone>>
                 ELSE \* the stream ended: the connection takes calls again
                      /\ streams' = SwapRemove(streams, idx) /\ conns' = Append(conns, s.c)
                      /\ UNCHANGED <<out, gone>>
  /\ DrainAll
  /\ UNCHANGED <<lq, lastCall, toSend, buffered, unwritable, closedC, served>>

Iter == Accept \/ CallBranch \/ StreamBranch
Env == \/ \E c \in Conn : Connect(c) \/ ClientClose(c) \/ BreakWrites(c)
       \/ \E c \in Conn, k \in 1..8, cut \in BOOLEAN : ClientSend(c, k, cut)
       \/ \E i \in 1..Len(streams) : StreamTick(i)

\* ---------------- fairness history (C18) ----------------
ReadyPre(x) == x \in ConnSet(conns) /\ Poll(x)[1]
Zeros == [d \in Conn |-> 0]
FairUpdate ==
  LET servedNow == Len(served') > Len(served)
      c0 == IF servedNow THEN served'[Len(served')][1] ELSE 0
      setChanged == ConnSet(conns') # ConnSet(conns)
  IN /\ wait' = [x \in Conn |->
                   IF ~ReadyPre(x) \/ (servedNow /\ x = c0) THEN Zeros
                   ELSE IF setChanged THEN Zeros
                   ELSE IF servedNow THEN [wait[x] EXCEPT ![c0] = @ + 1] ELSE wait[x]]
     /\ wtot' = [x \in Conn |->
                   IF ~ReadyPre(x) \/ (servedNow /\ x = c0) THEN 0
                   ELSE IF servedNow THEN wtot[x] + 1 ELSE wtot[x]]
     /\ wtr' = [x \in Conn |->
                   IF ~ReadyPre(x) \/ (servedNow /\ x = c0) THEN 0
                   ELSE IF setChanged THEN wtr[x] + 1 ELSE wtr[x]]
Next == (Iter \/ Env) /\ FairUpdate
Spec == Init /\ [][Next]_vars

\* ---------------- properties ----------------
\* what each connection is owed, in order, from its own script alone (C08, C10)
RECURSIVE Owed(_, _, _)
Owed(c, sc, i) == IF i > Len(sc) THEN <<>> ELSE
   LET k == sc[i] call == <<c, i, k>> IN
   IF k[1] = "plain" THEN <<Reply(call)>> \o Owed(c, sc, i + 1)
   ELSE IF k[1] = "error" THEN <<ErrorR(call)>> \o Owed(c, sc, i + 1)
   ELSE IF k[1] = "oneway" THEN Owed(c, sc, i + 1)
   ELSE IF k[1] = "bad" THEN <<>>
   ELSE [j \in 1..k[2] |-> Item(call, j)] \o Owed(c, sc, i + 1)
OutIsPrefixOfOwed == \A c \in Conn : IsPrefix(out[c], Owed(c, Script[c], 1))
\* every call reaches the service at most once, per connection in order
ServedOnceInOrder == \A a \in 1..Len(served) : \A b \in 1..Len(served) :
                        (a < b /\ served[a][1] = served[b][1]) => served[a][2] < served[b][2]
Quiescent == /\ ~ENABLED Iter /\ streams = <<>> /\ lq = <<>>
             /\ \A c \in Conn : toSend[c] = <<>> /\ (c \in Connected \/ c \in gone)
HasBad(c) == \E i \in 1..Len(Script[c]) : Script[c][i][1] = "bad"
Healthy(c) == c \notin Faulty /\ ~HasBad(c)
AllServedAtQuiescence == Quiescent => \A c \in Conn : Healthy(c) => out[c] = Owed(c, Script[c], 1)
OnlyFaultyGone == \A c \in gone : ~Healthy(c)                        \* C09
FairWindow == \A x \in Conn : \A d \in Conn : wait[x][d] <= 1         \* C18
FairBound == \A x \in Conn : wtot[x] <= N * (wtr[x] + 1)
Safety == OutIsPrefixOfOwed /\ ServedOnceInOrder /\ AllServedAtQuiescence /\ OnlyFaultyGone
=============================================================================
