---------------------------- MODULE OutboundTrace ----------------------------
(* Trace validation of real executions of Connection::{enqueue_call, send_call, send_reply,
   send_error, flush} against the property-level specification Outbound (C02, C17 outbound).
   Events: reset, op{kind,h,len,bad}, write{docs,tail}, ret{cls}, retq{cls}, end. *)
EXTENDS Outbound, Json, IOUtils, TLC

Rec == ndJsonDeserialize(IOEnv.TRACE)
VARIABLE l
tvars == <<pend, maxb, cur, wrote, l>>

IsEv(e) == l <= Len(Rec) /\ Rec[l].ev = e /\ l' = l + 1

TInit == l = 1 /\ pend = <<>> /\ maxb = 0 /\ cur = NoOp /\ wrote = FALSE
TReset == IsEv("reset") /\ pend' = <<>> /\ maxb' = Rec[l].MAXB /\ cur' = NoOp /\ wrote' = FALSE
TOp == IsEv("op") /\ Begin(Rec[l].kind, [h |-> Rec[l].h, len |-> Rec[l].len], Rec[l].bad)
TWrite == IsEv("write") /\ Write(Rec[l].docs, Rec[l].tail)
\* (`retq': a return logged without cursor values - the calls of a chain, while the chain borrows the connection)
TRet == /\ (IsEv("ret") \/ IsEv("retq"))
        /\ LET c == Rec[l].cls IN
           CASE c = "ok" -> RetOk
             [] c = "overflow" -> RetOverflow
             [] c = "ser_err" -> RetRefused
             [] c = "io_err" -> RetIoErr
             [] c = "cancelled" -> RetCancelled
             [] OTHER -> FALSE
\* a failed transport write: the operation must report it
TWriteErr == IsEv("write_err") /\ cur.kind \in {"send", "flush"} /\ UNCHANGED ovars
TEnd == IsEv("end") /\ cur = NoOp /\ UNCHANGED ovars
TNext == TReset \/ TOp \/ TWrite \/ TRet \/ TWriteErr \/ TEnd
TSpec == TInit /\ [][TNext]_tvars
Accepted ==
    LET d == TLCGet("stats").diameter IN
    IF d - 1 = Len(Rec) THEN TRUE
    ELSE /\ PrintT(<<"REJECT", d, ToJson(Rec[d])>>)
         /\ FALSE
=============================================================================
