--------------------------- MODULE ReadConnTrace ---------------------------
(* Implementation-level trace validation: executions of the real ReadConnection, built with the
   hook-lowered growth step B and limit MAXB, are replayed action by action against ReadConn.tla
   and the cursors / buffer length the hook reports are compared with the model's after every
   step.  A mismatch here means the model no longer describes the code (MODEL-DRIFT); the
   property verdict itself comes from FramingTrace. *)
EXTENDS ReadConn, Json, IOUtils

Rec == ndJsonDeserialize(IOEnv.TRACE)
VARIABLES l, skip   \* skip: the scenario carries no abstract frame descriptors (not byte-exact): not followed
tvars == <<frames, stream, off, buf, rp, mp, pc, results, closed, l, skip>>

IsEvR(e) == l <= Len(Rec) /\ Rec[l].ev = e /\ l' = l + 1
IsEv(e) == IsEvR(e) /\ ~skip /\ skip' = skip
Same(e) == rp' = e.rp /\ mp' = e.mp /\ Len(buf') = e.blen

TInit == l = 1 /\ InitWith(<<>>) /\ skip = FALSE
TReset == /\ IsEvR("reset")
          /\ skip' = (Rec[l].fd = <<>> /\ Rec[l].total > 0)
          /\ LET fs == Rec[l].fd IN
             /\ frames' = fs /\ stream' = StreamOf(fs, 1)
             /\ off' = 0 /\ buf' = Zero(B) /\ rp' = 0 /\ mp' = 0 /\ pc' = "idle"
             /\ results' = <<>> /\ closed' = FALSE
          /\ Rec[l].B = B /\ Rec[l].MAXB = MAXB
TStart == IsEv("start") /\ Start
TChunk == IsEv("chunk") /\ Read(Rec[l].n)
TClose == IsEv("close") /\ closed' = TRUE /\ UNCHANGED <<frames, stream, off, buf, rp, mp, pc, results>>
TReadEof == IsEv("read_eof") /\ Eof
TPending == IsEv("pending") /\ pc = "read" /\ UNCHANGED vars
TCancel == IsEv("cancel") /\ Cancel /\ Same(Rec[l])
ResultClass(r) == CASE r[1] = "ok" -> "okframe" [] r[1] = "bad" -> "decode_err" [] r[1] = "garbage" -> "decode_err"
                    [] r[1] = "eof" -> "eof" [] r[1] = "blank" -> "eof" [] r[1] = "overflow" -> "overflow"
TRecv == /\ IsEv("recv")
         /\ (Parse \/ Fail)
         /\ Same(Rec[l])
         /\ LET r == results'[Len(results')] IN
            IF ResultClass(r) = "okframe" THEN Rec[l].cls \in {"msg", "success"} ELSE Rec[l].cls = ResultClass(r)
TEnd == IsEv("end") /\ UNCHANGED vars
TSkip == skip /\ l <= Len(Rec) /\ Rec[l].ev # "reset" /\ l' = l + 1 /\ UNCHANGED <<vars, skip>>
TNext == TSkip \/ TReset \/ TStart \/ TChunk \/ TClose \/ TReadEof \/ TPending \/ TCancel \/ TRecv \/ TEnd
TSpec == TInit /\ [][TNext]_tvars
Accepted ==
    LET d == TLCGet("stats").diameter IN
    IF d - 1 = Len(Rec) THEN TRUE
    ELSE /\ PrintT(<<"REJECT", d, ToJson(Rec[d])>>)
         /\ FALSE
=============================================================================
