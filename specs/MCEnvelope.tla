----------------------------- MODULE MCEnvelope -----------------------------
EXTENDS Envelope
M(nm) == [n |-> nm, v |-> "val"]
Owns == {<<M("method")>>, <<M("method"), M("parameters")>>, <<M("parameters"), M("method")>>,
         <<M("method"), M("a"), M("b")>>}
=============================================================================
