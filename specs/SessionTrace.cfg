SPECIFICATION TSpec
POSTCONDITION Accepted
CHECK_DEADLOCK FALSE
