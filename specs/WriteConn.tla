------------------------------ MODULE WriteConn ------------------------------
(***************************************************************************)
(* Implementation-shaped model of zlink's WriteConnection                   *)
(* (zlink-core/src/connection/write_connection.rs): the growable write       *)
(* buffer (length blen), the fill cursor `pos', the serialize-retry loop of  *)
(* `enqueue' (to_slice fails with BufferTooSmall until the buffer has grown   *)
(* enough, every retry starts from scratch), the terminator placement with    *)
(* the "document ends exactly at the buffer end" branch, and `flush' (one     *)
(* transport write of [0,pos), pos reset only after the write returned).      *)
(*   OpBegin     an operation is called                                       *)
(*   Serialize   the retry loop: grow until the document fits / refuse        *)
(*   Terminate   NUL placement (may grow once more / refuse)                  *)
(*   FlushWrite  the transport write (the only await)                         *)
(*   FlushDone   pos := 0 after the write returned                            *)
(*   Return      the operation returns                                        *)
(***************************************************************************)
EXTENDS Naturals, Sequences, TLC

CONSTANTS B, MAXB,
          Lens,       \* document lengths the environment may submit
          ResetRule   \* "after" (code: pos reset after the write returned) | "before" (mutant)

VARIABLES blen, pos,
          q,        \* documents in the buffer [0,pos): Seq([h, len])
          wire,     \* write calls so far: Seq(Seq([h, len]))
          op,       \* [kind, doc, bad] being executed, or NoOp
          pc,       \* "idle" | "ser" | "term" | "flush" | "wrote" | "ret"
          res,      \* result of the operation when pc = "ret"
          nid,      \* next document id
          wroteNow  \* the current operation performed a write
vars == <<blen, pos, q, wire, op, pc, res, nid, wroteNow>>

NoDoc == [h |-> "", len |-> 0]
NoOp == [kind |-> "none", doc |-> NoDoc, bad |-> FALSE]
Doc(i, n) == [h |-> ToString(i), len |-> n]

Init == /\ blen = B /\ pos = 0 /\ q = <<>> /\ wire = <<>> /\ op = NoOp /\ pc = "idle"
        /\ res = "none" /\ nid = 1 /\ wroteNow = FALSE

OpBegin(kind, n, bad) ==
    /\ pc = "idle"
    /\ op' = [kind |-> kind, doc |-> (IF kind = "flush" THEN NoDoc ELSE Doc(nid, n)), bad |-> bad]
    /\ nid' = IF kind = "flush" THEN nid ELSE nid + 1
    /\ pc' = IF kind = "flush" THEN "flush" ELSE "ser"
    /\ wroteNow' = FALSE
    /\ UNCHANGED <<blen, pos, q, wire, res>>

\* grow_buffer: refuses when the buffer already has the limit's size
CanGrow(b) == b < MAXB
\* the retry loop of `enqueue': smallest reachable length that holds `n' more bytes
RECURSIVE Fit(_, _)
Fit(b, n) == IF b - pos >= n THEN <<TRUE, b>>
             ELSE IF CanGrow(b) THEN Fit(b + B, n) ELSE <<FALSE, b>>

Serialize ==
    /\ pc = "ser"
    /\ IF op.bad
       THEN \* the serializer reports an error (possibly after some BufferTooSmall retries: the
            \* buffer may have grown meanwhile, nothing else changes;
            \* or hits the limit while retrying)
            /\ \/ \E b \in {blen} \cup {x \in {blen + B} : CanGrow(blen)} : blen' = b /\ res' = "refused"
               \/ ~CanGrow(blen) /\ blen' = blen /\ res' = "overflow"
            /\ pc' = "ret"
       ELSE LET f == Fit(blen, op.doc.len) IN
            /\ blen' = f[2]
            /\ IF f[1] THEN pc' = "term" /\ res' = res ELSE pc' = "ret" /\ res' = "overflow"
    /\ UNCHANGED <<pos, q, wire, op, nid, wroteNow>>

Terminate ==
    /\ pc = "term"
    /\ IF pos + op.doc.len = blen /\ ~CanGrow(blen)
       THEN /\ pc' = "ret" /\ res' = "overflow" /\ UNCHANGED <<blen, pos, q>>
       ELSE /\ blen' = IF pos + op.doc.len = blen THEN blen + B ELSE blen
            /\ pos' = pos + op.doc.len + 1
            /\ q' = Append(q, op.doc)
            /\ IF op.kind = "enqueue" THEN pc' = "ret" /\ res' = "ok" ELSE pc' = "flush" /\ res' = res
    /\ UNCHANGED <<wire, op, nid, wroteNow>>

FlushWrite ==
    /\ pc = "flush"
    /\ IF pos = 0
       THEN pc' = "ret" /\ res' = "ok" /\ UNCHANGED <<wire, wroteNow, q, pos>>
       ELSE /\ wire' = Append(wire, q) /\ wroteNow' = TRUE /\ pc' = "wrote" /\ res' = res
            /\ IF ResetRule = "before" THEN pos' = 0 /\ q' = <<>> ELSE UNCHANGED <<pos, q>>
    /\ UNCHANGED <<blen, op, nid>>

FlushDone ==
    /\ pc = "wrote"
    /\ pos' = 0 /\ q' = <<>> /\ pc' = "ret" /\ res' = "ok"
    /\ UNCHANGED <<blen, wire, op, nid, wroteNow>>

\* The send / flush future is dropped while its only await - the transport write - is pending and has
\* not taken a byte yet: the fill position stays, so the next flush carries everything (cancel safety).
CancelAtWrite ==
    /\ pc = "flush" /\ pos > 0
    /\ pc' = "idle" /\ op' = NoOp /\ res' = "none"
    /\ UNCHANGED <<blen, pos, q, wire, nid, wroteNow>>

Return ==
    /\ pc = "ret"
    /\ pc' = "idle" /\ op' = NoOp /\ res' = "none"
    /\ UNCHANGED <<blen, pos, q, wire, nid, wroteNow>>

Next == \/ \E kd \in {"enqueue", "send", "flush"}, n \in Lens, b \in BOOLEAN : OpBegin(kd, n, b)
        \/ Serialize \/ Terminate \/ FlushWrite \/ FlushDone \/ Return \/ CancelAtWrite
Spec == Init /\ [][Next]_vars

\* ---- properties (C02, C17 outbound) ----------------------------------------------
RECURSIVE BytesOf(_)
BytesOf(ds) == IF ds = <<>> THEN 0 ELSE Head(ds).len + 1 + BytesOf(Tail(ds))
RECURSIVE Flat(_)
Flat(ws) == IF ws = <<>> THEN <<>> ELSE Head(ws) \o Flat(Tail(ws))

\* the buffer never exceeds the limit; the cursor equals the bytes of the enqueued documents
BufferBounded == blen <= MAXB /\ pos <= blen /\ pos = BytesOf(q)
\* what reached the transport plus what is enqueued is a strictly increasing id sequence
\* (each accepted document exactly once, in submission order)
InOrderOnce == LET all == IF pc = "wrote" THEN Flat(wire) ELSE Flat(wire) \o q IN
               \A i \in 1..Len(all) : \A j \in 1..Len(all) : i < j => all[i].h # all[j].h
NoEmptyWrite == \A i \in 1..Len(wire) : wire[i] # <<>>
=============================================================================
