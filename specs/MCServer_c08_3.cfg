CONSTANTS N = 3  Script <- S_c08_3  Faulty = {}  ReplyToOneway = FALSE  AllowPartial = FALSE  StartRule = "next"
SPECIFICATION Spec
INVARIANT Safety
CHECK_DEADLOCK FALSE
