CONSTANTS Subs = {s1, s2, s3}  MaxSets = 4  MaxHandles = 2  LagRule = "skip"
SPECIFICATION Spec
INVARIANT Safety
CHECK_DEADLOCK FALSE
