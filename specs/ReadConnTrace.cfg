CONSTANTS B = 4  MAXB = 12  CursorRule = "terminator"
SPECIFICATION TSpec
POSTCONDITION Accepted
CHECK_DEADLOCK FALSE
