CONSTANTS B = 4  MAXB = 8  CursorRule = "terminator"
SPECIFICATION TSpec
POSTCONDITION Accepted
CHECK_DEADLOCK FALSE
