------------------------------- MODULE Session -------------------------------
(***************************************************************************)
(* One client connection talking to a zlink server: the composition of the  *)
(* client side (proxy methods, chains, reply streams: Chain.tla), the        *)
(* framing in both directions (ReadConn / WriteConn) and the server loop     *)
(* (Server.tla), seen from the two ends only.                                *)
(*                                                                         *)
(* The client pipelines calls; each is plain (one reply or one error),       *)
(* oneway (no reply) or `more' (n continuing replies, then a final one).     *)
(* The server handles the calls of a connection in order and writes what     *)
(* each is owed.  The client never sees which call a reply belongs to: it    *)
(* attributes the next reply to the oldest call that still expects one, and  *)
(* moves on when a reply does not continue.                                  *)
(*                                                                         *)
(* Correspondence: every reply is attributed to the call that caused it.     *)
(* (With a server that answers oneway calls - the defect repaired by         *)
(* c228414 - or a client that forgets that a streaming call is still open,   *)
(* TLC finds the misattribution.)                                            *)
(***************************************************************************)
EXTENDS Naturals, Sequences, FiniteSets
CONSTANTS MaxCalls, MaxItems,
          ServerAnswersOneway,     \* deviation: FALSE for the repaired server
          ClientMayAbandon,        \* the client may drop a reply stream before its final reply and go on calling
          ClientDrainsAbandoned    \* ... and then reads and discards what the abandoned call is still owed
Kinds == {[k |-> "plain", n |-> 0], [k |-> "error", n |-> 0], [k |-> "oneway", n |-> 0]}
         \cup {[k |-> "more", n |-> n] : n \in 0..MaxItems}

\* Varlink replies carry no identification of the call they answer.  A client that abandons a `more' stream
\* (Chain.tla!Abandon: the frames it did not take stay with the connection) and then uses the connection for
\* another exchange reads the abandoned call's remaining replies as answers to the new one - unless it drains
\* them first.  zlink leaves that to the caller; Session_abandon.cfg lets TLC exhibit the misattribution
\* (ClientMayAbandon, not draining) and Session_drain.cfg shows that draining restores Correspondence.
VARIABLES calls,      \* the calls the client has sent so far, in order
          handled,    \* how many of them the server has handled
          wire,       \* replies written by the server and not yet read by the client: [call, cont]
          cur,        \* client: index of the last call whose replies are complete (or that expects none)
          log         \* client: <<attributed call, actual call>> for every reply read
vars == <<calls, handled, wire, cur, log>>

Expects(c) == c.k # "oneway"
\* the oldest call after position p that expects a reply (or Len(calls) + 1)
RECURSIVE NextExpecting(_, _)
NextExpecting(cs, p) == IF p + 1 > Len(cs) THEN p + 1 ELSE IF Expects(cs[p + 1]) THEN p + 1 ELSE NextExpecting(cs, p + 1)

Init == calls = <<>> /\ handled = 0 /\ wire = <<>> /\ cur = 0 /\ log = <<>>

Send == /\ Len(calls) < MaxCalls
        /\ \E c \in Kinds : calls' = Append(calls, c)
        /\ UNCHANGED <<handled, wire, cur, log>>

\* what the server writes for the i-th call
Owed(i) == LET c == calls[i] IN
           CASE c.k \in {"plain", "error"} -> <<[call |-> i, cont |-> FALSE]>>
             [] c.k = "oneway" -> IF ServerAnswersOneway THEN <<[call |-> i, cont |-> FALSE]>> ELSE <<>>
             [] c.k = "more" -> [j \in 1..(c.n + 1) |-> [call |-> i, cont |-> j <= c.n]]
Handle == /\ handled < Len(calls)
          /\ handled' = handled + 1
          /\ wire' = wire \o Owed(handled + 1)
          /\ UNCHANGED <<calls, cur, log>>

\* the client reads the next reply and attributes it
Read == /\ wire # <<>>
        /\ LET at == NextExpecting(calls, cur)        \* the oldest call that still expects a reply
               r == Head(wire) IN
           /\ at <= Len(calls)                       \* (a reply nobody waits for is never read)
           /\ log' = Append(log, <<at, r.call>>)
           /\ cur' = IF r.cont THEN cur ELSE at
        /\ wire' = Tail(wire)
        /\ UNCHANGED <<calls, handled>>

\* the client drops the stream of the `more' call it is reading (some of its replies are still to come)
Abandon == /\ ClientMayAbandon
           /\ LET at == NextExpecting(calls, cur) IN
              /\ at <= Len(calls) /\ calls[at].k = "more"
              /\ \E x \in 1..Len(log) : log[x][1] = at          \* it has read at least one reply of it
              /\ cur' = at
              /\ IF ClientDrainsAbandoned
                 THEN \* everything the call is owed is written by then and discarded unread by the application
                      /\ handled >= at
                      /\ wire' = SelectSeq(wire, LAMBDA r : r.call # at)
                 ELSE UNCHANGED wire
           /\ UNCHANGED <<calls, handled, log>>

Next == Send \/ Handle \/ Read \/ Abandon
Spec == Init /\ [][Next]_vars

Correspondence == \A x \in 1..Len(log) : log[x][1] = log[x][2]
\* nothing is left over or missing once everything was handled and read
Complete == (handled = Len(calls) /\ wire = <<>>) =>
               \A i \in 1..Len(calls) :
                  Cardinality({x \in 1..Len(log) : log[x][1] = i}) = Len(Owed(i))
=============================================================================
