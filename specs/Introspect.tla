----------------------------- MODULE Introspect -----------------------------
(***************************************************************************)
(* C16: what the introspection derives must say about a Rust type.          *)
(*                                                                         *)
(* Rust type expressions are records [k, n, a]:                             *)
(*   prim    n in bool i8..u64 isize usize f32 f64 String &str char          *)
(*   opt     Option<a[1]>                                                    *)
(*   seq     n in Vec slice HashSet BTreeSet, element a[1]                    *)
(*   map     n in HashMapString HashMapStr BTreeMapString BTreeMapStr,        *)
(*           value a[1]                                                      *)
(*   wrap    n in Box Rc Arc Cell RefCell Cow, transparent over a[1]          *)
(*   special n in the std types with a fixed description                     *)
(*   unit    ()                                                              *)
(*   custom  a type of the group that derives CustomType: by name             *)
(*   inline  a type of the group that derives Type: described in place        *)
(* VarlinkOf maps them to the IDL types of Idl.tla.                           *)
(*                                                                         *)
(* A group is what one generated module declares: `customs' (CustomType       *)
(* derives), `inlines' (Type derives), `errs' (the variants of one            *)
(* ReplyError enum) and `probes' (type expressions used as parameters of a    *)
(* method so that every row of the table is met).  IfaceOf(g) is the          *)
(* interface description the derived constants must add up to.                *)
(***************************************************************************)
EXTENDS Idl

Ints == {"i8", "i16", "i32", "i64", "u8", "u16", "u32", "u64", "isize", "usize"}
Floats == {"f32", "f64"}
Strs == {"String", "&str", "char"}
SpecialFloat == {"Duration", "Instant", "SystemTime"}
SpecialString == {"PathBuf", "OsString", "IpAddr", "Ipv4Addr", "Ipv6Addr", "SocketAddr", "SocketAddrV4", "SocketAddrV6",
                  "CowStr", "BoxStr", "BoxPath", "BoxOsStr"}
SpecialObject == {"Value"}

Leaf(t, n) == [t |-> t, name |-> n, inner |-> <<>>, fields |-> <<>>, variants |-> <<>>]
WrapTy(t, x) == [t |-> t, name |-> "", inner |-> <<x>>, fields |-> <<>>, variants |-> <<>>]
StructTy(fs) == [t |-> "struct", name |-> "", inner |-> <<>>, fields |-> fs, variants |-> <<>>]
EnumTy(vs) == [t |-> "enum", name |-> "", inner |-> <<>>, fields |-> <<>>, variants |-> vs]

PrimName(n) == IF n = "bool" THEN "bool" ELSE IF n \in Ints THEN "int" ELSE IF n \in Floats THEN "float" ELSE "string"
SpecialName(n) == IF n \in SpecialFloat THEN "float" ELSE IF n \in SpecialObject THEN "object" ELSE "string"

\* inl: the Type-derived declarations of the group, by name
RECURSIVE VarlinkOf(_, _), FieldsOf(_, _)
VarlinkOf(rt, inl) ==
    CASE rt.k = "prim" -> Leaf("prim", PrimName(rt.n))
      [] rt.k = "special" -> Leaf("prim", SpecialName(rt.n))
      [] rt.k = "opt" -> WrapTy("opt", VarlinkOf(rt.a[1], inl))
      [] rt.k = "seq" -> WrapTy("arr", VarlinkOf(rt.a[1], inl))
      [] rt.k = "map" -> WrapTy("map", VarlinkOf(rt.a[1], inl))
      [] rt.k = "wrap" -> VarlinkOf(rt.a[1], inl)
      [] rt.k = "unit" -> StructTy(<<>>)
      [] rt.k = "custom" -> Leaf("custom", rt.n)
      [] rt.k = "inline" -> IF inl[rt.n].isenum
                            THEN EnumTy([x \in 1..Len(inl[rt.n].variants) |->
                                           [name |-> inl[rt.n].variants[x].name, comments |-> inl[rt.n].variants[x].docs]])
                            ELSE StructTy(FieldsOf(inl[rt.n].fields, inl))
\* fields / variants in declaration order, under their Rust names, doc comments as comments
FieldsOf(fs, inl) == [x \in 1..Len(fs) |-> [name |-> fs[x].name, comments |-> fs[x].docs, ty |-> VarlinkOf(fs[x].ty, inl)]]
VariantsOf(vs) == [x \in 1..Len(vs) |-> [name |-> vs[x].name, comments |-> vs[x].docs]]

Member(kind, n, cs, ins, outs, vs, isenum) ==
    [kind |-> kind, name |-> n, comments |-> cs, ins |-> ins, outs |-> outs, variants |-> vs, isenum |-> isenum]
Inl(g) == [n \in {g.inlines[i].name : i \in 1..Len(g.inlines)} |->
             CHOOSE d \in {g.inlines[i] : i \in 1..Len(g.inlines)} : d.name = n]
CustomMember(c, inl) ==
    IF c.isenum THEN Member("type", c.name, c.docs, <<>>, <<>>, VariantsOf(c.variants), TRUE)
    ELSE Member("type", c.name, c.docs, FieldsOf(c.fields, inl), <<>>, <<>>, FALSE)
\* an error variant: unit -> no fields; struct -> its fields; tuple(T) -> the fields of the struct T
ErrorMember(e, inl) ==
    Member("error", e.name, e.docs,
           CASE e.kind = "unit" -> <<>>
             [] e.kind = "struct" -> FieldsOf(e.fields, inl)
             [] e.kind = "tuple" -> FieldsOf(inl[e.inline].fields, inl),
           <<>>, <<>>, FALSE)
ProbeMember(ps, inl) ==
    Member("method", "Probe", <<>>,
           [x \in 1..Len(ps) |-> [name |-> "p" \o ToString(x), comments |-> <<>>, ty |-> VarlinkOf(ps[x], inl)]],
           <<>>, <<>>, FALSE)
IfaceOf(g) ==
    LET inl == Inl(g) IN
    [name |-> "org.example.intro", comments |-> <<>>,
     members |-> [x \in 1..Len(g.customs) |-> CustomMember(g.customs[x], inl)]
                 \o <<ProbeMember(g.probes, inl)>>
                 \o [x \in 1..Len(g.errs) |-> ErrorMember(g.errs[x], inl)]]

\* the shapes of the open C14 finding (an enum with >= 2 variants, one of them commented)
CommentedEnum(vs) == Len(vs) >= 2 /\ \E x \in 1..Len(vs) : vs[x].docs # <<>>
=============================================================================
