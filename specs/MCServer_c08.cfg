CONSTANTS N = 2  Script <- S_c08  Faulty = {}  ReplyToOneway = FALSE  AllowPartial = TRUE  StartRule = "next"
SPECIFICATION Spec
INVARIANT Safety
CHECK_DEADLOCK FALSE
