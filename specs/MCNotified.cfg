CONSTANTS Subs = {s1, s2}  MaxSets = 3  MaxHandles = 2  LagRule = "skip"
SPECIFICATION Spec
INVARIANT Safety
CHECK_DEADLOCK FALSE
