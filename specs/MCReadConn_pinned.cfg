\* the cursor rule of the pinned code: TLC must find the C01 counterexample (vacuity check)
CONSTANTS B = 4  MAXB = 64  CursorRule = "byte_offset"  MaxFrames = 2  MaxBody = 3  MaxExtra = 1
SPECIFICATION MCSpec
INVARIANT Inv
CONSTRAINT Bound
CHECK_DEADLOCK FALSE
