CONSTANTS Subs = {s1, s2}  MaxSets = 3  MaxHandles = 1  LagRule = "end"
SPECIFICATION Spec
INVARIANT Safety
CHECK_DEADLOCK FALSE
