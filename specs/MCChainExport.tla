---------------------------- MODULE MCChainExport ----------------------------
(* Behaviour export for Chain: calls, server frames and how many frames each transport read
   delivered; one JSON line per complete behaviour, replayed by the harness against the real code. *)
EXTENDS Chain, Json
VARIABLE hist
hvars == <<vars, hist>>
ReadN == IF batch = 0 /\ batch' >= 0 /\ bufItems' # bufItems THEN <<Len(bufItems')>> ELSE <<>>
HInit == Init /\ hist = <<>>
HNext == \/ (Send /\ hist' = hist)
         \/ (PollStream /\ hist' = (IF batch = 0 /\ ~done THEN Append(hist, batch' + 1) ELSE hist))
         \/ (After /\ hist' = (IF batch = 0 THEN Append(hist, batch' + 1) ELSE hist))
HSpec == HInit /\ [][HNext]_hvars
Done == phase \in {"ended", "after"} /\ inq = <<>> /\ ~dropped
Export == Done => PrintT(<<"REPLAY", ToJson([calls |-> calls, frames |-> yielded \o afterGot, reads |-> hist])>>)
=============================================================================
