CONSTANTS NGroups = 160 N1 = 40 N2 = 25
SPECIFICATION Spec
INVARIANTS OrderKept Export
CHECK_DEADLOCK FALSE
