------------------------------ MODULE Transport ------------------------------
(***************************************************************************)
(* C19: a zlink connection over a real byte-stream transport.                 *)
(* Writer side: WriteConnection (buffer `wbuf', cleared only after the          *)
(* transport write returned) + the transport's write-all loop, whose progress   *)
(* `sent' lives in the future.  The kernel socket buffer `pipe' has capacity K   *)
(* and accepts partial writes.  The peer reads any amount at a time.             *)
(* CancelSend: the send future is dropped - bytes already in the pipe stay,      *)
(* the buffer keeps the whole message; the next send appends behind it and       *)
(* starts writing from the start again (the pinned code's behaviour = the        *)
(* deviation behind the open finding for C19).                                   *)
(***************************************************************************)
EXTENDS Naturals, Sequences, TLC, SequencesExt
CONSTANTS MsgLens,   \* sequence of message lengths (document bytes; the terminator is added)
          K,         \* capacity of the kernel socket buffer
          AllowCancel
VARIABLES next, wbuf, fut, pipe, rcvd,
          closed,   \* the writer's end was closed (possibly with unread data of the other direction behind it)
          ended     \* the reader was told that nothing more comes (end of stream or reset)
vars == <<next, wbuf, fut, pipe, rcvd, closed, ended>>
\* a byte is <<message index, offset>>; offset = len + 1 is the NUL
BytesOf(i) == [k \in 1..(MsgLens[i] + 1) |-> <<i, k>>]
RECURSIVE All(_)
All(i) == IF i > Len(MsgLens) THEN <<>> ELSE BytesOf(i) \o All(i + 1)
Init == next = 1 /\ wbuf = <<>> /\ fut = [on |-> FALSE, sent |-> 0] /\ pipe = <<>> /\ rcvd = <<>> /\ closed = FALSE /\ ended = FALSE
\* send_call = enqueue + flush; enqueue appends behind whatever is still in the buffer
SendStart == /\ ~fut.on /\ next <= Len(MsgLens) /\ ~closed
             /\ wbuf' = wbuf \o BytesOf(next) /\ next' = next + 1
             /\ fut' = [on |-> TRUE, sent |-> 0] /\ UNCHANGED <<pipe, rcvd, closed, ended>>
\* the transport's write-all loop: one partial write accepted by the kernel
KernelWrite == /\ fut.on /\ fut.sent < Len(wbuf) /\ Len(pipe) < K
               /\ \E n \in 1..(K - Len(pipe)) :
                    /\ fut.sent + n <= Len(wbuf)
                    /\ pipe' = pipe \o SubSeq(wbuf, fut.sent + 1, fut.sent + n)
                    /\ fut' = [fut EXCEPT !.sent = @ + n]
               /\ UNCHANGED <<next, wbuf, rcvd, closed, ended>>
FlushDone == /\ fut.on /\ fut.sent = Len(wbuf)
             /\ wbuf' = <<>> /\ fut' = [on |-> FALSE, sent |-> 0] /\ UNCHANGED <<next, pipe, rcvd, closed, ended>>
CancelSend == /\ AllowCancel /\ fut.on /\ fut' = [on |-> FALSE, sent |-> 0] /\ UNCHANGED <<next, wbuf, pipe, rcvd, closed, ended>>
PeerRead == /\ pipe # <<>> /\ ~ended /\ \E n \in 1..Len(pipe) : rcvd' = rcvd \o SubSeq(pipe, 1, n) /\ pipe' = SubSeq(pipe, n + 1, Len(pipe))
            /\ UNCHANGED <<next, wbuf, fut, closed, ended>>
\* the writer's end goes away between two sends (whatever it had not read itself is discarded by the kernel,
\* which makes the end visible to the peer as a reset instead of an orderly end of stream)
Hangup == /\ ~fut.on /\ ~closed /\ closed' = TRUE /\ UNCHANGED <<next, wbuf, fut, pipe, rcvd, ended>>
\* the kernel reports the end only behind the data that was queued before it
PeerSeesEnd == /\ closed /\ pipe = <<>> /\ ~ended /\ ended' = TRUE /\ UNCHANGED <<next, wbuf, fut, pipe, rcvd, closed>>
Next == SendStart \/ KernelWrite \/ FlushDone \/ CancelSend \/ PeerRead \/ Hangup \/ PeerSeesEnd
Spec == Init /\ [][Next]_vars
\* the peer sees the sent messages intact and in order: whole frames, each at most once
Intact == IsPrefix(rcvd \o pipe, All(1))
\* without cancellation everything sent eventually arrives
AllArrives == (next > Len(MsgLens) /\ ~fut.on /\ pipe = <<>>) => rcvd = All(1)
\* when the reader learns of the end it has every frame whose send completed
RECURSIVE Upto(_, _)
Upto(i, n) == IF i > n THEN <<>> ELSE BytesOf(i) \o Upto(i + 1, n)
EndBehindData == (ended /\ ~AllowCancel) => rcvd = Upto(1, next - 1)
=============================================================================
