CONSTANTS N = 3  Script <- S_c18  Faulty = {}  ReplyToOneway = FALSE  AllowPartial = FALSE  StartRule = "next"
SPECIFICATION Spec
INVARIANT Safety FairWindow FairBound
CHECK_DEADLOCK FALSE
