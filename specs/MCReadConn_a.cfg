\* two frames, bodies up to 2B+1, no overflow reachable
CONSTANTS B = 4  MAXB = 64  CursorRule = "terminator"  MaxFrames = 2  MaxBody = 9  MaxExtra = 1
SPECIFICATION MCSpec
INVARIANT Inv
PROPERTY RefinesFraming
CONSTRAINT Bound
CHECK_DEADLOCK FALSE
