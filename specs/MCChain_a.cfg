CONSTANTS MaxCalls = 3  MaxCont = 2  MaxTrail = 1  WithGenErr = TRUE  DoneInit = "count"  HoldItems = FALSE
SPECIFICATION Spec
INVARIANT ChainInv
INVARIANT NoLiveBorrowClobbered
CHECK_DEADLOCK FALSE
