CONSTANTS NIfaces = 400
SPECIFICATION Spec
INVARIANTS InGrammar SelfConforms Export
CHECK_DEADLOCK FALSE
