CONSTANTS NIfaces = 60
SPECIFICATION Spec
INVARIANTS InGrammar SelfConforms Export
CHECK_DEADLOCK FALSE
