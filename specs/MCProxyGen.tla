----------------------------- MODULE MCProxyGen -----------------------------
(* Enumeration of proxy method declarations for C12 (exported for the corpus generator) and the
   model-level laws of ProxyGen:
     LegalMethodName   the PascalCase of every snake_case Rust name of the name space is a legal Varlink member name
     OmitsOnlyNone     (every drawn declaration) the parameters object lists exactly the arguments that are not None
     FormsAgree        (by construction) the expectation does not depend on the call form *)
EXTENDS ProxyGen, Json, Randomization, SequencesExt
CONSTANTS NDecl

Names == {<<"ping">>, <<"x">>, <<"v2">>, <<"get", "info">>, <<"get", "2fa">>, <<"do", "it">>, <<"url", "of", "x9">>,
          <<"a", "b", "c", "d">>, <<"get", "user", "info", "v2">>, <<"list", "all", "3d", "items">>}
Renames == {"", "Renamed", "lowerCase", "With2FA"}
Kinds == {"plain", "more", "oneway"}
Classes == {"scalar", "str", "string", "slice", "strslice", "struct", "generic"}
\* sp: how the declaration spells `Option' (the macro has to recognise the type whatever path names it)
OptSpellings == {"", "std::option::", "core::option::", "::std::option::", "::core::option::"}
PC == [cls : Classes, ren : BOOLEAN, none : {FALSE}, sp : {""}] \cup [cls : OptClasses, ren : BOOLEAN, none : BOOLEAN, sp : OptSpellings]
PNames == <<"a", "name", "type_", "x2">>
PRen == <<"wireName", "class", "kebab-name", "X">>   \* (no rename may coincide with the wire name of a raw identifier of the pool)
\* Rust parameter names: ordinary ones, and every value identifier the generated body itself uses or could use
\* (a parameter so named must still travel under its own name with its own value)
PNamePool == {"a", "name", "type_", "x2", "id", "method", "parameters", "params", "call", "method_call", "stream",
              "reply", "error", "result", "err", "conn", "more", "oneway", "chain", "value", "self_",
              "r#type", "r#match", "r#ref", "r#async"}
MkN(choices, names) ==
    [i \in 1..Len(choices) |->
       [name |-> names[i], rename |-> IF choices[i].ren THEN PRen[i] ELSE "", cls |-> choices[i].cls,
        none |-> choices[i].none, sp |-> choices[i].sp]]
Mk(choices) == MkN(choices, PNames)
HasRef(ps) == \E i \in 1..Len(ps) : ps[i].cls \in {"str", "opt", "slice", "strslice", "struct"}
\* one declaration drawn at random from the space (TLC's -seed decides): every component is drawn
\* independently, so all pairs of component values occur with a few hundred draws
RandomDecl(i) ==
    LET n == RandomElement(Names)
        rn == RandomElement(Renames)
        k == RandomElement(Kinds)
        lt == RandomElement({"elided", "explicit"})
        o == RandomElement({"unit", "struct"})
        len == IF i % 10 = 0 THEN 0 ELSE RandomElement(1..4)       \* (a tenth without parameters)
        ps == [j \in 1..len |-> RandomElement(PC)]
        \* half of the declarations use the four ordinary names, the others draw from the whole pool
        nm == IF i % 2 = 0 THEN PNames ELSE SetToSeq(RandomSubset(4, PNamePool))
    IN [iface |-> "org.example.px", words |-> n, rename |-> rn, kind |-> k,
        lt |-> IF lt = "explicit" /\ HasRef(ps) THEN "explicit" ELSE "elided", params |-> MkN(ps, nm),
        out |-> IF k = "oneway" THEN "unit" ELSE o]
\* every class once as a single parameter, renamed and not (so that no row depends on the draw)
Singles == {[iface |-> "org.example.px", words |-> <<"get", "info">>, rename |-> "", kind |-> "plain", lt |-> "elided",
             params |-> Mk(<<c>>), out |-> "struct"] : c \in PC}
\* every name of the pool once as a &str and once as a scalar parameter of each kind of method
Named == {[iface |-> "org.example.px", words |-> <<"do", "it">>, rename |-> "", kind |-> k, lt |-> "elided",
           params |-> MkN(<<[cls |-> c, ren |-> FALSE, none |-> FALSE, sp |-> ""]>>, <<n>>), out |-> "unit"]
          : n \in PNamePool, k \in Kinds, c \in {"str", "scalar"}}
\* no arguments at all: every kind of method, both outputs
NoArgs == {[iface |-> "org.example.px", words |-> <<"list", "all">>, rename |-> rn, kind |-> k, lt |-> "elided",
            params |-> <<>>, out |-> IF k = "oneway" THEN "unit" ELSE o] : k \in Kinds, o \in {"unit", "struct"}, rn \in {"", "Renamed"}}
\* (only declarations whose parameters have pairwise different wire names are declarations at all)
WellFormed(x) == Cardinality({WireName(x.params[i]) : i \in 1..Len(x.params)}) = Len(x.params)
Picked == {x \in Singles \cup Named \cup NoArgs \cup {RandomDecl(i) : i \in 1..NDecl} : WellFormed(x)}

\* Varlink member names: [A-Z][A-Za-z0-9]*
DigitS == "0123456789"
IsUpper(ch) == IndexIn(ch, UpperS, 1) > 0
IsAlnum(ch) == IndexIn(ch, UpperS, 1) > 0 \/ IndexIn(ch, LowerS, 1) > 0 \/ IndexIn(ch, DigitS, 1) > 0
LegalMember(s) == Len(s) >= 1 /\ IsUpper(SubSeq(s, 1, 1)) /\ \A i \in 2..Len(s) : IsAlnum(SubSeq(s, i, i))

VARIABLES d, b
NB == 16
D0 == [iface |-> "org.example.px", words |-> <<"ping">>, rename |-> "", kind |-> "plain", lt |-> "elided", params |-> <<>>, out |-> "unit"]
Init == d = D0 /\ b = 0
Next == \/ b = 0 /\ b' \in 1..NB /\ d' = d
        \/ b \in 1..NB /\ d' \in {x \in Picked : (Len(x.params) + Len(x.words) * 5 + Len(x.rename)) % NB = b - 1} /\ b' = NB + 1
Spec == Init /\ [][Next]_<<d, b>>

LegalMethodName == \A n \in Names : LegalMember(PascalName(n))
OmitsOnlyNone == LET e == Expected(d) IN
                 /\ Cardinality(e.pnames) = Cardinality({i \in 1..Len(d.params) : Sent(d.params[i])})
                 /\ (e.hasParams <=> d.params # <<>>)
FormsAgree == "plain" \in Forms(d) /\ (d.kind = "oneway" => Forms(d) = {"plain"})
Export == b = NB + 1 => PrintT(<<"REPLAY", ToJson(d)>>)
=============================================================================
