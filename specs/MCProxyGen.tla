----------------------------- MODULE MCProxyGen -----------------------------
(* Enumeration of proxy method declarations for C12 (exported for the corpus generator) and the
   model-level laws of ProxyGen over the whole (unsampled) space:
     LegalMethodName   the PascalCase of every snake_case Rust name is a legal Varlink member name
     OmitsOnlyNone     the parameters object lists exactly the arguments that are not None
     FormsAgree        (by construction) the expectation does not depend on the call form *)
EXTENDS ProxyGen, Json, Randomization
CONSTANTS NDecl, NPair, NLong

Names == {<<"ping">>, <<"x">>, <<"v2">>, <<"get", "info">>, <<"get", "2fa">>, <<"do", "it">>, <<"url", "of", "x9">>,
          <<"a", "b", "c", "d">>, <<"get", "user", "info", "v2">>, <<"list", "all", "3d", "items">>}
Renames == {"", "Renamed", "lowerCase", "With2FA"}
Kinds == {"plain", "more", "oneway"}
Classes == {"scalar", "str", "string", "slice", "strslice", "struct", "generic"}
PC == [cls : Classes, ren : BOOLEAN, none : {FALSE}] \cup [cls : OptClasses, ren : BOOLEAN, none : BOOLEAN]
PNames == <<"a", "name", "type_", "x2">>
PRen == <<"wireName", "type", "kebab-name", "X">>
Mk(choices) == [i \in 1..Len(choices) |->
                  [name |-> PNames[i], rename |-> IF choices[i].ren THEN PRen[i] ELSE "", cls |-> choices[i].cls,
                   none |-> choices[i].none]]
ParamLists == {<<>>} \cup {<<c>> : c \in PC}
              \cup RandomSubset(NPair, {<<c1, c2>> : c1 \in PC, c2 \in PC})
              \cup [1..3 -> RandomSubset(NLong, PC)] \cup [1..4 -> RandomSubset(NLong - 1, PC)]
HasRef(ps) == \E i \in 1..Len(ps) : ps[i].cls \in {"str", "opt", "slice", "strslice", "struct"}
All == {[iface |-> "org.example.px", words |-> n, rename |-> rn, kind |-> k,
         lt |-> IF lt = "explicit" /\ HasRef(ps) THEN "explicit" ELSE "elided", params |-> Mk(ps),
         out |-> IF k = "oneway" THEN "unit" ELSE o] :
        n \in Names, rn \in Renames, k \in Kinds, lt \in {"elided", "explicit"}, ps \in ParamLists, o \in {"unit", "struct"}}
Picked == RandomSubset(NDecl, All)

\* Varlink member names: [A-Z][A-Za-z0-9]*
DigitS == "0123456789"
IsUpper(ch) == IndexIn(ch, UpperS, 1) > 0
IsAlnum(ch) == IndexIn(ch, UpperS, 1) > 0 \/ IndexIn(ch, LowerS, 1) > 0 \/ IndexIn(ch, DigitS, 1) > 0
LegalMember(s) == Len(s) >= 1 /\ IsUpper(SubSeq(s, 1, 1)) /\ \A i \in 2..Len(s) : IsAlnum(SubSeq(s, i, i))

VARIABLES d, b
NB == 16
D0 == [iface |-> "org.example.px", words |-> <<"ping">>, rename |-> "", kind |-> "plain", lt |-> "elided", params |-> <<>>, out |-> "unit"]
Init == d = D0 /\ b = 0
Next == \/ b = 0 /\ b' \in 1..NB /\ d' = d
        \/ b \in 1..NB /\ d' \in {x \in Picked : (Len(x.params) + Len(x.words) * 5 + Len(x.rename)) % NB = b - 1} /\ b' = NB + 1
Spec == Init /\ [][Next]_<<d, b>>

LegalMethodName == \A n \in Names : LegalMember(PascalName(n))
OmitsOnlyNone == LET e == Expected(d) IN
                 /\ Cardinality(e.pnames) = Cardinality({i \in 1..Len(d.params) : Sent(d.params[i])})
                 /\ (e.hasParams <=> d.params # <<>>)
FormsAgree == "plain" \in Forms(d) /\ (d.kind = "oneway" => Forms(d) = {"plain"})
Export == b = NB + 1 => PrintT(<<"REPLAY", ToJson(d)>>)
=============================================================================
