------------------------------ MODULE MCCodegen ------------------------------
(* Enumeration of interface descriptions for C15 over the name alphabet the property is about
   (acronyms, digits, camelCase, snake_case, Rust keywords), non-recursive and collision-free, exported
   for gen/codegen.py; model-level laws:
     InGrammar     every exported description is a legal one (Parse inverts its canonical rendering)
     SelfConforms  a JSON value built field by field from the description conforms to it, and renaming
                   any one member makes it not conform (the oracle is sensitive to spellings) *)
EXTENDS Codegen, Json, Randomization, SequencesExt
CONSTANTS NIfaces

Ty(t, n, in, fs, vs) == [t |-> t, name |-> n, inner |-> in, fields |-> fs, variants |-> vs]
Prim(n) == Ty("prim", n, <<>>, <<>>, <<>>)
Custom(n) == Ty("custom", n, <<>>, <<>>, <<>>)
Wrap(k, x) == Ty(k, "", <<x>>, <<>>, <<>>)
F(n, ty) == [name |-> n, comments |-> <<>>, ty |-> ty]
V(n) == [name |-> n, comments |-> <<>>]
Struct(fs) == Ty("struct", "", <<>>, fs, <<>>)
Enum(vs) == Ty("enum", "", <<>>, <<>>, vs)
PrimTys == {Prim(p) : p \in {"bool", "int", "float", "string", "object"}}
\* types that may stand anywhere (no reference to a custom type)
Plain == PrimTys \cup {Wrap("opt", x) : x \in PrimTys} \cup {Wrap("arr", x) : x \in PrimTys} \cup {Wrap("map", x) : x \in PrimTys}
         \cup {Wrap("arr", Wrap("arr", Prim("int"))), Wrap("map", Wrap("arr", Prim("string"))), Wrap("arr", Wrap("opt", Prim("string"))),
               Wrap("opt", Wrap("arr", Prim("string"))), Wrap("opt", Wrap("map", Prim("int"))),
               Struct(<<F("x", Prim("int")), F("labelText", Prim("string"))>>), Enum(<<V("one"), V("twoWords"), V("THREE")>>)}
PlainSeq == SetToSeq(Plain)
\* names by position, chosen so that the Rust names the generator derives do not collide within a scope
FieldNames1 == <<"id", "URL", "type", "userName", "fn">>
FieldNames2 == <<"x2", "self", "isOK", "is_ok2", "match">>
FieldNames3 == <<"lastLogin", "async", "v", "crate", "HTTPPort">>
FieldNames4 == <<"count_3d", "super", "emailAddress", "ref", "q">>
FNames == <<FieldNames1, FieldNames2, FieldNames3, FieldNames4>>
MethodNames == <<"Ping", "GetURL", "Get2FA", "ListAll", "X", "IPv6Lookup", "SetHTTPProxy", "Do", "Type", "ResolveDNSName">>
TypeNames1 == <<"Person", "IPAddress", "Config2", "T">>
EnumNames == <<"Status", "IPVersion", "Mode2">>
\* one spelling style per list (a generator may treat a uniform list specially) and mixed ones
VariantLists == << <<"idle", "busy", "away">>, <<"IPv4", "IPv6">>, <<"not_ok", "OK", "type", "x2">>, <<"only">>,
                   <<"camelCase", "snake_case", "UPPER", "With2Digits">>,
                   <<"plain", "tls_1_2", "tls_1_3", "utf_8">>, <<"level1", "l3_cache", "x_2y">>,
                   <<"readOnly", "readWrite", "ioError2">>, <<"ReadOnly", "HTTPProxy", "Tls13">>, <<"ON", "OFF", "AUTO_2">> >>
ErrorNames == <<"NotFound", "NotOK", "IOError", "Bad2", "E">>
Pick(s, n) == s[(n % Len(s)) + 1]

M(kind, n, ins, outs, vs, isenum) ==
    [kind |-> kind, name |-> n, comments |-> <<>>, ins |-> ins, outs |-> outs, variants |-> vs, isenum |-> isenum]
Iface(i) ==
    LET tn1 == Pick(TypeNames1, i)
        en == Pick(EnumNames, i)
        \* types available to members: plain ones, the two custom types and wrappers of them
        refs == <<Custom(tn1), Custom(en), Wrap("opt", Custom(tn1)), Wrap("arr", Custom(en)), Wrap("map", Custom(tn1)),
                  Wrap("arr", Custom(tn1)), Wrap("opt", Custom(en))>>
        any(n) == IF n % 3 = 0 THEN Pick(refs, n \div 3) ELSE Pick(PlainSeq, n)
        fields(k, salt, withrefs) ==
            [j \in 1..k |-> F(Pick(FNames[j], i + salt + j), IF withrefs THEN any(i * 5 + salt * 3 + j * 7) ELSE Pick(PlainSeq, i * 5 + salt * 3 + j * 7))]
        t1 == M("type", tn1, fields((i % 4) + 1, 0, FALSE), <<>>, <<>>, FALSE)
        t2 == M("type", en, <<>>, <<>>, [x \in 1..Len(Pick(VariantLists, i)) |-> V(Pick(VariantLists, i)[x])], TRUE)
        \* a second struct that refers to the first and to the enum
        t3 == M("type", "Outer", <<F("inner", Custom(tn1)), F("kind", Custom(en)), F("more", Wrap("arr", Custom(tn1)))>>, <<>>, <<>>, FALSE)
        nm == (i % 3) + 1
        meth0(x) == M("method", Pick(MethodNames, i + x * 3), fields((i + x) % 5, x, TRUE), fields((i + x * 2) % 4, x + 4, TRUE), <<>>, FALSE)
        \* (every other method carries comments: the generator writes them as doc lines in front of what it emits)
        meth(x) == IF (i + x) % 2 = 0 THEN [meth0(x) EXCEPT !.comments = <<"Does it.", "Second line: (with) punctuation">>] ELSE meth0(x)
        \* two methods whose outputs have the same types under names that differ only in spelling: each must
        \* keep its own wire names
        tw1 == Pick(PlainSeq, i * 3 + 1)
        tw2 == Pick(PlainSeq, i * 7 + 2)
        twins == IF i % 3 = 1 THEN <<M("method", "TwinA", <<>>, <<F("userName", tw1), F("URL", tw2)>>, <<>>, FALSE),
                                     M("method", "TwinB", <<>>, <<F("user_name", tw1), F("url", tw2)>>, <<>>, FALSE)>>
                 ELSE <<>>
        ne == i % 4
        err(x) == M("error", Pick(ErrorNames, i + x), fields((i + x) % 3, x + 9, TRUE), <<>>, <<>>, FALSE)
    IN [name |-> Pick(<<"org.example.cg", "io.s9.api-v2", "com.ex-ample.Sub.iface">>, i), comments |-> <<>>,
        members |-> <<t1, t2>> \o (IF i % 2 = 0 THEN <<t3>> ELSE <<>>) \o [x \in 1..nm |-> meth(x)] \o twins \o [x \in 1..ne |-> err(x)]]

\* Every keyword of Rust (strict, reserved, reserved since 2018 / 2024, weak) in every position a generated
\* identifier can come from: a method name, a parameter, an output field, a field of a custom type, a field of an
\* error.  All of them are legal Varlink names.
Keywords == <<"as", "async", "await", "break", "const", "continue", "crate", "dyn", "else", "enum", "extern", "false", "fn",
              "for", "if", "impl", "in", "let", "loop", "match", "mod", "move", "mut", "pub", "ref", "return", "self",
              "static", "struct", "super", "trait", "true", "type", "unsafe", "use", "where", "while", "abstract", "become",
              "box", "do", "final", "macro", "override", "priv", "try", "typeof", "unsized", "virtual", "yield", "union",
              "gen", "raw", "safe", "Self">>   \* (`Self' apart from `self': their snake_case forms coincide)
UpperIx(ch, i) == IF i > 26 THEN 0 ELSE IF SubSeq("abcdefghijklmnopqrstuvwxyz", i, i) = ch THEN i ELSE 0
RECURSIVE FindLower(_, _)
FindLower(ch, i) == IF i > 26 THEN 0 ELSE IF SubSeq("abcdefghijklmnopqrstuvwxyz", i, i) = ch THEN i ELSE FindLower(ch, i + 1)
Cap(w) == LET i == FindLower(SubSeq(w, 1, 1), 1) IN
          IF i = 0 THEN w ELSE SubSeq("ABCDEFGHIJKLMNOPQRSTUVWXYZ", i, i) \o SubSeq(w, 2, Len(w))
KwIface(part) ==
    LET ks == SelectSeq(Keywords, LAMBDA w : TRUE)
        lo == (part - 1) * 19 + 1
        hi == IF part * 19 > Len(ks) THEN Len(ks) ELSE part * 19
        mine == SubSeq(ks, lo, hi)
        kwfields == [x \in 1..Len(mine) |-> F(mine[x], Pick(<<Prim("int"), Prim("string"), Prim("bool")>>, x))]
        meths == [x \in 1..Len(mine) |->
                    M("method", Cap(mine[x]) \o (IF Cap(mine[x]) = mine[x] THEN "X" ELSE ""),
                      <<F(mine[x], Prim("int"))>>, <<F(mine[x], Prim("string"))>>, <<>>, FALSE)]
    IN [name |-> "org.example.kw" \o ToString(part), comments |-> <<>>,
        members |-> <<M("type", "Words", kwfields, <<>>, <<>>, FALSE)>> \o meths
                    \o <<M("error", "Reserved", kwfields, <<>>, <<>>, FALSE)>>]
KwIfaces == {KwIface(p) : p \in 1..3}

VARIABLES v, b
NB == 16
Init == v = Iface(0) /\ b = 0
Next == \/ b = 0 /\ b' \in 1..NB /\ v' = v
        \/ b \in 1..NB /\ v' \in {Iface(i) : i \in {x \in 1..NIfaces : x % NB = b - 1}} \cup (IF b = 1 THEN KwIfaces ELSE {})
           /\ b' = NB + 1
Spec == Init /\ [][Next]_<<v, b>>

Glue == {"?", "[]", "[string]"}
Upper == "ABCDEFGHIJKLMNOPQRSTUVWXYZ"
Lower == "abcdefghijklmnopqrstuvwxyz"
Digit == "0123456789"
RECURSIVE InStr(_, _, _)
InStr(ch, s, i) == i <= Len(s) /\ (SubSeq(s, i, i) = ch \/ InStr(ch, s, i + 1))
CharClass(ch) == IF InStr(ch, Upper, 1) THEN "U" ELSE IF InStr(ch, Lower, 1) THEN "l" ELSE IF InStr(ch, Digit, 1) THEN "d" ELSE ch
RECURSIVE ClassOf(_)
ClassOf(s) == IF s = "" THEN "" ELSE CharClass(SubSeq(s, 1, 1)) \o ClassOf(SubSeq(s, 2, Len(s)))
Lex(ts) == [x \in 1..Len(ts) |->
              [k |-> ts[x].k, s |-> ts[x].s, c |-> IF ts[x].k = "W" THEN ClassOf(ts[x].s) ELSE "",
               sp |-> ~(x > 1 /\ ts[x - 1].k = "P" /\ ts[x - 1].s \in Glue), own |-> TRUE]]
InGrammar == LET p == Parse(Lex(Canon(v))) IN p.ok /\ p.out = Norm(v)

\* a JSON value built from a type, field by field (every optional present)
J(k, e, a, m) == [k |-> k, e |-> e, a |-> a, m |-> m]
RECURSIVE Sample(_, _), SampleObj(_, _)
SampleObj(fs, a) == J("obj", "", <<>>, [x \in 1..Len(fs) |-> [n |-> fs[x].name, v |-> Sample(fs[x].ty, a)]])
Sample(ty, a) ==
    CASE ty.t = "prim" -> (CASE ty.name = "bool" -> J("bool", "", <<>>, <<>>) [] ty.name = "int" -> J("int", "", <<>>, <<>>)
                             [] ty.name = "float" -> J("float", "", <<>>, <<>>) [] ty.name = "string" -> J("str", "s", <<>>, <<>>)
                             [] ty.name = "object" -> J("obj", "", <<>>, <<>>))
      [] ty.t = "opt" -> Sample(ty.inner[1], a)
      [] ty.t = "arr" -> J("arr", "", <<Sample(ty.inner[1], a)>>, <<>>)
      [] ty.t = "map" -> J("obj", "", <<>>, <<[n |-> "k", v |-> Sample(ty.inner[1], a)]>>)
      [] ty.t = "struct" -> SampleObj(ty.fields, a)
      [] ty.t = "enum" -> J("str", ty.variants[1].name, <<>>, <<>>)
      [] ty.t = "custom" -> LET d == TypeDef(a, ty.name) IN
                            IF d.isenum THEN J("str", d.variants[Len(d.variants)].name, <<>>, <<>>) ELSE SampleObj(d.ins, a)
Misspell(j, x) == [j EXCEPT !.m[x].n = @ \o "_"]
SelfConforms ==
    \A mi \in 1..Len(Methods(v)) :
        LET m == Methods(v)[mi]
            j == SampleObj(m.ins, v) IN
        /\ ObjConforms(j, m.ins, v)
        /\ \A x \in 1..Len(j.m) : ~ObjConforms(Misspell(j, x), m.ins, v)
Export == b = NB + 1 => PrintT(<<"REPLAY", ToJson(v)>>)
=============================================================================
