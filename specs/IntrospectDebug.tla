--------------------------- MODULE IntrospectDebug ---------------------------
(* Diagnostic aid: prints what the specification expects for the first event of a trace. *)
EXTENDS Introspect, Json, IOUtils
Rec == ndJsonDeserialize(IOEnv.TRACE)
VARIABLE l
Init == l = 1
Next == l = 1 /\ l' = 2 /\ LET e == Rec[1] p == Parse(e.toks) a == IfaceOf(e.group) IN
          /\ PrintT(<<"ok", p.ok, "gpos", p.gpos, "accepted", e.accepted, "eq", e.eq, "t2", e.text2_same, "wire", e.wire_same>>)
          /\ PrintT(<<"out", ToJson(p.out)>>)
          /\ PrintT(<<"canon", ToJson(e.canon)>>)
          /\ PrintT(<<"derived", ToJson(e.derived)>>)
          /\ PrintT(<<"norm", ToJson(Norm(a))>>)
Spec == Init /\ [][Next]_l
=============================================================================
