---------------------------- MODULE TransportTrace ----------------------------
(* C19 trace validation (property level).  For every connection and direction the harness logs
   the program-ordered sends (sequence number, length, digest, ok / cancelled) and then the
   program-ordered receives of the peer.  The peer must see the sent messages intact and in order:
   every completed send exactly once, an abandoned send whole at most once, nothing else.
   AllowCancelCorruption is the documented deviation (open finding): once a send was abandoned on a
   direction, what the peer decodes afterwards on that direction may be corrupted. *)
EXTENDS Naturals, Sequences, FiniteSets, Json, IOUtils, TLC
CONSTANT AllowCancelCorruption
Rec == ndJsonDeserialize(IOEnv.TRACE)
VARIABLES l, S, p, tainted, kf, sid, kind
tvars == <<l, S, p, tainted, kf, sid, kind>>
IsEv(e) == l <= Len(Rec) /\ Rec[l].ev = e /\ l' = l + 1
TInit == l = 1 /\ S = <<>> /\ p = 1 /\ tainted = FALSE /\ kf = FALSE /\ sid = "" /\ kind = "exchange"
\* kinds of scenario: "exchange" (both ends send and read), "hangup" (one end sends, then closes with the
\* other end's messages unread: the kernel reports a reset behind the data), "mux" (a zlink Server serving
\* several clients; per client the calls and the echoes it got back)
TReset == /\ IsEv("reset") /\ S' = <<>> /\ p' = 1 /\ tainted' = FALSE /\ kf' = FALSE /\ sid' = Rec[l].sid
          /\ kind' = IF "kind" \in DOMAIN Rec[l] THEN Rec[l].kind ELSE "exchange"
\* connection identifiers are distinct; a listener from an inherited descriptor accepts like a bound one
TConns == /\ IsEv("conns")
          /\ Len(Rec[l].ids) = 2 * Rec[l].n
          /\ Cardinality({Rec[l].ids[i] : i \in 1..Len(Rec[l].ids)}) = Len(Rec[l].ids)
          /\ UNCHANGED <<S, p, tainted, kf, sid, kind>>
\* "unread": sent completely, deliberately never read by the peer (hangup scenarios)
TSent == /\ IsEv("sent") /\ Rec[l].res \in {"ok", "cancelled"} \cup (IF kind = "hangup" THEN {"unread"} ELSE {})
         /\ S' = Append(S, [seq |-> Rec[l].seq, len |-> Rec[l].len, h |-> Rec[l].h, res |-> Rec[l].res])
         /\ UNCHANGED <<p, tainted, kf, sid, kind>>
CancelBefore(q) == \E j \in 1..Len(S) : j <= q /\ S[j].res = "cancelled"
Matches(q, e) == S[q].h = e.h /\ S[q].len = e.len /\ S[q].seq = e.i
SkippableUpTo(q) == \A j \in p..(q - 1) : S[j].res # "ok"      \* only abandoned sends may be missing
\* how a reader may learn that nothing more comes (after a hang-up also as a connection reset)
EndClasses == {"eof", "idle"} \cup (IF kind = "hangup" THEN {"io_err"} ELSE {})
Explained == AllowCancelCorruption /\ CancelBefore(Len(S))
TRcvd == /\ IsEv("rcvd")
         /\ LET e == Rec[l] IN
            IF tainted THEN UNCHANGED <<p, tainted, kf>>
            ELSE IF e.cls = "msg" /\ \E q \in p..Len(S) : Matches(q, e) /\ SkippableUpTo(q)
                 THEN /\ p' = (CHOOSE q \in p..Len(S) : Matches(q, e) /\ SkippableUpTo(q)) + 1
                      /\ UNCHANGED <<tainted, kf>>
            ELSE IF e.cls \in EndClasses /\ SkippableUpTo(Len(S) + 1)
                 THEN UNCHANGED <<p, tainted, kf>>                  \* nothing was lost
            ELSE \* a lost, duplicated, reordered or corrupted message
                 /\ Explained /\ tainted' = TRUE /\ kf' = TRUE /\ UNCHANGED p
         /\ UNCHANGED <<S, sid, kind>>
TDirEnd == /\ IsEv("dir_end")
           /\ (kf => PrintT(<<"KNOWN", sid>>))
           /\ S' = <<>> /\ p' = 1 /\ tainted' = FALSE /\ kf' = FALSE /\ UNCHANGED <<sid, kind>>
\* connections created on several threads at once: no identifier is handed out twice
TIdBurst == IsEv("idburst") /\ Rec[l].total = Rec[l].threads * Rec[l].per /\ Rec[l].distinct = Rec[l].total
            /\ UNCHANGED <<S, p, tainted, kf, sid, kind>>
TEnd == IsEv("end") /\ UNCHANGED <<S, p, tainted, kf, sid, kind>>
TNext == TReset \/ TConns \/ TSent \/ TRcvd \/ TDirEnd \/ TEnd \/ TIdBurst
TSpec == TInit /\ [][TNext]_tvars
Accepted ==
    LET d == TLCGet("stats").diameter IN
    IF d - 1 = Len(Rec) THEN TRUE
    ELSE /\ PrintT(<<"REJECT", d, ToJson(Rec[d])>>)
         /\ FALSE
=============================================================================
