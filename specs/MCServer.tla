------------------------------ MODULE MCServer ------------------------------
(* Constant definitions for the exhaustive small-scope configurations of Server. *)
EXTENDS Server
P == <<"plain", 0>>
O == <<"oneway", 0>>
E == <<"error", 0>>
Bd == <<"bad", 0>>
S(k) == <<"stream", k>>
\* C08: two connections, plain / oneway / error, pipelined
S_c08 == (0 :> <<P, O, P>>) @@ (1 :> <<E, P>>)
S_c08_3 == (0 :> <<P, O, P>>) @@ (1 :> <<E, P>>) @@ (2 :> <<O, E>>)
\* C09: connection 0 is faulty (undecodable call in the middle, may disconnect, may become unwritable)
S_c09 == (0 :> <<P, Bd, P>>) @@ (1 :> <<P, E>>)
S_c09b == (0 :> <<P, P>>) @@ (1 :> <<P, O, E>>)
\* C10: streams with calls pipelined behind them
S_c10 == (0 :> <<S(2), P>>) @@ (1 :> <<P, S(0), E>>)
\* C18: a flooder, a single-call client, a client with a stream transition
S_c18 == (0 :> <<P, O, P>>) @@ (1 :> <<P>>) @@ (2 :> <<S(1), P>>)
View == <<lq, conns, streams, lastCall, lastStream, toSend, sock, pend, buffered, out, gone, unwritable, closedC,
          wait, wtot, wtr>>
=============================================================================
