-------------------------- MODULE MCWriteConnExport --------------------------
(* Behaviour export: every operation history of WriteConn in a small scope, one JSON line each.
   The harness replays them against the real code built with the same B / MAXB. *)
EXTENDS MCWriteConn, Json
CONSTANTS EnqLens, MaxOps
VARIABLE hist
hvars == <<vars, hist>>
HInit == Init /\ hist = <<>>
HNext == \/ \E kd \in {"enqueue", "send", "flush"}, n \in Lens, b \in BOOLEAN :
              /\ (kd = "enqueue" => n \in EnqLens) /\ (kd = "flush" => n = 2 /\ ~b)
              /\ OpBegin(kd, n, b)
              /\ hist' = Append(hist, [kind |-> kd, len |-> n, bad |-> b])
         \/ ((Serialize \/ Terminate \/ FlushWrite \/ FlushDone \/ Return) /\ UNCHANGED hist)
HSpec == HInit /\ [][HNext]_hvars
HBound == Len(hist) <= MaxOps
Export == (pc = "idle" /\ Len(hist) = MaxOps) => PrintT(<<"REPLAY", ToJson([ops |-> hist])>>)
=============================================================================
