CONSTANTS MaxCalls = 2  MaxCont = 1  MaxTrail = 0  WithGenErr = TRUE  DoneInit = "count"  HoldItems = TRUE
SPECIFICATION Spec
INVARIANT NoLiveBorrowClobbered
CHECK_DEADLOCK FALSE
