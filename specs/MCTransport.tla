---- MODULE MCTransport ----
EXTENDS Transport
L1 == <<3, 1, 2>>
L2 == <<5, 0, 4, 1>>
====
