------------------------------ MODULE Outbound ------------------------------
(***************************************************************************)
(* Property-level specification of the sending side of a zlink connection   *)
(* (C02, outbound half of C17).  Observable things only: the documents the   *)
(* caller submitted (each identified by the digest and length of its         *)
(* reference encoding), what each operation returned, and what reached the   *)
(* transport, write call by write call.                                      *)
(***************************************************************************)
EXTENDS Naturals, Sequences

VARIABLES
    pend,     \* documents accepted since the last completed write, in submission order: Seq([h, len])
    maxb,     \* the size limit of the write buffer
    cur,      \* the operation in progress: [kind, doc, bad] or NoOp
    wrote     \* the operation in progress has handed something to the transport

ovars == <<pend, maxb, cur, wrote>>

NoDoc == [h |-> "", len |-> 0]
NoOp == [kind |-> "none", doc |-> NoDoc, bad |-> FALSE]
Kinds == {"enqueue", "send", "flush"}

RECURSIVE Bytes(_)
Bytes(ds) == IF ds = <<>> THEN 0 ELSE Head(ds).len + 1 + Bytes(Tail(ds))

\* An operation begins.
Begin(kind, doc, bad) ==
    /\ cur = NoOp /\ kind \in Kinds
    /\ cur' = [kind |-> kind, doc |-> doc, bad |-> bad]
    /\ wrote' = FALSE
    /\ UNCHANGED <<pend, maxb>>

\* One write call reaches the transport.  It carries exactly the documents accepted so far (and
\* the one being sent), each followed by one NUL, in order, nothing else (`tail' = stray bytes
\* after the last NUL) - and at most one write per operation, never an empty one.
Write(docs, tail) ==
    /\ cur.kind \in {"send", "flush"} /\ ~wrote
    /\ tail = 0
    /\ docs # <<>>
    /\ docs = (IF cur.kind = "send" THEN Append(pend, cur.doc) ELSE pend)
    /\ (cur.kind = "send" => ~cur.bad /\ Bytes(pend) + cur.doc.len + 1 <= maxb)
    /\ wrote' = TRUE /\ pend' = <<>>
    /\ UNCHANGED <<maxb, cur>>

\* The operation returns success.
RetOk ==
    /\ cur # NoOp
    /\ CASE cur.kind = "enqueue" ->
              /\ ~cur.bad /\ ~wrote
              /\ Bytes(pend) + cur.doc.len + 1 <= maxb       \* it fits within the limit
              /\ pend' = Append(pend, cur.doc)
         [] cur.kind = "send" -> wrote /\ UNCHANGED pend    \* it was written (Write checked what)
         [] cur.kind = "flush" -> (wrote \/ pend = <<>>) /\ UNCHANGED pend
    /\ cur' = NoOp /\ UNCHANGED <<maxb, wrote>>

\* The message is refused because it does not fit: legitimate only when it really cannot fit
\* within the limit; it contributes no bytes and earlier messages stay enqueued.
RetOverflow ==
    /\ cur.kind \in {"enqueue", "send"} /\ ~wrote
    \* (a value that cannot be encoded has no length: it may hit the limit before the serializer
    \* reaches the part it refuses, either refusal is legitimate for it)
    /\ (cur.bad \/ Bytes(pend) + cur.doc.len + 1 >= maxb)
    /\ cur' = NoOp /\ UNCHANGED <<pend, maxb, wrote>>

\* The message is refused by the serializer: only for a value that cannot be encoded.
RetRefused ==
    /\ cur.kind \in {"enqueue", "send"} /\ ~wrote /\ cur.bad
    /\ cur' = NoOp /\ UNCHANGED <<pend, maxb, wrote>>

\* The transport failed: nothing is promised about what stays enqueued.
RetIoErr ==
    /\ cur.kind \in {"send", "flush"}
    /\ cur' = NoOp /\ UNCHANGED <<maxb, wrote>>
    /\ pend' \in {pend, <<>>, IF cur.kind = "send" THEN Append(pend, cur.doc) ELSE pend}

\* The operation is abandoned while its transport write is pending (nothing handed over yet): everything
\* accepted before stays enqueued; the abandoned send's own message was never accepted, it may or may not
\* go out with a later write (cancel safety of send_* / flush).
RetCancelled ==
    /\ cur.kind \in {"send", "flush"} /\ ~wrote
    /\ cur' = NoOp /\ UNCHANGED <<maxb, wrote>>
    /\ pend' \in {pend} \cup (IF cur.kind = "send" /\ ~cur.bad /\ Bytes(pend) + cur.doc.len + 1 <= maxb
                             THEN {Append(pend, cur.doc)} ELSE {})

ONext(docs) ==
    \/ \E kd \in Kinds, d \in docs, b \in BOOLEAN : Begin(kd, d, b)
    \/ Write(IF cur.kind = "send" THEN Append(pend, cur.doc) ELSE pend, 0)
    \/ RetOk \/ RetOverflow \/ RetRefused \/ RetIoErr \/ RetCancelled
=============================================================================
