--------------------------- MODULE IntrospectTrace ---------------------------
(* C16 trace validation.  One `introspect' event per generated group of Rust declarations:
     group     the declarations (as TLC enumerated them)
     derived   the interface assembled from <T as CustomType>::CUSTOM_TYPE, <E as ReplyError>::VARIANTS and
               <T as Type>::TYPE of the probe types, projected through zlink's public accessors
     toks ...  what zlink makes of rendering that interface and parsing it back (as in C14)
   The derived description must be exactly IfaceOf(group): fields / variants in declaration order under
   their Rust names, each with VarlinkOf its Rust type, doc comments as comments; and the interface must
   render to text of the grammar that parses back to an equal description.  With
   AllowCommentedEnumRender the last clause may fail in the way of the open C14 finding for groups that
   contain an enum with >= 2 variants of which one carries a doc comment.  (That rendering the parsed
   result reproduces the text is C14's second law; it is not demanded here: derived inline types carry
   doc comments inside nested types, a level C14's statement does not cover.) *)
EXTENDS Introspect, Json, IOUtils
CONSTANT AllowCommentedEnumRender
Rec == ndJsonDeserialize(IOEnv.TRACE)
VARIABLE l
IsEv(e) == l <= Len(Rec) /\ Rec[l].ev = e /\ l' = l + 1
TInit == l = 1

HasCommentedEnum(g) ==
    \/ \E x \in 1..Len(g.customs) : g.customs[x].isenum /\ CommentedEnum(g.customs[x].variants)
    \/ \E x \in 1..Len(g.inlines) : g.inlines[x].isenum /\ CommentedEnum(g.inlines[x].variants)
GroupOk(e) ==
    LET a == IfaceOf(e.group)
        p == Parse(e.toks) IN
    /\ ~e.panicked
    /\ e.derived = Norm(a)
    /\ \/ /\ p.ok /\ ~p.gpos /\ p.out = Norm(a)
          /\ e.accepted /\ e.canon = Norm(a) /\ e.eq /\ e.wire_same
       \/ /\ AllowCommentedEnumRender /\ HasCommentedEnum(e.group)
          /\ ~p.ok /\ ~e.accepted
          /\ PrintT(<<"KNOWN", e.id>>)
TGroup == IsEv("introspect") /\ GroupOk(Rec[l])
TOther == IsEv("reset") \/ IsEv("end")
TNext == TGroup \/ TOther
TSpec == TInit /\ [][TNext]_l
Accepted ==
    LET d == TLCGet("stats").diameter IN
    IF d - 1 = Len(Rec) THEN TRUE
    ELSE /\ PrintT(<<"REJECT", d, ToJson([ev |-> Rec[d].ev, id |-> Rec[d].id, text |-> Rec[d].text])>>)
         /\ FALSE
=============================================================================
