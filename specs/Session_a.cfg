CONSTANTS MaxCalls = 4 MaxItems = 2 ServerAnswersOneway = FALSE ClientMayAbandon = FALSE ClientDrainsAbandoned = FALSE
SPECIFICATION Spec
INVARIANTS Correspondence Complete
CHECK_DEADLOCK FALSE
