------------------------------- MODULE Notified -------------------------------
(***************************************************************************)
(* C20: notified state (zlink-tokio / zlink-smol `notified' modules).        *)
(*                                                                           *)
(* Implementation-shaped: a broadcast channel with ONE slot.  `Set' puts the  *)
(* value in the slot (overwriting), each subscriber has a position; a lagging  *)
(* subscriber skips to the slot's value.  The channel closes when the last     *)
(* State handle is dropped (State is Clone).  `Once' is a one-shot channel.    *)
(* Values are identified with the number of the Set that produced them.        *)
(***************************************************************************)
EXTENDS Naturals, Sequences, FiniteSets, TLC
CONSTANTS Subs, MaxSets, MaxHandles,
          LagRule      \* "skip" : a lagging subscriber jumps to the latest value (code) | "end" : mutant - lag ends the stream

VARIABLES version,   \* number of Set operations so far
          handles,   \* live State handles
          sub,       \* sub[s] = [on, since, pos, ended]
          got,       \* got[s] = items <<value, continues>> yielded so far
          once,      \* "none" | "armed" | "notified" | "dropped" | "taken" | "ended"
          onceGot
vars == <<version, handles, sub, got, once, onceGot>>
alive == handles > 0

Init == /\ version = 0 /\ handles = 1
        /\ sub = [s \in Subs |-> [on |-> FALSE, since |-> 0, pos |-> 0, ended |-> FALSE]]
        /\ got = [s \in Subs |-> <<>>]
        /\ once = "none" /\ onceGot = <<>>

Set == /\ alive /\ version < MaxSets /\ version' = version + 1
       /\ UNCHANGED <<handles, sub, got, once, onceGot>>
CloneState == /\ alive /\ handles < MaxHandles /\ handles' = handles + 1
              /\ UNCHANGED <<version, sub, got, once, onceGot>>
DropState == /\ alive /\ handles' = handles - 1
             /\ UNCHANGED <<version, sub, got, once, onceGot>>
Subscribe(s) == /\ alive /\ ~sub[s].on
                /\ sub' = [sub EXCEPT ![s] = [on |-> TRUE, since |-> version, pos |-> version, ended |-> FALSE]]
                /\ UNCHANGED <<version, handles, got, once, onceGot>>
Poll(s) == /\ sub[s].on /\ ~sub[s].ended
           /\ IF sub[s].pos < version
              THEN IF LagRule = "end" /\ sub[s].pos + 1 < version
                   THEN /\ sub' = [sub EXCEPT ![s].ended = TRUE] /\ UNCHANGED got
                   ELSE /\ got' = [got EXCEPT ![s] = Append(@, <<version, TRUE>>)]
                        /\ sub' = [sub EXCEPT ![s].pos = version]
              ELSE IF ~alive THEN sub' = [sub EXCEPT ![s].ended = TRUE] /\ UNCHANGED got   \* end of stream
              ELSE UNCHANGED <<got, sub>>                                                \* Pending
           /\ UNCHANGED <<version, handles, once, onceGot>>

\* one-shot notification
OnceNew == once = "none" /\ once' = "armed" /\ UNCHANGED <<version, handles, sub, got, onceGot>>
Notify == once = "armed" /\ once' = "notified" /\ UNCHANGED <<version, handles, sub, got, onceGot>>
DropNotifier == once = "armed" /\ once' = "dropped" /\ UNCHANGED <<version, handles, sub, got, onceGot>>
PollOnce == /\ once \in {"armed", "notified", "dropped", "taken", "ended"}
            /\ CASE once = "notified" -> once' = "taken" /\ onceGot' = Append(onceGot, <<"item", FALSE>>)
                 [] once \in {"dropped", "taken"} -> once' = "ended" /\ onceGot' = Append(onceGot, <<"end", FALSE>>)
                 [] once = "ended" -> UNCHANGED <<once, onceGot>>      \* stays ended
                 [] OTHER -> UNCHANGED <<once, onceGot>>          \* Pending
            /\ UNCHANGED <<version, handles, sub, got>>

Next == Set \/ CloneState \/ DropState \/ OnceNew \/ Notify \/ DropNotifier \/ PollOnce
        \/ \E s \in Subs : Subscribe(s) \/ Poll(s)
Spec == Init /\ [][Next]_vars /\ \A s \in Subs : WF_vars(Poll(s) /\ sub[s].pos < version)

\* ---- properties -------------------------------------------------------------------
\* in set order, after the subscription point, each marked continuing
Ordered == \A s \in Subs : \A i \in 1..Len(got[s]) :
              /\ got[s][i][1] > sub[s].since /\ got[s][i][2] = TRUE
              /\ (i > 1 => got[s][i][1] > got[s][i - 1][1])
NoEndWhileAlive == \A s \in Subs : alive => ~sub[s].ended
\* the stream ends only after the most recent value was delivered
EndOnlyUpToDate == \A s \in Subs : sub[s].ended => sub[s].pos = version
OnceExactlyOne == /\ Len(SelectSeq(onceGot, LAMBDA x : x[1] = "item")) <= 1
                  /\ \A i \in 1..Len(onceGot) : onceGot[i][1] = "item" => onceGot[i][2] = FALSE
                  /\ \A i \in 1..Len(onceGot) : \A j \in 1..Len(onceGot) :
                        (i < j /\ onceGot[i][1] = "end") => onceGot[j][1] = "end"
Safety == Ordered /\ NoEndWhileAlive /\ EndOnlyUpToDate /\ OnceExactlyOne
EventuallyLatest == \A s \in Subs : [](sub[s].on => <>(sub[s].pos = version \/ sub[s].ended))
=============================================================================
