----------------------------- MODULE ServerTrace -----------------------------
(* Property-level specification of zlink's Server::run (C08, C09, C10, C18) as a trace
   specification: it knows only what clients sent (their scripts), when their bytes became
   available, and what can be observed from outside - accepts, the order in which calls reach the
   service, what is written on which connection, which connections the server closes, whether the
   server future ever returns.  Nothing about connection vectors, indices or the select loop
   (Server.tla models those and is checked to satisfy the same properties).

   Events: reset{n, conns[{calls[{k,a,f}], faulty}], fair}, connect{c}, accept{c}, inject{c,avail},
   handle{c,i,oneway,more}, wrote{w, frames[{t,c,i,j,cont}], tail}, stream_item, stream_end{c,i},
   tick, fault{c}, write_err{c}, wrote_partial{w, frames, tail}, dropped{c}, exit, quiesce. *)
EXTENDS Naturals, Sequences, FiniteSets, Json, IOUtils, TLC

Rec == ndJsonDeserialize(IOEnv.TRACE)

VARIABLES l, n, script, faulty, fair,
          wonly,    \* the connection's only fault is a failing transport write: what reaches its client is judged
          status,   \* "new" | "queued" | "open" | "streaming" | "gone"
          avail,    \* complete call frames made available so far
          handled,  \* calls that reached the service
          outn,     \* owed replies written so far
          wait, wtot, wtr,  \* fairness counters (C18), see FairUpdate
          sw        \* stream items written while the connection has had a complete call waiting (C10)
tvars == <<l, n, script, faulty, fair, wonly, status, avail, handled, outn, wait, wtot, wtr, sw>>

Conns == 0..(n - 1)
IsEv(e) == l <= Len(Rec) /\ Rec[l].ev = e /\ l' = l + 1

\* ---- what each connection is owed, from its script alone (C08, C10) ----------------
Decodable(kd) == kd.k \notin {"bad", "garbage"}
OwedOf(kd, i) ==
    CASE kd.k = "plain" -> <<[t |-> "reply", i |-> i, j |-> 0, cont |-> 1]>>
      [] kd.k = "error" -> <<[t |-> "error", i |-> i, j |-> 0, cont |-> 0]>>
      [] kd.k = "stream" -> [j \in 1..kd.a |-> [t |-> "item", i |-> i, j |-> j,
                                                 cont |-> IF kd.f /\ j = kd.a THEN 1 ELSE 2]]
      [] OTHER -> <<>>          \* oneway calls get nothing
RECURSIVE OwedFrom(_, _)
OwedFrom(sc, i) == IF i > Len(sc) \/ ~Decodable(sc[i]) THEN <<>> ELSE OwedOf(sc[i], i) \o OwedFrom(sc, i + 1)
Owed(c) == OwedFrom(script[c], 1)
\* number of owed replies that belong to calls before call i
OwedBefore(c, i) == Cardinality({x \in 1..Len(Owed(c)) : Owed(c)[x].i < i})
\* calls that must reach the service: everything up to the first undecodable one
RECURSIVE ServedCalls(_, _)
ServedCalls(sc, i) == IF i > Len(sc) \/ ~Decodable(sc[i]) THEN i - 1 ELSE ServedCalls(sc, i + 1)

\* ---- fairness bookkeeping (C18) ------------------------------------------------------
Ready(x) == status[x] = "open" /\ avail[x] > handled[x]
Zeros == [d \in Conns |-> 0]
FairUpdate(servedNow, c0, setChanged) ==
    /\ wait' = [x \in Conns |->
                  IF ~Ready(x) \/ (servedNow /\ x = c0) THEN Zeros
                  ELSE IF setChanged THEN Zeros
                  ELSE IF servedNow THEN [wait[x] EXCEPT ![c0] = @ + 1] ELSE wait[x]]
    /\ wtot' = [x \in Conns |->
                  IF ~Ready(x) \/ (servedNow /\ x = c0) THEN 0
                  ELSE IF servedNow THEN wtot[x] + 1 ELSE wtot[x]]
    /\ wtr' = [x \in Conns |->
                  IF ~Ready(x) \/ (servedNow /\ x = c0) THEN 0
                  ELSE IF setChanged THEN wtr[x] + 1 ELSE wtr[x]]
\* While the set of open connections is unchanged, no connection is served twice while another
\* has had a complete call waiting the whole time; across set changes the wait is bounded.
FairOK == fair => /\ \A x \in Conns : \A d \in Conns : wait'[x][d] <= 1
                  /\ \A x \in Conns : wtot'[x] <= n * (wtr'[x] + 1)
NoFair == UNCHANGED <<wait, wtot, wtr>>

\* ---- actions -----------------------------------------------------------------------------
TInit == /\ l = 1 /\ n = 0 /\ script = <<>> /\ faulty = <<>> /\ fair = FALSE /\ wonly = <<>>
         /\ status = <<>> /\ avail = <<>> /\ handled = <<>> /\ outn = <<>>
         /\ wait = <<>> /\ wtot = <<>> /\ wtr = <<>> /\ sw = <<>>

TReset == /\ IsEv("reset")
          /\ LET m == Rec[l].n IN
             /\ n' = m /\ fair' = Rec[l].fair
             /\ script' = [c \in 0..(m - 1) |-> Rec[l].conns[c + 1].calls]
             /\ faulty' = [c \in 0..(m - 1) |-> Rec[l].conns[c + 1].faulty]
             /\ wonly' = [c \in 0..(m - 1) |-> Rec[l].conns[c + 1].wonly]
             /\ status' = [c \in 0..(m - 1) |-> "new"]
             /\ avail' = [c \in 0..(m - 1) |-> 0] /\ handled' = [c \in 0..(m - 1) |-> 0]
             /\ outn' = [c \in 0..(m - 1) |-> 0]
             /\ wait' = [x \in 0..(m - 1) |-> [d \in 0..(m - 1) |-> 0]]
             /\ wtot' = [x \in 0..(m - 1) |-> 0] /\ wtr' = [x \in 0..(m - 1) |-> 0]
             /\ sw' = [x \in 0..(m - 1) |-> 0]

TConnect == /\ IsEv("connect") /\ LET c == Rec[l].c IN
               status[c] = "new" /\ status' = [status EXCEPT ![c] = "queued"]
            /\ NoFair /\ UNCHANGED <<n, script, faulty, fair, wonly, avail, handled, outn, sw>>
TAccept == /\ IsEv("accept") /\ LET c == Rec[l].c IN
              /\ status[c] = "queued" /\ status' = [status EXCEPT ![c] = "open"]
           /\ FairUpdate(FALSE, 0, TRUE) /\ FairOK
           /\ UNCHANGED <<n, script, faulty, fair, wonly, avail, handled, outn, sw>>
TInject == /\ IsEv("inject") /\ avail' = [avail EXCEPT ![Rec[l].c] = Rec[l].avail]
           /\ NoFair /\ UNCHANGED <<n, script, faulty, fair, wonly, status, handled, outn, sw>>

\* A call reaches the service: the next one of its connection, fully received, after everything
\* owed to the earlier calls of that connection was written - exactly once, in order (C08).
THandle == /\ IsEv("handle")
           /\ LET c == Rec[l].c  i == Rec[l].i IN
              /\ c \in Conns /\ status[c] \in {"open", "torn"}   \* (torn: the call may still reach the service, nothing can be written)
              /\ i = handled[c] + 1 /\ i <= Len(script[c]) /\ avail[c] >= i
              /\ Decodable(script[c][i])
              /\ Rec[l].oneway = (script[c][i].k \in {"oneway", "onewayerr"})
              /\ (~faulty[c] => outn[c] = OwedBefore(c, i))
              /\ handled' = [handled EXCEPT ![c] = i]
              /\ status' = [status EXCEPT ![c] = IF @ = "torn" THEN @ ELSE IF script[c][i].k = "stream" THEN "streaming" ELSE "open"]
              /\ FairUpdate(TRUE, c, script[c][i].k = "stream") /\ FairOK
              /\ sw' = [sw EXCEPT ![c] = 0]
           /\ UNCHANGED <<n, script, faulty, fair, wonly, avail, outn>>

\* Something is written on connection w: only what w itself is owed next, in order, after the
\* call it answers reached the service (C08: own connection, exactly once; C10: items in order
\* with the service's continues flags).
NumItems(fs) == Cardinality({x \in 1..Len(fs) : fs[x].t = "item"})
WithC(o, w) == [t |-> o.t, c |-> w, i |-> o.i, j |-> o.j, cont |-> o.cont]
RECURSIVE FramesMatch(_, _, _)
FramesMatch(w, fs, k) ==
    IF fs = <<>> THEN TRUE
    ELSE /\ Head(fs).c = w
         /\ ((faulty[w] /\ ~wonly[w]) \/ ( /\ k + 1 <= Len(Owed(w))
                            /\ Head(fs) = WithC(Owed(w)[k + 1], w)
                            /\ Head(fs).i <= handled[w] ))
         /\ FramesMatch(w, Tail(fs), k + 1)
TWrote == /\ IsEv("wrote")
          /\ LET w == Rec[l].w  fs == Rec[l].frames IN
             /\ Rec[l].tail = 0 /\ fs # <<>>
             /\ status[w] \in {"open", "streaming"}
             /\ FramesMatch(w, fs, outn[w])
             /\ outn' = [outn EXCEPT ![w] = @ + Len(fs)]
             \* While a stream is open other clients are still served (C10): a connection whose complete call
             \* is waiting is not passed over for more stream items than there are connections (the code
             \* gives calls priority over stream items altogether; judged where readiness is exact: `fair').
             /\ sw' = [x \in Conns |-> IF x # w /\ Ready(x) THEN sw[x] + NumItems(fs) ELSE sw[x]]
             /\ (fair => \A x \in Conns : sw'[x] <= n)
          /\ NoFair /\ UNCHANGED <<n, script, faulty, fair, wonly, status, avail, handled>>

\* A transport write failed after it had handed over some of its bytes (only on connections designated
\* for write faults).  The complete frames among them have reached the client: they are judged like any
\* other write and count as written - a reply that got through is never written again (C08: exactly one
\* reply).  If the write stopped inside a frame the client's stream is torn: nothing may follow on it.
TWrotePartial ==
          /\ IsEv("wrote_partial")
          /\ LET w == Rec[l].w  fs == Rec[l].frames IN
             /\ faulty[w] /\ wonly[w]
             /\ status[w] \in {"open", "streaming"}
             /\ FramesMatch(w, fs, outn[w])
             /\ outn' = [outn EXCEPT ![w] = @ + Len(fs)]
             /\ status' = [status EXCEPT ![w] = IF Rec[l].tail > 0 THEN "torn" ELSE @]
          /\ NoFair /\ UNCHANGED <<n, script, faulty, fair, wonly, avail, handled, sw>>

\* The service's stream ended: the connection takes calls again (C10).
TStreamEnd == /\ IsEv("stream_end")
              /\ LET c == Rec[l].c IN
                 /\ status[c] \in {"streaming", "gone", "torn"}
                 /\ (status[c] = "streaming" /\ ~faulty[c] => outn[c] = OwedBefore(c, Rec[l].i + 1))
                 /\ status' = [status EXCEPT ![c] = IF @ = "streaming" THEN "open" ELSE @]
              /\ FairUpdate(FALSE, 0, TRUE) /\ FairOK
              /\ UNCHANGED <<n, script, faulty, fair, wonly, avail, handled, outn, sw>>
TNoop == (IsEv("stream_item") \/ IsEv("tick")) /\ NoFair
         /\ UNCHANGED <<n, script, faulty, fair, wonly, status, avail, handled, outn, sw>>

\* Faults are injected only on connections the scenario designates as faulty (C09) ...
TFault == (IsEv("fault") \/ IsEv("write_err")) /\ faulty[Rec[l].c] /\ NoFair
          /\ UNCHANGED <<n, script, faulty, fair, wonly, status, avail, handled, outn, sw>>
\* ... and only such a connection is ever closed by the server.
TDropped == /\ IsEv("dropped") /\ faulty[Rec[l].c]
            /\ status' = [status EXCEPT ![Rec[l].c] = "gone"]
            /\ FairUpdate(FALSE, 0, TRUE) /\ FairOK
            /\ UNCHANGED <<n, script, faulty, fair, wonly, avail, handled, outn, sw>>

\* Nothing moves any more: every healthy connection got everything it is owed, the server runs.
TQuiesce == /\ IsEv("quiesce") /\ ~Rec[l].exited
            /\ \A c \in Conns : ~faulty[c] =>
                  /\ status[c] = "open"
                  /\ handled[c] = ServedCalls(script[c], 1)
                  /\ outn[c] = Len(Owed(c))
            /\ NoFair /\ UNCHANGED <<n, script, faulty, fair, wonly, status, avail, handled, outn, sw>>
\* (an `exit' event - the server future returned or panicked - is never explained)

TNext == TReset \/ TConnect \/ TAccept \/ TInject \/ THandle \/ TWrote \/ TWrotePartial \/ TStreamEnd \/ TNoop
         \/ TFault \/ TDropped \/ TQuiesce
TSpec == TInit /\ [][TNext]_tvars
Accepted ==
    LET d == TLCGet("stats").diameter IN
    IF d - 1 = Len(Rec) THEN TRUE
    ELSE /\ PrintT(<<"REJECT", d, ToJson(Rec[d])>>)
         /\ FALSE
=============================================================================
