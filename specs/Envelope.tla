------------------------------- MODULE Envelope -------------------------------
(***************************************************************************)
(* C05: the Varlink envelopes.  A message is a finite sequence of members    *)
(* (name, value token).                                                      *)
(*                                                                           *)
(*  Call   : the method type's own members, then `oneway', `more', `upgrade'  *)
(*           - each only when set.  Decoding takes the flags from any         *)
(*           position (absent = false), hides them from the method type and   *)
(*           passes every other member through in order.                      *)
(*  Error  : {"error": "<interface>.<Variant>"} plus a `parameters' object     *)
(*           holding the variant's fields under their wire names exactly when  *)
(*           it has fields.                                                    *)
(*  Reply  : `parameters' and `continues' only when present.                   *)
(*  A message without parameters is recognised whether `parameters' is         *)
(*  absent, null or an empty object.                                           *)
(*                                                                           *)
(* The operators below are the specification; the model part checks the laws   *)
(* (decode o permute o encode = id, flags never leak into the method type) for  *)
(* all flag sets, all positions of the flags and unknown extra members.        *)
(***************************************************************************)
EXTENDS Naturals, Sequences, FiniteSets, TLC

FlagNames == <<"oneway", "more", "upgrade">>
IsFlag(nm) == nm \in {"oneway", "more", "upgrade"}

\* ---- calls: members are [n |-> name, v |-> value token] ------------------------------
EncodeCall(own, flags) ==
    own \o [i \in 1..Cardinality({j \in 1..3 : flags[FlagNames[j]]}) |->
              LET set == SelectSeq(FlagNames, LAMBDA f : flags[f]) IN [n |-> set[i], v |-> "true"]]
Names(ms) == [i \in 1..Len(ms) |-> ms[i].n]
Rest(ms) == SelectSeq(ms, LAMBDA m : ~IsFlag(m.n))
FlagOf(ms, f) == \E i \in 1..Len(ms) : ms[i].n = f /\ ms[i].v = "true"
DecodeCall(ms) == [own |-> Rest(ms), flags |-> [f \in {"oneway", "more", "upgrade"} |-> FlagOf(ms, f)]]
\* expected member names of an encoded call
ExpectedCallNames(ownNames, ow, mo, up) ==
    ownNames \o SelectSeq(FlagNames, LAMBDA f : (f = "oneway" /\ ow) \/ (f = "more" /\ mo) \/ (f = "upgrade" /\ up))
FlagSpec(s) == s = "true"           \* "absent" | "true" | "false"

\* ---- errors ---------------------------------------------------------------------------
ExpectedErrorTop(fields) == IF fields = <<>> THEN <<"error">> ELSE <<"error", "parameters">>
NoParamSpellings == {"absent", "null", "empty"}
\* must a decode succeed?
ErrorDecodeMustSucceed(nfields, spelling) ==
    (nfields = 0 /\ spelling \in NoParamSpellings) \/ (nfields > 0 /\ spelling = "full")

\* ---- replies --------------------------------------------------------------------------
ExpectedReplyNames(hasParams, cont) ==
    (IF hasParams THEN <<"parameters">> ELSE <<>>) \o (IF cont # "none" THEN <<"continues">> ELSE <<>>)

\* ---- model: the call laws over all placements --------------------------------------
CONSTANTS OwnSets     \* set of sequences of own members to try
VARIABLES own, flags, wire
vars == <<own, flags, wire>>
Extra == [n |-> "x-unknown", v |-> "obj"]
\* all ways to insert the flag members (true or false) and an optional unknown member into `own'
RECURSIVE Insertions(_, _)
Insertions(ms, todo) ==
    IF todo = <<>> THEN {ms}
    ELSE UNION {Insertions(SubSeq(ms, 1, p) \o <<Head(todo)>> \o SubSeq(ms, p + 1, Len(ms)), Tail(todo))
                : p \in 0..Len(ms)}
Init == /\ own \in OwnSets
        /\ flags \in [{"oneway", "more", "upgrade"} -> BOOLEAN]
        /\ \E explicitFalse \in SUBSET {"oneway", "more", "upgrade"} : \E withExtra \in BOOLEAN :
             LET members == SelectSeq(FlagNames, LAMBDA f : flags[f] \/ f \in explicitFalse)
                 todo == [i \in 1..Len(members) |-> [n |-> members[i], v |-> IF flags[members[i]] THEN "true" ELSE "false"]]
                         \o (IF withExtra THEN <<Extra>> ELSE <<>>)
             IN wire \in Insertions(own, todo)
Next == UNCHANGED vars
Spec == Init /\ [][Next]_vars
\* the laws
RoundTrip == DecodeCall(EncodeCall(own, flags)) = [own |-> own, flags |-> flags]
FlagsAnywhere == DecodeCall(wire).flags = flags
FlagsHidden == \A i \in 1..Len(DecodeCall(wire).own) : ~IsFlag(DecodeCall(wire).own[i].n)
OthersPassThroughInOrder == SelectSeq(DecodeCall(wire).own, LAMBDA m : m # Extra) = own
EncodeShape == Names(EncodeCall(own, flags)) = ExpectedCallNames(Names(own), flags["oneway"], flags["more"], flags["upgrade"])
Laws == RoundTrip /\ FlagsAnywhere /\ FlagsHidden /\ OthersPassThroughInOrder /\ EncodeShape
=============================================================================
