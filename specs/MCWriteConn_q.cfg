CONSTANTS B = 4  MAXB = 12  Lens = {0, 3, 4, 7, 8, 11, 12}  ResetRule = "after"  MaxDocs = 2
SPECIFICATION Spec
INVARIANT Inv
PROPERTY Refines
CONSTRAINT Bound
CHECK_DEADLOCK FALSE
