SPECIFICATION Spec
CHECK_DEADLOCK FALSE
