------------------------------ MODULE IdlTrace ------------------------------
(* C13 / C14 / C16 trace validation against the grammar acceptor of Idl.tla.

   `parse' events (C13): a text was given to zlink's parser; `toks' is the independent lexing of the
   same text.  With p = Parse(toks):
     - zlink neither panics nor hangs;
     - a text outside the grammar is rejected;
     - a text of the covered class (comments only on their own lines before the interface, a
       member, a field / parameter or a variant) is accepted;
     - whatever zlink accepts denotes exactly p.out (modulo comments when a comment stands where
       the property does not place comments): nothing is ignored;
     - for generated texts the denoted description is the generating tree: p.out = Norm(ast).

   `render' events (C14, C16): a description built through the public constructors (or derived by
   the macros) was rendered by zlink; `toks' is the lexing of that text.  The text must be in the
   grammar and denote the description; zlink must parse it back to an equal description, render it
   again to the same text, and the same through the GetInterfaceDescription exchange.  With
   AllowCommentedEnumRender (the open finding) a description containing an enum with >= 2 variants
   of which one is commented may instead be rendered to text that is not in the grammar. *)
EXTENDS Idl, Json, IOUtils
CONSTANT AllowCommentedEnumRender
Rec == ndJsonDeserialize(IOEnv.TRACE)
VARIABLE l
IsEv(e) == l <= Len(Rec) /\ Rec[l].ev = e /\ l' = l + 1
TInit == l = 1

ParseOk(e) ==
    LET p == Parse(e.toks)
        grey == p.gpos \/ p.gown IN
    /\ ~e.panicked /\ ~e.hung
    /\ (~p.ok => ~e.accepted)
    /\ (p.ok /\ ~grey => e.accepted)
    /\ (e.accepted => IF grey THEN NoComments(e.canon) = NoComments(p.out) ELSE e.canon = p.out)
    /\ (e.hasast => p.ok /\ ~grey /\ p.out = Norm(e.ast))
TParse == IsEv("parse") /\ ParseOk(Rec[l])

RenderOk(e) ==
    LET p == Parse(e.toks) IN
    /\ ~e.panicked
    /\ p.ok /\ ~p.gpos /\ p.out = Norm(e.ast)          \* the rendering is in the grammar and denotes the description
    /\ e.accepted /\ e.canon = Norm(e.ast) /\ e.eq     \* zlink parses it back to an equal description
    /\ e.text2_same                                     \* and renders that to the same text
    /\ e.wire_same                                      \* also through GetInterfaceDescription
RenderKnown(e) ==
    /\ AllowCommentedEnumRender /\ e.commented_enum /\ ~e.panicked
    /\ ~Parse(e.toks).ok /\ ~e.accepted
    /\ PrintT(<<"KNOWN", e.id>>)
TRender == IsEv("render") /\ (RenderOk(Rec[l]) \/ RenderKnown(Rec[l]))

TOther == IsEv("reset") \/ IsEv("end")
TNext == TParse \/ TRender \/ TOther
TSpec == TInit /\ [][TNext]_l
Accepted ==
    LET d == TLCGet("stats").diameter IN
    IF d - 1 = Len(Rec) THEN TRUE
    ELSE /\ PrintT(<<"REJECT", d, ToJson([ev |-> Rec[d].ev, id |-> Rec[d].id, text |-> Rec[d].text])>>)
         /\ FALSE
=============================================================================
