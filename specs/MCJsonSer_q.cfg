CONSTANT PoolSize = 5
SPECIFICATION Spec
INVARIANTS WellFormed Export
CHECK_DEADLOCK FALSE
