--------------------------------- MODULE Idl ---------------------------------
(***************************************************************************)
(* C13 / C14 (and the base of C15 / C16): the Varlink interface definition  *)
(* language as zlink must read and write it.                                *)
(*                                                                         *)
(* Two views of a description, and the maps between them:                   *)
(*                                                                         *)
(*   AST     the description itself (what zlink's idl::Interface holds)     *)
(*   tokens  what a text is once whitespace is gone                         *)
(*                                                                         *)
(*   Canon(ast)   the token list of the description in source order         *)
(*   Norm(ast)    the token list in the order zlink's Interface exposes it  *)
(*                (custom types, methods, errors: each in source order)     *)
(*   Parse(toks)  recursive-descent acceptor for the Varlink grammar:       *)
(*                rejects, or yields Norm of the denoted description        *)
(*                                                                         *)
(* A token is a record [k, s, c, sp, own]:                                  *)
(*   k   "W" word | "P" punctuation | "C" comment | "B" any other character *)
(*   s   its text (comment: the text behind `#' without leading blanks)     *)
(*   c   for words, one class letter per character:                         *)
(*         U upper, l lower, d digit, _ underscore, - hyphen, . dot          *)
(*   sp  the token is preceded by whitespace, a comment or the start         *)
(*   own (comments) nothing but whitespace precedes it on its line           *)
(* Output tokens are [k, s] only.                                           *)
(*                                                                         *)
(* Comments.  The grammar allows a comment wherever it allows whitespace.   *)
(* The property speaks about comments on their own lines before the         *)
(* interface, a member, a field/parameter or a variant.  Parse therefore    *)
(* reports two flags next to its verdict:                                   *)
(*   gpos  some comment sits somewhere else (it is skipped)                  *)
(*   gown  some comment does not stand on its own line                      *)
(* A text with neither flag is in the class the property covers: it must be *)
(* accepted and denote exactly `out'.  Comments are part of `out' at the     *)
(* levels the property names (interface, members, their direct fields,      *)
(* parameters and variants); comments inside nested inline types only have   *)
(* to be tolerated.                                                         *)
(***************************************************************************)
EXTENDS Naturals, Sequences, TLC

Tok(k, s) == [k |-> k, s |-> s]
W(s) == Tok("W", s)
P(s) == Tok("P", s)
C(s) == Tok("C", s)

\* ---- names (the three lexical rules of the Varlink grammar) ---------------------------
Ch(c, i) == SubSeq(c, i, i)
Alpha(x) == x \in {"U", "l"}
Alnum(x) == x \in {"U", "l", "d"}

\* field_name = [A-Za-z]('_'?[A-Za-z0-9])*
RECURSIVE FieldTail(_, _)
FieldTail(c, i) ==
    \/ i > Len(c)
    \/ Alnum(Ch(c, i)) /\ FieldTail(c, i + 1)
    \/ Ch(c, i) = "_" /\ i + 1 <= Len(c) /\ Alnum(Ch(c, i + 1)) /\ FieldTail(c, i + 2)
IsFieldName(c) == Len(c) >= 1 /\ Alpha(Ch(c, 1)) /\ FieldTail(c, 2)

\* name = [A-Z][A-Za-z0-9]*
RECURSIVE AllAlnum(_, _)
AllAlnum(c, i) == i > Len(c) \/ (Alnum(Ch(c, i)) /\ AllAlnum(c, i + 1))
IsTypeName(c) == Len(c) >= 1 /\ Ch(c, 1) = "U" /\ AllAlnum(c, 2)

\* interface_name = [A-Za-z]([-]*[A-Za-z0-9])* ( '.' [A-Za-z0-9]([-]*[A-Za-z0-9])* )+
\* scanned with: first = still in the first segment, atStart = at the first character of a
\* segment, prev = class of the previous character, dots = separators seen
RECURSIVE IfaceScan(_, _, _, _, _, _)
IfaceScan(c, i, first, atStart, prev, dots) ==
    IF i > Len(c) THEN ~atStart /\ Alnum(prev) /\ dots >= 1
    ELSE LET x == Ch(c, i) IN
         IF atStart THEN (IF first THEN Alpha(x) ELSE Alnum(x)) /\ IfaceScan(c, i + 1, first, FALSE, x, dots)
         ELSE IF Alnum(x) \/ x = "-" THEN IfaceScan(c, i + 1, first, FALSE, x, dots)
         ELSE IF x = "." THEN Alnum(prev) /\ IfaceScan(c, i + 1, FALSE, TRUE, x, dots + 1)
         ELSE FALSE
IsIfaceName(c) == Len(c) >= 1 /\ IfaceScan(c, 1, TRUE, TRUE, "", 0)

Prims == {"bool", "int", "float", "string", "object"}
MemberKw == {"type", "method", "error"}

\* ---- the acceptor -----------------------------------------------------------------------
Fail == [ok |-> FALSE, i |-> 0, out |-> <<>>, gpos |-> FALSE, gown |-> FALSE]
Res(i, out, gpos, gown) == [ok |-> TRUE, i |-> i, out |-> out, gpos |-> gpos, gown |-> gown]

IsP(T, i, p) == i <= Len(T) /\ T[i].k = "P" /\ T[i].s = p
IsW(T, i) == i <= Len(T) /\ T[i].k = "W"
IsC(T, i) == i <= Len(T) /\ T[i].k = "C"
IsKw(T, i, w) == IsW(T, i) /\ T[i].s = w
Glued(T, i) == i <= Len(T) /\ ~T[i].sp

RECURSIVE SkipC(_, _)
SkipC(T, i) == IF IsC(T, i) THEN SkipC(T, i + 1) ELSE i
CommentToks(T, a, b) == [x \in 1..(b - a) |-> C(T[a + x - 1].s)]       \* comments T[a..b-1]
NotOwn(T, a, b) == \E x \in a..(b - 1) : ~T[x].own

RECURSIVE PType(_, _, _), PNonOpt(_, _, _), PParen(_, _, _, _), PFieldsFrom(_, _, _, _), PVariantsFrom(_, _, _, _)

\* type = "?" non_optional | non_optional        (nothing may stand between the marker and its element)
PType(T, i, d) ==
    IF IsP(T, i, "?")
    THEN IF Glued(T, i + 1) /\ ~IsP(T, i + 1, "?")
         THEN LET r == PNonOpt(T, i + 1, d) IN
              IF r.ok THEN Res(r.i, <<P("?")>> \o r.out, r.gpos, r.gown) ELSE Fail
         ELSE Fail
    ELSE PNonOpt(T, i, d)

PNonOpt(T, i, d) ==
    IF IsP(T, i, "[]") \/ IsP(T, i, "[string]")
    THEN IF Glued(T, i + 1)
         THEN LET r == PType(T, i + 1, d) IN
              IF r.ok THEN Res(r.i, <<P(T[i].s)>> \o r.out, r.gpos, r.gown) ELSE Fail
         ELSE Fail
    ELSE IF IsW(T, i)
    THEN IF T[i].s \in Prims \/ IsTypeName(T[i].c) THEN Res(i + 1, <<W(T[i].s)>>, FALSE, FALSE) ELSE Fail
    ELSE IF IsP(T, i, "(") THEN PParen(T, i, d, "any")
    ELSE Fail

\* "(" ... ")" : mode "struct" (parameter lists, errors) or "any" (struct or enum).  `d' is the nesting
\* depth: 0 = the list belongs to a member directly, comments of its elements are part of the result.
PParen(T, i, d, mode) ==
    IF ~IsP(T, i, "(") THEN Fail
    ELSE LET j == SkipC(T, i + 1) IN
         IF IsP(T, j, ")")                                     \* the empty struct
         THEN Res(j + 1, <<P("("), P(")")>>, j > i + 1, FALSE)
         ELSE IF ~(IsW(T, j) /\ IsFieldName(T[j].c)) THEN Fail
         ELSE LET j2 == SkipC(T, j + 1) IN
              IF IsP(T, j2, ":")
              THEN LET r == PFieldsFrom(T, i + 1, d, TRUE) IN
                   IF r.ok THEN Res(r.i, <<P("(")>> \o r.out, r.gpos, r.gown) ELSE Fail
              ELSE IF mode = "any"
              THEN LET r == PVariantsFrom(T, i + 1, d, TRUE) IN
                   IF r.ok THEN Res(r.i, <<P("(")>> \o r.out, r.gpos, r.gown) ELSE Fail
              ELSE Fail

\* field ("," field)* ")"   starting at the comments that precede a field
PFieldsFrom(T, i, d, first) ==
    LET j == SkipC(T, i) IN
    IF ~(IsW(T, j) /\ IsFieldName(T[j].c)) THEN Fail
    ELSE LET j2 == SkipC(T, j + 1) IN
         IF ~IsP(T, j2, ":") THEN Fail
         ELSE LET j3 == SkipC(T, j2 + 1)
                  t == PType(T, j3, d + 1) IN
              IF ~t.ok THEN Fail
              ELSE LET j4 == SkipC(T, t.i)
                       mine == (IF first THEN <<>> ELSE <<P(",")>>)
                               \o (IF d = 0 THEN CommentToks(T, i, j) ELSE <<>>)
                               \o <<W(T[j].s), P(":")>> \o t.out
                       gp == t.gpos \/ j2 > j + 1 \/ j3 > j2 + 1 \/ j4 > t.i
                       go == t.gown \/ NotOwn(T, i, j) IN
                   IF IsP(T, j4, ")") THEN Res(j4 + 1, mine \o <<P(")")>>, gp, go)
                   ELSE IF IsP(T, j4, ",")
                   THEN LET r == PFieldsFrom(T, j4 + 1, d, FALSE) IN
                        IF r.ok THEN Res(r.i, mine \o r.out, gp \/ r.gpos, go \/ r.gown) ELSE Fail
                   ELSE Fail

\* variant ("," variant)* ")"
PVariantsFrom(T, i, d, first) ==
    LET j == SkipC(T, i) IN
    IF ~(IsW(T, j) /\ IsFieldName(T[j].c)) THEN Fail
    ELSE LET j2 == SkipC(T, j + 1)
             mine == (IF first THEN <<>> ELSE <<P(",")>>)
                     \o (IF d = 0 THEN CommentToks(T, i, j) ELSE <<>>)
                     \o <<W(T[j].s)>>
             gp == j2 > j + 1
             go == NotOwn(T, i, j) IN
         IF IsP(T, j2, ")") THEN Res(j2 + 1, mine \o <<P(")")>>, gp, go)
         ELSE IF IsP(T, j2, ",")
         THEN LET r == PVariantsFrom(T, j2 + 1, d, FALSE) IN
              IF r.ok THEN Res(r.i, mine \o r.out, gp \/ r.gpos, go \/ r.gown) ELSE Fail
         ELSE Fail

\* member = comments ("type" name (struct|enum) | "method" name struct "->" struct | "error" name struct)
\* result record additionally carries the member kind
PMember(T, i) ==
    LET j == SkipC(T, i) IN
    IF ~(IsW(T, j) /\ T[j].s \in MemberKw) THEN Fail @@ [kind |-> ""]
    ELSE LET kw == T[j].s
             j2 == SkipC(T, j + 1) IN
         IF ~(IsW(T, j2) /\ IsTypeName(T[j2].c)) THEN Fail @@ [kind |-> ""]
         ELSE LET j3 == SkipC(T, j2 + 1)
                  head == CommentToks(T, i, j) \o <<W(kw), W(T[j2].s)>>
                  gp0 == j2 > j + 1 \/ j3 > j2 + 1
                  go0 == NotOwn(T, i, j)
                  a == PParen(T, j3, 0, IF kw = "type" THEN "any" ELSE "struct") IN
              IF ~a.ok THEN Fail @@ [kind |-> ""]
              ELSE IF kw # "method"
              THEN Res(a.i, head \o a.out, gp0 \/ a.gpos, go0 \/ a.gown) @@ [kind |-> kw]
              ELSE LET j4 == SkipC(T, a.i) IN
                   IF ~IsP(T, j4, "->") THEN Fail @@ [kind |-> ""]
                   ELSE LET j5 == SkipC(T, j4 + 1)
                            b == PParen(T, j5, 0, "struct") IN
                        IF ~b.ok THEN Fail @@ [kind |-> ""]
                        ELSE Res(b.i, head \o a.out \o <<P("->")>> \o b.out,
                                 gp0 \/ a.gpos \/ b.gpos \/ j4 > a.i \/ j5 > j4 + 1, go0 \/ a.gown \/ b.gown)
                             @@ [kind |-> kw]

\* members until the end of the text; the result collects the three kinds separately
RECURSIVE PMembers(_, _)
PMembers(T, i) ==
    LET j == SkipC(T, i) IN
    IF j > Len(T)
    THEN [ok |-> TRUE, types |-> <<>>, methods |-> <<>>, errors |-> <<>>, gpos |-> j > i, gown |-> FALSE, n |-> 0]
    ELSE LET m == PMember(T, i) IN
         IF ~m.ok THEN [ok |-> FALSE, types |-> <<>>, methods |-> <<>>, errors |-> <<>>, gpos |-> FALSE, gown |-> FALSE, n |-> 0]
         ELSE LET r == PMembers(T, m.i) IN
              IF ~r.ok THEN r
              ELSE [ok |-> TRUE,
                    types |-> (IF m.kind = "type" THEN m.out ELSE <<>>) \o r.types,
                    methods |-> (IF m.kind = "method" THEN m.out ELSE <<>>) \o r.methods,
                    errors |-> (IF m.kind = "error" THEN m.out ELSE <<>>) \o r.errors,
                    gpos |-> m.gpos \/ r.gpos, gown |-> m.gown \/ r.gown, n |-> r.n + 1]

Reject == [ok |-> FALSE, out |-> <<>>, gpos |-> FALSE, gown |-> FALSE, members |-> 0]

\* interface = comments "interface" interface_name member*
Parse(T) ==
    LET j == SkipC(T, 1) IN
    IF ~IsKw(T, j, "interface") THEN Reject
    ELSE LET j2 == SkipC(T, j + 1) IN
         IF ~(IsW(T, j2) /\ IsIfaceName(T[j2].c)) THEN Reject
         ELSE LET r == PMembers(T, j2 + 1) IN
              IF ~r.ok THEN Reject
              ELSE [ok |-> TRUE,
                    out |-> CommentToks(T, 1, j) \o <<W("interface"), W(T[j2].s)>> \o r.types \o r.methods \o r.errors,
                    gpos |-> j2 > j + 1 \/ r.gpos, gown |-> NotOwn(T, 1, j) \/ r.gown, members |-> r.n]

NoComments(ts) == SelectSeq(ts, LAMBDA t : t.k # "C")

\* ---- descriptions (AST) and their token lists ------------------------------------------------
(* iface   [name, comments, members]
   member  [kind, name, comments, ins, outs, variants, isenum]   (ins = fields of a type / error)
   field   [name, comments, ty]
   variant [name, comments]
   ty      [t, name, inner, fields, variants]   t in prim custom opt arr map struct enum;
           inner = <<ty>> for opt/arr/map, else <<>>                                           *)
RECURSIVE TyToks(_), FieldsToks(_, _), VariantsToks(_, _), ConcatAll(_)
ConcatAll(ss) == IF ss = <<>> THEN <<>> ELSE Head(ss) \o ConcatAll(Tail(ss))
Cs(comments, keep) == IF keep THEN [x \in 1..Len(comments) |-> C(comments[x])] ELSE <<>>
TyToks(ty) ==
    CASE ty.t \in {"prim", "custom"} -> <<W(ty.name)>>
      [] ty.t = "opt" -> <<P("?")>> \o TyToks(ty.inner[1])
      [] ty.t = "arr" -> <<P("[]")>> \o TyToks(ty.inner[1])
      [] ty.t = "map" -> <<P("[string]")>> \o TyToks(ty.inner[1])
      [] ty.t = "struct" -> <<P("(")>> \o FieldsToks(ty.fields, FALSE) \o <<P(")")>>
      [] ty.t = "enum" -> <<P("(")>> \o VariantsToks(ty.variants, FALSE) \o <<P(")")>>
FieldsToks(fs, keep) ==
    ConcatAll([x \in 1..Len(fs) |-> (IF x = 1 THEN <<>> ELSE <<P(",")>>) \o Cs(fs[x].comments, keep)
                                      \o <<W(fs[x].name), P(":")>> \o TyToks(fs[x].ty)])
VariantsToks(vs, keep) ==
    ConcatAll([x \in 1..Len(vs) |-> (IF x = 1 THEN <<>> ELSE <<P(",")>>) \o Cs(vs[x].comments, keep) \o <<W(vs[x].name)>>])
Paren(fs) == <<P("(")>> \o FieldsToks(fs, TRUE) \o <<P(")")>>
MemberToks(m) ==
    Cs(m.comments, TRUE) \o <<W(m.kind), W(m.name)>> \o
    (IF m.kind = "method" THEN Paren(m.ins) \o <<P("->")>> \o Paren(m.outs)
     ELSE IF m.kind = "type" /\ m.isenum THEN <<P("(")>> \o VariantsToks(m.variants, TRUE) \o <<P(")")>>
     ELSE Paren(m.ins))
OfKind(ms, kd) == SelectSeq(ms, LAMBDA m : m.kind = kd)
Header(a) == Cs(a.comments, TRUE) \o <<W("interface"), W(a.name)>>
\* source order / the order zlink's Interface exposes
Canon(a) == Header(a) \o ConcatAll([x \in 1..Len(a.members) |-> MemberToks(a.members[x])])
Norm(a) == Header(a)
           \o ConcatAll([x \in 1..Len(OfKind(a.members, "type")) |-> MemberToks(OfKind(a.members, "type")[x])])
           \o ConcatAll([x \in 1..Len(OfKind(a.members, "method")) |-> MemberToks(OfKind(a.members, "method")[x])])
           \o ConcatAll([x \in 1..Len(OfKind(a.members, "error")) |-> MemberToks(OfKind(a.members, "error")[x])])
=============================================================================
