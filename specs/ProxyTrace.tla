----------------------------- MODULE ProxyTrace -----------------------------
(* C12 trace validation.  The corpus driver (corpus/proxy) invokes every form of every generated
   method and records: the projection of the frame each form wrote (`call'), what a plain method
   returned for a scripted reply next to what the low-level receive makes of the same frame
   (`reply'), and the items of a streaming method next to the low-level view of the same frames
   (`stream').  ProxyGen.tla says what each must be. *)
EXTENDS ProxyGen, Json, IOUtils
Rec == ndJsonDeserialize(IOEnv.TRACE)
VARIABLE l
IsEv(e) == l <= Len(Rec) /\ Rec[l].ev = e /\ l' = l + 1
TInit == l = 1
TCall == IsEv("call") /\ CallOk(Rec[l].decl, Rec[l].form, Rec[l])
TReply == IsEv("reply") /\ ReplyOk(Rec[l].low, Rec[l].proxy)
TStream == IsEv("stream") /\ StreamOk(Rec[l].low, Rec[l].items, Rec[l].ended, Rec[l].next)
TOther == IsEv("reset") \/ IsEv("end")
TNext == TCall \/ TReply \/ TStream \/ TOther
TSpec == TInit /\ [][TNext]_l
Accepted ==
    LET d == TLCGet("stats").diameter IN
    IF d - 1 = Len(Rec) THEN TRUE
    ELSE /\ PrintT(<<"REJECT", d, ToJson([ev |-> Rec[d].ev, id |-> Rec[d].id])>>)
         /\ FALSE
=============================================================================
