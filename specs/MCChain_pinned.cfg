CONSTANTS MaxCalls = 2  MaxCont = 1  MaxTrail = 1  WithGenErr = TRUE  DoneInit = "false"  HoldItems = FALSE
SPECIFICATION Spec
INVARIANT ChainInv
CHECK_DEADLOCK FALSE
