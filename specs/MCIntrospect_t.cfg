CONSTANTS NGroups = 1200 N1 = 120 N2 = 80
SPECIFICATION Spec
INVARIANTS OrderKept Export
CHECK_DEADLOCK FALSE
