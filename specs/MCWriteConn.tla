----------------------------- MODULE MCWriteConn -----------------------------
(* Exhaustive small-scope configuration of WriteConn and its refinement of Outbound. *)
EXTENDS WriteConn
CONSTANT MaxDocs
Bound == nid <= MaxDocs + 1 /\ Len(wire) <= MaxDocs + 1

CurIn == op.kind \in {"enqueue", "send"} /\ q # <<>> /\ q[Len(q)] = op.doc
O == INSTANCE Outbound WITH
        \* Outbound appends the current document to `pend' when the operation returns; the code
        \* has it in the buffer from Terminate on.  After the write nothing is pending.
        pend <- (IF pc = "wrote" THEN <<>> ELSE IF CurIn THEN SubSeq(q, 1, Len(q) - 1) ELSE q),
        maxb <- MAXB,
        cur <- op,
        wrote <- wroteNow

Docs == {Doc(i, n) : i \in 1..(MaxDocs + 2), n \in Lens} \cup {NoDoc}
Refines == [][O!ONext(Docs)]_(O!ovars)
Inv == BufferBounded /\ InOrderOnce /\ NoEmptyWrite
=============================================================================
