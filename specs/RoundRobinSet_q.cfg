CONSTANTS N = 4  StartRule = "next"  MaxTr = 2
SPECIFICATION Spec
INVARIANT FairWindow FairBound
CONSTRAINT Bounded
CHECK_DEADLOCK FALSE
