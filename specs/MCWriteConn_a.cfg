CONSTANTS B = 4  MAXB = 12  Lens = {0, 2, 3, 4, 7, 8, 11, 12}  ResetRule = "after"  MaxDocs = 3
SPECIFICATION Spec
INVARIANT Inv
PROPERTY Refines
CONSTRAINT Bound
CHECK_DEADLOCK FALSE
