---------------------------- MODULE ClassifyTrace ----------------------------
(* C04 trace validation: every (frame, expected parameter type, error type, entry point) case
   executed against the real code is one event carrying the five isolated observations and the
   outcome the entry point reported; TLC checks outcome \in Allowed(observations). *)
EXTENDS Naturals, Sequences, Json, IOUtils, TLC
Rec == ndJsonDeserialize(IOEnv.TRACE)
VARIABLE l
R == INSTANCE ReplyClassify WITH PermissiveReply <- FALSE, o <- 0
IsEv(e) == l <= Len(Rec) /\ Rec[l].ev = e /\ l' = l + 1
TInit == l = 1
TCase == /\ IsEv("case")
         /\ LET e == Rec[l]
                ob == [json |-> e.json, hasError |-> e.hasError, std |-> e.std, usr |-> e.usr, rep |-> e.rep]
            IN /\ R!Possible(ob)
               /\ e.outcome \in R!Allowed(ob)
               /\ (e.payload_ok)        \* the payload handed to the caller is the one the frame decodes to
TOther == (IsEv("reset") \/ IsEv("end"))
TNext == TCase \/ TOther
TSpec == TInit /\ [][TNext]_l
Accepted ==
    LET d == TLCGet("stats").diameter IN
    IF d - 1 = Len(Rec) THEN TRUE
    ELSE /\ PrintT(<<"REJECT", d, ToJson(Rec[d])>>)
         /\ FALSE
=============================================================================
