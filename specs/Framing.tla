------------------------------- MODULE Framing -------------------------------
(***************************************************************************)
(* Property-level specification of the receiving side of a zlink           *)
(* connection (C01, C07, inbound half of C17).                             *)
(*                                                                         *)
(* It talks about observable things only: the frames the peer sent, how    *)
(* many bytes the transport has handed to the connection so far, and the   *)
(* results that receive operations returned.  Nothing about cursors or     *)
(* buffers.  ReadConn.tla (implementation-shaped) is checked to refine it, *)
(* and FramingTrace.tla validates executions of the real code against it.  *)
(***************************************************************************)
EXTENDS Naturals, Sequences

VARIABLES
    fr,       \* frames sent by the peer: Seq([cls, canon, end]); `end' = offset just after the NUL
    total,    \* length of the peer's byte stream (>= fr[Len(fr)].end; larger iff unterminated tail)
    maxb,     \* the size limit of the receive buffer
    got,      \* bytes handed to the connection by transport reads so far
    k,        \* number of frame results returned so far
    closed,   \* the peer closed its end
    eofSeen,  \* a transport read reported end-of-stream
    rdErr,    \* a transport read failed
    dead      \* a receive returned a fatal error (overflow / io error): nothing is promised afterwards

fvars == <<fr, total, maxb, got, k, closed, eofSeen, rdErr, dead>>

EndOf(i) == IF i = 0 THEN 0 ELSE fr[i].end

\* The transport hands n more bytes over (a read returned n).
Hand(n) == /\ n > 0 /\ got + n <= total
           /\ got' = got + n
           /\ UNCHANGED <<fr, total, maxb, k, closed, eofSeen, rdErr, dead>>

Close == /\ closed' = TRUE
         /\ UNCHANGED <<fr, total, maxb, got, k, eofSeen, rdErr, dead>>

\* A transport read reported end-of-stream: only after the peer closed and everything was read.
ReadEof == /\ closed
           /\ eofSeen' = TRUE
           /\ UNCHANGED <<fr, total, maxb, got, k, closed, rdErr, dead>>

ReadErr == /\ rdErr' = TRUE
           /\ UNCHANGED <<fr, total, maxb, got, k, closed, eofSeen, dead>>

\* The result a frame must produce is what decoding that frame alone gives (cls, canon).  A frame
\* that is not valid UTF-8 is not a JSON document and must give a decoding error; because the JSON
\* decoder zlink uses does not inspect content that the requested shape ignores, what that decoder
\* makes of the frame alone is tolerated too (acls, acanon; identical for every valid UTF-8 frame).
Matches(f, cls, canon) == \/ (cls = f.cls /\ canon = f.canon)
                          \/ (cls = f.acls /\ canon = f.acanon)

\* A receive returned the result of a frame: it must be the next frame, fully handed over,
\* with exactly the result that decoding that frame alone gives.
Deliver(cls, canon) ==
    /\ ~dead
    /\ k < Len(fr)
    /\ fr[k + 1].end <= got                    \* nothing is fabricated from bytes not yet received
    /\ fr[k + 1].end - EndOf(k) <= maxb        \* an oversized frame is never accepted (C17)
    /\ Matches(fr[k + 1], cls, canon)
    /\ k' = k + 1
    /\ UNCHANGED <<fr, total, maxb, got, closed, eofSeen, rdErr, dead>>

\* End-of-stream is reported only when the transport said so and every frame was consumed.
DeliverEof == /\ ~dead /\ eofSeen /\ k = Len(fr)
              /\ UNCHANGED fvars

\* Overflow is legitimate exactly when the bytes received and not yet consumed reach the limit.
DeliverOverflow == /\ ~dead /\ got - EndOf(k) >= maxb
                   /\ dead' = TRUE
                   /\ UNCHANGED <<fr, total, maxb, got, k, closed, eofSeen, rdErr>>

DeliverIoErr == /\ ~dead /\ rdErr
                /\ dead' = TRUE
                /\ UNCHANGED <<fr, total, maxb, got, k, closed, eofSeen, rdErr>>

\* After a fatal error nothing is promised.
DeliverDead == dead /\ UNCHANGED fvars

\* A suspended or abandoned receive changes nothing observable (C07).
Idle == UNCHANGED fvars

\* At the end of a drained run (everything fed, peer closed, received until end-of-stream)
\* no frame may be missing.
Complete == dead \/ (k = Len(fr) /\ eofSeen)

FNext == \/ \E n \in 1..(total - got) : Hand(n)
         \/ Close \/ ReadEof \/ ReadErr
         \/ \E i \in 1..Len(fr) : Deliver(fr[i].cls, fr[i].canon)
         \/ DeliverEof \/ DeliverOverflow \/ DeliverIoErr \/ DeliverDead

\* (Init is supplied by the instantiating module: frames come from the model or from the log.)
FSpecFrom(init) == init /\ [][FNext]_fvars

\* Sanity of the state itself.
FTypeOK == /\ k <= Len(fr) /\ got <= total
           /\ \A i \in 1..Len(fr) : fr[i].end <= total
=============================================================================
