------------------------------ MODULE ReadConn ------------------------------
(***************************************************************************)
(* Implementation-shaped model of zlink's ReadConnection                   *)
(* (zlink-core/src/connection/read_connection.rs): the growable receive    *)
(* buffer, the read cursor `read_pos' (rp), the message cursor `msg_pos'   *)
(* (mp), the read loop with its sentinel NUL, growth by one step when the  *)
(* buffer is exactly full, the size limit, and the frame extraction.       *)
(* One action per await point / synchronous section:                      *)
(*   Start   a receive operation begins (future created and first polled)  *)
(*   Read(n) one transport read returned n bytes                           *)
(*   Eof     one transport read returned 0                                 *)
(*   Parse   the frame at mp is cut out and decoded, cursors advance       *)
(*   Fail    a failed read loop reports its error                           *)
(*   Cancel  the pending receive future is dropped at its only await       *)
(*                                                                         *)
(* CursorRule selects how the end of a frame is found:                     *)
(*   "terminator"  - scan for the NUL (the repaired code)                  *)
(*   "byte_offset" - trust the streaming JSON decoder's offset (the code   *)
(*                   as pinned, kept as a documented deviation: TLC finds  *)
(*                   the C01 counterexample with it)                       *)
(***************************************************************************)
EXTENDS Naturals, Sequences, FiniteSets, TLC

CONSTANTS B,          \* growth step (256 in production)
          MAXB,       \* size limit (100 MiB in production); a multiple of B
          CursorRule

VARIABLES frames,   \* Seq([lead, body, trail, ok]) sent by the peer
          stream,   \* the peer's bytes
          off,      \* bytes of `stream' consumed by transport reads
          buf, rp, mp,
          pc,       \* "idle" | "read" | "parse" | "ovf" | "eofd"
          results,  \* results returned by receive operations so far
          closed    \* the peer has closed (enables Eof once everything is read)
vars == <<frames, stream, off, buf, rp, mp, pc, results, closed>>

\* ---- the abstract byte alphabet -------------------------------------------------
\* <<"w", i>> JSON whitespace of frame i, <<"j", i, k>> k-th byte of the document of frame i,
\* <<"N">> NUL, <<"z">> zero fill of the buffer (also a NUL for the code!)
\* A frame with body = 0 holds nothing but whitespace (lead + trail >= 1): no document, it owes one
\* error result of its own ("blank"; the code reports it with its end-of-stream variant).
W(i) == <<"w", i, 0>>
N == <<"N", 0, 0>>
Z == <<"z", 0, 0>>
J(i, k) == <<"j", i, k>>
IsNul(b) == b[1] = "N" \/ b[1] = "z"

FrameBytes(i, f) == [x \in 1..f.lead |-> W(i)] \o [x \in 1..f.body |-> J(i, x)]
                    \o [x \in 1..f.trail |-> W(i)] \o <<N>>
RECURSIVE StreamOf(_, _)
StreamOf(fs, i) == IF i > Len(fs) THEN <<>> ELSE FrameBytes(i, fs[i]) \o StreamOf(fs, i + 1)
FrameLen(f) == f.lead + f.body + f.trail + 1
RECURSIVE EndOfFrame(_, _)
EndOfFrame(fs, i) == IF i = 0 THEN 0 ELSE EndOfFrame(fs, i - 1) + FrameLen(fs[i])

Zero(n) == [x \in 1..n |-> Z]

InitWith(fs) == /\ frames = fs
                /\ stream = StreamOf(fs, 1)
                /\ off = 0 /\ buf = Zero(B) /\ rp = 0 /\ mp = 0 /\ pc = "idle"
                /\ results = <<>> /\ closed = FALSE

\* 0-based positions as in the code; buf is 1-based.
At(p) == buf[p + 1]
RECURSIVE SkipWs(_)
SkipWs(p) == IF p < Len(buf) /\ At(p)[1] = "w" THEN SkipWs(p + 1) ELSE p
RECURSIVE NextNul(_)
NextNul(p) == IF p >= Len(buf) - 1 \/ IsNul(At(p)) THEN p ELSE NextNul(p + 1)

\* ---- decoding --------------------------------------------------------------------
\* Decoding exactly the slice [from, nul): a whole frame decodes to its own result,
\* nothing at all is reported as end-of-stream by the code, only whitespace is the error result
\* of the blank frame it starts with (the code uses its end-of-stream variant for it),
\* anything else is garbage (a decode error that no frame owns).
DecodeSlice(from, nul) ==
    LET p == SkipWs(from) IN
    IF p >= nul THEN (IF from < nul /\ from < Len(buf) /\ At(from)[1] = "w" THEN <<"blank", At(from)[2]>> ELSE <<"eof", 0>>)
    ELSE IF At(p)[1] = "j" /\ At(p)[3] = 1
            /\ p + frames[At(p)[2]].body + frames[At(p)[2]].trail = nul
            /\ \A q \in p..(nul - 1) :
                  IF q < p + frames[At(p)[2]].body
                  THEN At(q) = J(At(p)[2], q - p + 1) ELSE At(q)[1] = "w"
         THEN IF frames[At(p)[2]].ok THEN <<"ok", At(p)[2]>> ELSE <<"bad", At(p)[2]>>
         ELSE <<"garbage", 0>>

\* The streaming decoder started at mp (pinned code): <<result, byte_offset>>.
\* It skips whitespace, stops right after a document that decodes, and reports a failing
\* document without moving.
StreamDecode ==
    LET p == SkipWs(mp) IN
    IF At(p)[1] = "j" THEN
       LET i == At(p)[2] x == At(p)[3] IN
       IF x = 1 THEN IF frames[i].ok THEN << <<"ok", i>>, p + frames[i].body >>
                     ELSE << <<"bad", i>>, p >>
       ELSE << <<"garbage", 0>>, p >>
    ELSE IF IsNul(At(p)) THEN << <<"eof", 0>>, p >> ELSE << <<"garbage", 0>>, p >>

\* ---- actions ----------------------------------------------------------------------
Start == /\ pc = "idle"
         /\ pc' = IF mp > 0 THEN "parse" ELSE "read"   \* read_from_socket returns at once if mp > 0
         /\ UNCHANGED <<frames, stream, off, buf, rp, mp, results, closed>>

Read(n) ==
    /\ pc = "read" /\ n >= 1 /\ n <= Len(buf) - rp /\ off + n <= Len(stream)
    /\ LET rp1 == rp + n
           b1 == [x \in 1..Len(buf) |-> IF x > rp /\ x <= rp1 THEN stream[off + (x - rp)] ELSE buf[x]]
       IN IF rp1 = Len(buf) /\ rp1 >= MAXB
          THEN /\ pc' = "ovf" /\ buf' = b1 /\ rp' = rp1
          ELSE LET b2 == IF rp1 = Len(buf) THEN b1 \o Zero(B) ELSE b1     \* grow one step
                   b3 == [b2 EXCEPT ![rp1 + 1] = N]                        \* sentinel
               IN /\ buf' = b3 /\ rp' = rp1
                  /\ pc' = IF IsNul(b3[rp1]) THEN "parse" ELSE "read"
    /\ off' = off + n
    /\ UNCHANGED <<frames, stream, mp, results, closed>>

PeerClose == /\ ~closed /\ off = Len(stream) /\ closed' = TRUE
             /\ UNCHANGED <<frames, stream, off, buf, rp, mp, pc, results>>

Eof == /\ pc = "read" /\ closed /\ off = Len(stream)
       /\ pc' = "eofd"
       /\ UNCHANGED <<frames, stream, off, buf, rp, mp, results, closed>>

Fail == /\ pc \in {"ovf", "eofd"}
        /\ results' = Append(results, IF pc = "ovf" THEN <<"overflow", 0>> ELSE <<"eof", 0>>)
        /\ pc' = "idle"
        /\ UNCHANGED <<frames, stream, off, buf, rp, mp, closed>>

Parse ==
    /\ pc = "parse"
    /\ LET nul == IF CursorRule = "terminator" THEN NextNul(mp) ELSE StreamDecode[2]
           r   == IF CursorRule = "terminator" THEN DecodeSlice(mp, nul) ELSE StreamDecode[1]
           last == IF CursorRule = "terminator" THEN nul + 1 >= rp
                   ELSE nul + 1 < Len(buf) /\ IsNul(At(nul + 1))
       IN /\ results' = Append(results, r)
          /\ IF last THEN rp' = 0 /\ mp' = 0 ELSE mp' = nul + 1 /\ rp' = rp
    /\ pc' = "idle"
    /\ UNCHANGED <<frames, stream, off, buf, closed>>

\* Dropping the receive future: its only await is the transport read.
Cancel == /\ pc = "read" /\ pc' = "idle"
          /\ UNCHANGED <<frames, stream, off, buf, rp, mp, results, closed>>

Next == Start \/ (\E n \in 1..B + Len(buf) : Read(n)) \/ PeerClose \/ Eof \/ Fail \/ Parse \/ Cancel

\* ---- properties (C01, C07, C17 inbound) ------------------------------------------
Expected(i) == IF frames[i].body = 0 THEN <<"blank", i>> ELSE IF frames[i].ok THEN <<"ok", i>> ELSE <<"bad", i>>

\* One result per frame, in order; nothing fabricated, dropped or duplicated; end-of-stream
\* only after the peer closed and every frame was delivered; overflow only at the limit.
NumFrameResults == Cardinality({x \in 1..Len(results) : results[x][1] \in {"ok", "bad", "garbage", "blank"}})
FramingInv ==
    \A x \in 1..Len(results) :
        \/ (x <= Len(frames) /\ results[x] = Expected(x))
        \/ (results[x][1] = "eof" /\ closed /\ x > Len(frames))
        \/ (results[x][1] = "overflow")
        \/ (\E y \in 1..(x - 1) : results[y][1] = "overflow")     \* nothing is promised after a fatal error
OverflowOnlyAtLimit ==
    pc = "ovf" => off - EndOfFrame(frames, NumFrameResults) >= MAXB
BufferBounded == Len(buf) <= MAXB /\ rp <= Len(buf) /\ mp <= rp
\* every frame shorter than the limit is accepted: an overflow needs MAXB unconsumed bytes
SmallFramesAccepted ==
    \A x \in 1..Len(results) : results[x][1] = "overflow" =>
        \E y \in 1..Len(frames) : EndOfFrame(frames, y) - EndOfFrame(frames, NumFrameResults) >= MAXB
\* a result is never produced from bytes that were not received yet
NothingFromTheFuture ==
    \A x \in 1..Len(results) : results[x][1] \in {"ok", "bad", "blank"} => EndOfFrame(frames, x) <= off
=============================================================================
