CONSTANTS N = 3  Script <- S_c18  Faulty = {}  ReplyToOneway = FALSE  AllowPartial = FALSE  StartRule = "same"
SPECIFICATION Spec
INVARIANT FairWindow
CHECK_DEADLOCK FALSE
