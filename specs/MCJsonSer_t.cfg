CONSTANT PoolSize = 9
SPECIFICATION Spec
INVARIANTS WellFormed Export
CHECK_DEADLOCK FALSE
