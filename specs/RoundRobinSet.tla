--------------------------- MODULE RoundRobinSet ---------------------------
(***************************************************************************)
(* The call-side round robin of Server::run with the environment abstracted *)
(* to its essence: ANY readiness pattern and ANY sequence of changes of the  *)
(* connection vector (accept / stream end = push; closure / parking with a   *)
(* stream = swap_remove of the winner), for up to N connections.             *)
(*                                                                           *)
(* Server.tla checks C18 in the composed model where readiness comes from    *)
(* client scripts (N = 3); proofs/RoundRobin.tla proves the first sentence    *)
(* of C18 for any N while the vector is unchanged.  This module closes the   *)
(* gap between the two for the second sentence (transitions): same counters  *)
(* as Server.tla (wait, wtot, wtr), readiness and transitions unconstrained. *)
(*                                                                           *)
(* server/mod.rs: the winner's index is stored *before* a swap_remove, the   *)
(* next scan starts at (last + 1) % len of the vector as it is then.          *)
(***************************************************************************)
EXTENDS Naturals, Integers, Sequences, FiniteSets, TLC

CONSTANTS N,          \* connection identities 0..N-1
          StartRule,  \* "next" (code) | "same" (mutant: the scan starts at the last winner)
          MaxTr       \* state constraint: transitions counted per wait
Id == 0..(N - 1)
NONE == -1
VARIABLES conns, last, ready, wait, wtot, wtr
vars == <<conns, last, ready, wait, wtot, wtr>>

ConnSet(v) == {v[i] : i \in 1..Len(v)}
Zeros == [e \in Id |-> 0]
Init == /\ conns = <<>> /\ last = NONE /\ ready = {}
        /\ wait = [y \in Id |-> Zeros] /\ wtot = [y \in Id |-> 0] /\ wtr = [y \in Id |-> 0]

SwapRemove(s, i) == IF i = Len(s) THEN SubSeq(s, 1, Len(s) - 1)
                    ELSE [k \in 1..(Len(s) - 1) |-> IF k = i THEN s[Len(s)] ELSE s[k]]
Order(n, start) == [k \in 1..n |-> ((start + k - 1) % n) + 1]
StartOf(l, n) == IF l = NONE THEN 0 ELSE IF StartRule = "next" THEN (l + 1) % n ELSE l % n

\* history counters, as in Server.tla!FairUpdate
Upd(servedNow, c0, conns1) ==
  LET setChanged == ConnSet(conns1) # ConnSet(conns)
      readyPre(y) == y \in ConnSet(conns) /\ y \in ready
  IN /\ wait' = [y \in Id |-> IF ~readyPre(y) \/ (servedNow /\ y = c0) THEN Zeros
                              ELSE IF setChanged THEN Zeros
                              ELSE IF servedNow THEN [wait[y] EXCEPT ![c0] = @ + 1] ELSE wait[y]]
     /\ wtot' = [y \in Id |-> IF ~readyPre(y) \/ (servedNow /\ y = c0) THEN 0
                              ELSE IF servedNow THEN wtot[y] + 1 ELSE wtot[y]]
     /\ wtr' = [y \in Id |-> IF ~readyPre(y) \/ (servedNow /\ y = c0) THEN 0
                             ELSE IF setChanged THEN wtr[y] + 1 ELSE wtr[y]]

\* accept, or a stream that ended hands its connection back
Push(c) == /\ c \notin ConnSet(conns)
           /\ conns' = Append(conns, c) /\ UNCHANGED <<last, ready>>
           /\ Upd(FALSE, 0, Append(conns, c))
\* a complete call becomes available on a listed connection
Arrive(c) == /\ c \in ConnSet(conns) /\ c \notin ready
             /\ ready' = ready \cup {c} /\ UNCHANGED <<conns, last>>
             /\ Upd(FALSE, 0, conns)
\* one iteration that serves a call.  more: the winner has a further complete call buffered;
\* fate: "keep" | "remove" (closed, failed write, or parked with a reply stream)
Serve(more, fate) ==
  /\ conns # <<>>
  /\ LET n == Len(conns)
         ord == Order(n, StartOf(last, n))
         winners == {k \in 1..n : conns[ord[k]] \in ready}
     IN /\ winners # {}
        /\ LET w == CHOOSE k \in winners : \A j \in winners : k <= j
               idx == ord[w]
               c == conns[idx]
               conns1 == IF fate = "remove" THEN SwapRemove(conns, idx) ELSE conns
           IN /\ last' = idx - 1
              /\ conns' = conns1
              /\ ready' = IF more /\ fate = "keep" THEN ready ELSE ready \ {c}
              /\ Upd(TRUE, c, conns1)
Next == \/ \E c \in Id : Push(c) \/ Arrive(c)
        \/ \E more \in BOOLEAN, fate \in {"keep", "remove"} : Serve(more, fate)
Spec == Init /\ [][Next]_vars

FairWindow == \A y \in Id : \A e \in Id : wait[y][e] <= 1
FairBound == \A y \in Id : wtot[y] <= N * (wtr[y] + 1)
Bounded == \A y \in Id : wtr[y] <= MaxTr
\* vacuity probes (expected to be violated)
NobodyWaitsAcrossATransition == \A y \in Id : ~(wtr[y] >= 2 /\ wtot[y] >= N + 1)
=============================================================================
