CONSTANTS MsgLens <- L1  K = 2  AllowCancel = TRUE
SPECIFICATION Spec
INVARIANT Intact
CHECK_DEADLOCK FALSE
