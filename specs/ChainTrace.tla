------------------------------ MODULE ChainTrace ------------------------------
(* Property-level specification of call chains and their reply streams (C06, C11) in the form of
   a trace specification: it extends Framing (which frames may be delivered when) with what a
   chain's stream owes.  Validates executions of Connection::chain_call / Chain::append /
   Chain::send and of the stream they return, recorded by the harness.

   Events: reset{calls, docs, frames[{cls,canon,end,cont}], hold}, send, write{docs,tail}, sent,
   chunk{n}, pending, item{k,cls,canon,cont}, check{k,same}, stream_end, stuck, close, read_eof,
   recv{cls,canon} (receives after the stream), stream_drop, end.

   AllowHeldClobber is the documented deviation of the pinned code for C11 (known finding): the
   content of an item that the consumer still holds may change once a later transport read has
   been issued through the same stream.  With the deviation off every change is rejected; with it
   on a change that no later read explains is still rejected, and an explained one is reported
   with a KNOWN line.  The finding is about an item k whose successor arrives in a later read: an item
   that was yielded while the beginning of a further frame was already in the buffer (`early') is not
   covered by it - zlink only yields items once the bytes read end with a terminator - so a change of
   such an item is rejected as well.  What the deviation does to a held item is pinned down too: the
   pinned code gives every transport read the buffer from its fill position on and puts one end marker
   behind what the read delivered, and it frees the buffer when it has to grow.  A changed byte of a held
   item is therefore explained only if the block it lies in was freed since (`freed') or if it lies in
   the part of a later read's window that was filled, end marker included (`windows', measured by the
   scripted transport; `changed' = the runs of changed bytes; all relative to the item's first byte).
   Any other change - a byte behind the end marker, a part of the buffer no read touched - is rejected. *)
EXTENDS Framing, Json, IOUtils, TLC, FiniteSets

CONSTANT AllowHeldClobber

Rec == ndJsonDeserialize(IOEnv.TRACE)

VARIABLES l,
          cs,        \* call kinds of the chain
          docs,      \* reference encodings of the calls, in chain order
          st,        \* "build" | "sending" | "sent" | "ended"
          cur,       \* index of the call whose replies are being yielded (0 before the first)
          open,      \* cur is a `more' call whose final reply has not been yielded yet
          nw,        \* transport writes seen
          items,     \* number of items yielded
          stale,     \* items yielded before the latest transport read (their bytes may have been overwritten)
          early,     \* items yielded while part of a further frame had already been handed over
          kf,        \* the known C11 deviation was witnessed in this scenario
          gerr,      \* the item yielded last was reported as a general error (the stream may stop there)
          sid
tvars == <<fr, total, maxb, got, k, closed, eofSeen, rdErr, dead, l, cs, docs, st, cur, open, nw, items, stale, early, kf, gerr, sid>>
cvars == <<cs, docs, st, cur, open, nw, items, stale, early, kf, gerr, sid>>

IsEv(e) == l <= Len(Rec) /\ Rec[l].ev = e /\ l' = l + 1

\* the next call after `i' that expects replies (Len(cs) + 1 if none)
RECURSIVE NextExpecting(_)
NextExpecting(i) == IF i + 1 > Len(cs) THEN Len(cs) + 1
                    ELSE IF cs[i + 1] \notin {"oneway", "om"} THEN i + 1 ELSE NextExpecting(i + 1)   \* "om": oneway and more
NothingOwed == ~open /\ NextExpecting(cur) > Len(cs)

TInit == /\ l = 1 /\ fr = <<>> /\ total = 0 /\ maxb = 0 /\ got = 0 /\ k = 0
         /\ closed = FALSE /\ eofSeen = FALSE /\ rdErr = FALSE /\ dead = FALSE
         /\ cs = <<>> /\ docs = <<>> /\ st = "build" /\ cur = 0 /\ open = FALSE /\ nw = 0
         /\ items = 0 /\ stale = {} /\ early = {} /\ kf = FALSE /\ gerr = FALSE /\ sid = ""

TReset == /\ IsEv("reset")
          /\ fr' = Rec[l].frames /\ total' = Rec[l].total /\ maxb' = Rec[l].MAXB
          /\ got' = 0 /\ k' = 0 /\ closed' = FALSE /\ eofSeen' = FALSE /\ rdErr' = FALSE /\ dead' = FALSE
          /\ cs' = Rec[l].calls /\ docs' = Rec[l].docs /\ st' = "build" /\ cur' = 0 /\ open' = FALSE /\ nw' = 0
          /\ items' = 0 /\ stale' = {} /\ early' = {} /\ kf' = FALSE /\ gerr' = FALSE /\ sid' = Rec[l].sid

TSend == IsEv("send") /\ st = "build" /\ st' = "sending" /\ UNCHANGED <<fvars, cs, docs, cur, open, nw, items, stale, early, kf, gerr, sid>>
\* all calls reach the transport in one write, in chain order, each followed by one NUL
TWrite == /\ IsEv("write") /\ st = "sending" /\ nw = 0
          /\ Rec[l].docs = docs /\ Rec[l].tail = 0
          /\ nw' = 1 /\ UNCHANGED <<fvars, cs, docs, st, cur, open, items, stale, early, kf, gerr, sid>>
TSent == IsEv("sent") /\ st = "sending" /\ nw = 1 /\ st' = "sent"
         /\ UNCHANGED <<fvars, cs, docs, cur, open, nw, items, stale, early, kf, gerr, sid>>

\* a transport read: legitimate only while something is owed (or after the stream, for later exchanges)
TChunk == /\ IsEv("chunk") /\ Hand(Rec[l].n)
          /\ (st = "sent" => ~NothingOwed)
          /\ stale' = 1..items
          /\ UNCHANGED <<cs, docs, st, cur, open, nw, items, early, kf, gerr, sid>>
TPending == IsEv("pending") /\ st = "sent" /\ ~NothingOwed /\ UNCHANGED <<fvars, cvars>>

\* the stream yields an item: the next frame, answering the next call that expects a reply
TItem == /\ IsEv("item") /\ st = "sent" /\ ~NothingOwed
         /\ LET e == Rec[l]
                c == IF open THEN cur ELSE NextExpecting(cur)
            IN /\ e.k = items + 1
               /\ Deliver(e.cls, e.canon)
               /\ e.cont = fr[k + 1].cont
               \* a reply that is reported as a general error (a standard service error, an error nobody
               \* declared, parameters of the wrong type) still is the reply owed to that call: it ends it
               /\ e.cls \in {"success", "method_err", "service_err", "decode_err", "eof"}   \* ("eof": a blank frame, see Framing)
               /\ cur' = c
               /\ open' = (e.cls = "success" /\ e.cont)
               /\ gerr' = (e.cls \in {"service_err", "decode_err", "eof"})
         /\ items' = items + 1
         /\ early' = IF \E j \in 0..Len(fr) : got = EndOf(j) THEN early ELSE early \cup {items + 1}
         /\ UNCHANGED <<cs, docs, st, nw, stale, kf, sid>>

\* what safe code sees in an item it still holds
TCheck == /\ IsEv("check")
          /\ LET e == Rec[l] IN
             \/ e.same /\ kf' = kf
             \/ /\ ~e.same /\ AllowHeldClobber /\ e.k \in stale /\ e.k \notin early
                /\ \/ e.freed
                   \/ \A i \in 1..Len(e.changed) : \E j \in 1..Len(e.windows) :
                          e.windows[j][1] <= e.changed[i][1] /\ e.changed[i][2] <= e.windows[j][2]
                /\ kf' = TRUE
          /\ UNCHANGED <<fvars, cs, docs, st, cur, open, nw, items, stale, early, gerr, sid>>

\* the stream ends exactly when nothing more is owed - or right after an item that was reported as a
\* general error (reply_stream.rs gives up there; the replies it did not take stay with the connection
\* and are received below).  If it carries on instead, TItem judges what it yields as usual.
TStreamEnd == /\ IsEv("stream_end") /\ st = "sent" /\ (NothingOwed \/ gerr)
              /\ st' = "ended" /\ UNCHANGED <<fvars, cs, docs, cur, open, nw, items, stale, early, kf, gerr, sid>>

\* the consumer abandons the stream (at any point, also while it is suspended in the middle of a frame):
\* whatever it did not take - frames and the bytes of a partial frame already read - stays with the connection
TStreamDrop == /\ IsEv("stream_drop") /\ st = "sent"
               /\ st' = "ended" /\ UNCHANGED <<fvars, cs, docs, cur, open, nw, items, stale, early, kf, gerr, sid>>

\* later exchanges on the same connection find their frames untouched
TClose == IsEv("close") /\ Close /\ UNCHANGED cvars
TReadEof == IsEv("read_eof") /\ ReadEof /\ UNCHANGED cvars
TRecv == /\ IsEv("recv") /\ st = "ended"
         /\ Rec[l].blen <= maxb
         /\ LET e == Rec[l] IN
            IF e.cls = "eof" THEN DeliverEof \/ Deliver("eof", e.canon) ELSE Deliver(e.cls, e.canon)
         /\ UNCHANGED cvars
TEnd == /\ IsEv("end") /\ st = "ended" /\ Complete
        /\ (kf => PrintT(<<"KNOWN", sid>>))
        /\ UNCHANGED <<fvars, cvars>>
\* `stuck' (the stream waits although everything was delivered), `panic', `build_err', `send_err'
\* are never explained.

TNext == TReset \/ TSend \/ TWrite \/ TSent \/ TChunk \/ TPending \/ TItem \/ TCheck \/ TStreamEnd \/ TStreamDrop
         \/ TClose \/ TReadEof \/ TRecv \/ TEnd
TSpec == TInit /\ [][TNext]_tvars
Accepted ==
    LET d == TLCGet("stats").diameter IN
    IF d - 1 = Len(Rec) THEN TRUE
    ELSE /\ PrintT(<<"REJECT", d, ToJson(Rec[d])>>)
         /\ FALSE
=============================================================================
