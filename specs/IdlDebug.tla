------------------------------ MODULE IdlDebug ------------------------------
(* Diagnostic aid: prints what the acceptor makes of the first event of a trace. *)
EXTENDS Idl, Json, IOUtils
Rec == ndJsonDeserialize(IOEnv.TRACE)
VARIABLE l
Init == l = 1
Next == l = 1 /\ l' = 2 /\ LET e == Rec[1] p == Parse(e.toks) IN
          /\ PrintT(<<"ok", p.ok, "gpos", p.gpos, "gown", p.gown, "accepted", e.accepted>>)
          /\ PrintT(<<"out", ToJson(p.out)>>)
          /\ PrintT(<<"canon", ToJson(e.canon)>>)
          /\ (e.hasast => PrintT(<<"norm", ToJson(Norm(e.ast))>>))
Spec == Init /\ [][Next]_l
=============================================================================
