\* the size limit within reach (C17 inbound): limit = 2 steps
CONSTANTS B = 4  MAXB = 8  CursorRule = "terminator"  MaxFrames = 2  MaxBody = 9  MaxExtra = 1
SPECIFICATION MCSpec
INVARIANT Inv
PROPERTY RefinesFraming
CONSTRAINT Bound
CHECK_DEADLOCK FALSE
