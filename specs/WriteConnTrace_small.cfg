CONSTANTS B = 16  MAXB = 528
SPECIFICATION TSpec
POSTCONDITION Accepted
CHECK_DEADLOCK FALSE
