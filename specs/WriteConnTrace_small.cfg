CONSTANTS B = 16  MAXB = 512
SPECIFICATION TSpec
POSTCONDITION Accepted
CHECK_DEADLOCK FALSE
