CONSTANT PoolSize = 5
CONSTANT IfacePool = 6
SPECIFICATION Spec
INVARIANTS Inverse Truncation Accounted Export
CHECK_DEADLOCK FALSE
