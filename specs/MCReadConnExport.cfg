CONSTANTS B = 4  MAXB = 12  CursorRule = "terminator"  MaxFrames = 2  MaxBody = 3  MaxExtra = 1
          MaxCancels = 1  MaxHist = 16
SPECIFICATION HSpec
INVARIANT Export
CONSTRAINT HBound
CHECK_DEADLOCK FALSE
