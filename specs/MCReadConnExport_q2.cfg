CONSTANTS B = 4  MAXB = 12  CursorRule = "terminator"  MaxFrames = 2  MaxBody = 2  MaxExtra = 1
          MaxCancels = 0  MaxHist = 14
SPECIFICATION HSpec
INVARIANT Export
CONSTRAINT HBound
CHECK_DEADLOCK FALSE
