--------------------------- MODULE MCServerExport ---------------------------
(* Behaviour export for Server (simulation mode): the environment's actions interleaved with the
   server's loop iterations, one JSON line per behaviour that reached quiescence.  The harness
   replays the environment part against the real Server::run (polling it where the model iterates). *)
EXTENDS MCServer, Json
VARIABLE h
hvars == <<vars, h>>
Ev(a, c, k, cut) == [a |-> a, c |-> c, k |-> k, cut |-> cut]
HInit == Init /\ h = <<>>
HNext == /\ \/ \E c \in Conn : Connect(c) /\ h' = Append(h, Ev("connect", c, 0, FALSE))
            \/ \E c \in Conn : ClientClose(c) /\ h' = Append(h, Ev("close", c, 0, FALSE))
            \/ \E c \in Conn, k \in 1..8, cut \in BOOLEAN : ClientSend(c, k, cut) /\ h' = Append(h, Ev("send", c, k, cut))
            \/ \E i \in 1..Len(streams) : StreamTick(i) /\ h' = Append(h, Ev("tick", streams[i].c, 0, FALSE))
            \/ Iter /\ h' = Append(h, Ev("iter", 0, 0, FALSE))
         /\ FairUpdate
HSpec == HInit /\ [][HNext]_hvars
Export == Quiescent => PrintT(<<"REPLAY", ToJson([scripts |-> [i \in 1..N |-> Script[i - 1]], steps |-> h])>>)
=============================================================================
