---------------------------- MODULE SessionTrace ----------------------------
(* Trace validation of end-to-end sessions (zlink clients <-> zlink Server over in-memory pipes) against
   the composed model of Session.tla, one instance of its client/server bookkeeping per connection:
     send    the next call of the client's script
     handle  the service sees the calls of a connection in order, once, with the flags the client set
     result  the client attributes a reply to the oldest call that still expects one (Session!Read); the
             reply must carry the identity of exactly that call, and for a streaming call the next item
     done    every call got exactly what it was owed
     hangup  a client closed its end (after finishing some exchanges, or after writing the calls of one
             without reading): the other clients are served as if nothing had happened (C09 end to end)
   `stuck' (a client waits for a reply that never comes) and `server_returned' have no disjunct. *)
EXTENDS Naturals, Sequences, FiniteSets, Json, IOUtils, TLC
Rec == ndJsonDeserialize(IOEnv.TRACE)
VARIABLES l, flat, sent, handled, cur, got, fin
vars == <<l, flat, sent, handled, cur, got, fin>>
IsEv(e) == l <= Len(Rec) /\ Rec[l].ev = e /\ l' = l + 1

RECURSIVE Concat(_)
Concat(ss) == IF ss = <<>> THEN <<>> ELSE Head(ss) \o Concat(Tail(ss))
Flatten(script) == Concat([x \in 1..Len(script) |-> script[x].calls])
Expects(c) == c.k # "oneway"
RECURSIVE NextExpecting(_, _, _)
\* among the calls sent so far (the first n of cs), the oldest one after position p that expects a reply
NextExpecting(cs, n, p) == IF p + 1 > n THEN p + 1 ELSE IF Expects(cs[p + 1]) THEN p + 1 ELSE NextExpecting(cs, n, p + 1)
OwedCount(c) == CASE c.k \in {"plain", "error"} -> 1 [] c.k = "oneway" -> 0 [] c.k = "more" -> c.n + 1

TInit == l = 1 /\ flat = <<>> /\ sent = <<>> /\ handled = <<>> /\ cur = <<>> /\ got = <<>> /\ fin = <<>>
TReset == /\ IsEv("reset")
          /\ LET cl == Rec[l].clients IN
             /\ flat' = [c \in 1..Len(cl) |-> Flatten(cl[c])]
             /\ sent' = [c \in 1..Len(cl) |-> 0] /\ handled' = [c \in 1..Len(cl) |-> 0] /\ cur' = [c \in 1..Len(cl) |-> 0]
             /\ got' = [c \in 1..Len(cl) |-> [x \in 1..Len(Flatten(cl[c])) |-> 0]]
             /\ fin' = [c \in 1..Len(cl) |-> FALSE]
TSend == /\ IsEv("send")
         /\ LET e == Rec[l] c == e.c IN
            /\ c \in 1..Len(flat) /\ e.x = sent[c] + 1 /\ e.x <= Len(flat[c])
            /\ flat[c][e.x].k = e.k /\ flat[c][e.x].n = e.n
            /\ sent' = [sent EXCEPT ![c] = e.x]
         /\ UNCHANGED <<flat, handled, cur, got, fin>>
THandle == /\ IsEv("handle")
           /\ LET e == Rec[l] c == e.c IN
              /\ c \in 1..Len(flat) /\ e.x = handled[c] + 1 /\ e.x <= sent[c]          \* in order, once, nothing invented
              /\ e.oneway = (flat[c][e.x].k = "oneway") /\ e.more = (flat[c][e.x].k = "more")
              /\ handled' = [handled EXCEPT ![c] = e.x]
           /\ UNCHANGED <<flat, sent, cur, got, fin>>
TResult == /\ IsEv("result")
           /\ LET e == Rec[l] c == e.c
                  at == NextExpecting(flat[c], sent[c], cur[c])
                  k == flat[c][at] IN
              /\ c \in 1..Len(flat) /\ ~fin[c]
              /\ at <= sent[c] /\ e.x = at                \* attributed to the oldest call that still expects a reply
              /\ at <= handled[c]                          \* which the service has seen
              /\ e.r.c = c /\ e.r.i = at                   \* and the reply is that call's own
              /\ got[c][at] < OwedCount(k)
              /\ CASE k.k = "plain" -> e.r.cls = "success" /\ e.r.item = 0
                   [] k.k = "error" -> e.r.cls = "method_err"
                   [] k.k = "more" -> e.r.cls = "success" /\ e.r.item = got[c][at] + 1
              /\ got' = [got EXCEPT ![c][at] = @ + 1]
              /\ cur' = [cur EXCEPT ![c] = IF got[c][at] + 1 = OwedCount(k) THEN at ELSE @]
           /\ UNCHANGED <<flat, sent, handled, fin>>
\* a client that finishes its script got exactly what every call was owed; one that hangs up early (`gone')
\* got that for every exchange it completed, and nothing for the calls of an exchange it abandoned
TDone == /\ IsEv("done")
         /\ LET e == Rec[l] c == e.c IN
            /\ (~e.gone => sent[c] = Len(flat[c]))
            /\ Len(e.counts) = sent[c]
            /\ \A x \in 1..sent[c] :
                  /\ e.counts[x] = got[c][x]
                  /\ (got[c][x] # OwedCount(flat[c][x]) => e.gone /\ e.abandoned /\ got[c][x] = 0)
            /\ fin' = [fin EXCEPT ![c] = TRUE]
         /\ UNCHANGED <<flat, sent, handled, cur, got>>
\* the client's end is closed: the server may still handle what it had sent; nothing else is affected
THangup == IsEv("hangup") /\ fin[Rec[l].c] /\ UNCHANGED <<flat, sent, handled, cur, got, fin>>
TEnd == IsEv("end") /\ (\A c \in 1..Len(fin) : fin[c]) /\ UNCHANGED <<flat, sent, handled, cur, got, fin>>
TNext == TReset \/ TSend \/ THandle \/ TResult \/ TDone \/ THangup \/ TEnd
TSpec == TInit /\ [][TNext]_vars
Accepted ==
    LET d == TLCGet("stats").diameter IN
    IF d - 1 = Len(Rec) THEN TRUE
    ELSE /\ PrintT(<<"REJECT", d, ToJson(Rec[d])>>)
         /\ FALSE
=============================================================================
