CONSTANTS B = 4  MAXB = 12  CursorRule = "terminator"  MaxFrames = 1  MaxBody = 11  MaxExtra = 1
          MaxCancels = 2  MaxHist = 14
SPECIFICATION HSpec
INVARIANT Export
CONSTRAINT HBound
CHECK_DEADLOCK FALSE
