CONSTANTS NDecl = 1500
SPECIFICATION Spec
INVARIANTS LegalMethodName OmitsOnlyNone FormsAgree Export
CHECK_DEADLOCK FALSE
