CONSTANTS NDecl = 1500 NPair = 200 NLong = 7
SPECIFICATION Spec
INVARIANTS LegalMethodName OmitsOnlyNone FormsAgree Export
CHECK_DEADLOCK FALSE
