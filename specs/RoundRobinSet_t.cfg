CONSTANTS N = 5  StartRule = "next"  MaxTr = 1
SPECIFICATION Spec
INVARIANT FairWindow FairBound
CONSTRAINT Bounded
CHECK_DEADLOCK FALSE
