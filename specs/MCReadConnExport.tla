-------------------------- MODULE MCReadConnExport --------------------------
(* Behaviour export: every complete behaviour of ReadConn in a small scope is printed as one
   JSON line (frame descriptors + the sequence of model actions).  The harness replays each of
   them byte-exactly against the real code built with the same B / MAXB (spec -> implementation
   direction of the conformance check). *)
EXTENDS MCReadConn, Json

VARIABLE hist
hvars == <<vars, hist>>
Rec(a, n) == [a |-> a, n |-> n]
HInit == MCInit /\ hist = <<>>
HNext == \/ (Start /\ hist' = Append(hist, Rec("start", 0)))
         \/ (\E n \in 1..B + Len(buf) : Read(n) /\ hist' = Append(hist, Rec("read", n)))
         \/ (PeerClose /\ hist' = Append(hist, Rec("close", 0)))
         \/ (Eof /\ hist' = Append(hist, Rec("eof", 0)))
         \/ (Fail /\ hist' = Append(hist, Rec("fail", 0)))
         \/ (Parse /\ hist' = Append(hist, Rec("parse", 0)))
         \/ (Cancel /\ hist' = Append(hist, Rec("cancel", 0)))
HSpec == HInit /\ [][HNext]_hvars

NumCancels == Len(SelectSeq(hist, LAMBDA h : h.a = "cancel"))
Done == pc = "idle" /\ Len(results) > 0 /\ results[Len(results)][1] \in {"eof", "overflow"}
CONSTANTS MaxCancels, MaxHist
HBound == /\ NumCancels <= MaxCancels /\ Len(hist) <= MaxHist
          /\ (Len(results) > 1 => results[Len(results) - 1][1] \notin {"eof", "overflow"})
Export == Done => PrintT(<<"REPLAY", ToJson([frames |-> frames, steps |-> hist, results |-> results])>>)
=============================================================================
