---------------------------- MODULE FramingTrace ----------------------------
(* Trace validation of real executions of Connection::receive_* against the property-level
   specification Framing (C01, C07, C17 inbound).  The log (NDJSON, written by the harness at
   the return of every transport read and of every poll of a receive) holds many scenarios,
   each starting with a `reset' event that carries the frames the peer sent together with the
   result of decoding each frame in isolation. *)
EXTENDS Framing, Json, IOUtils, TLC

Rec == ndJsonDeserialize(IOEnv.TRACE)

VARIABLE l
tvars == <<fr, total, maxb, got, k, closed, eofSeen, rdErr, dead, l>>

IsEv(e) == l <= Len(Rec) /\ Rec[l].ev = e /\ l' = l + 1

TInit == /\ l = 1 /\ fr = <<>> /\ total = 0 /\ maxb = 0 /\ got = 0 /\ k = 0
         /\ closed = FALSE /\ eofSeen = FALSE /\ rdErr = FALSE /\ dead = FALSE

TReset == /\ IsEv("reset")
          /\ fr' = Rec[l].frames /\ total' = Rec[l].total /\ maxb' = Rec[l].MAXB
          /\ got' = 0 /\ k' = 0 /\ closed' = FALSE /\ eofSeen' = FALSE /\ rdErr' = FALSE /\ dead' = FALSE

FrameClasses == {"msg", "decode_err", "success", "method_err", "service_err"}

TChunk == IsEv("chunk") /\ Hand(Rec[l].n)
TClose == IsEv("close") /\ Close
TReadEof == IsEv("read_eof") /\ ReadEof
TReadErr == IsEv("read_err") /\ ReadErr
TRecv == /\ IsEv("recv")
         /\ Rec[l].blen <= maxb          \* the receive buffer itself never exceeds the limit (C17)
         /\ LET e == Rec[l] IN
            IF dead THEN DeliverDead
            ELSE IF e.cls \in FrameClasses THEN Deliver(e.cls, e.canon)
            ELSE IF e.cls = "eof" THEN DeliverEof \/ Deliver("eof", e.canon)   \* the latter: a blank frame (acls)
            ELSE IF e.cls = "overflow" THEN DeliverOverflow
            ELSE IF e.cls = "io_err" THEN DeliverIoErr
            ELSE FALSE
TIdle == (IsEv("pending") \/ IsEv("cancel") \/ IsEv("start") \/ IsEv("inject_read_err")) /\ Idle
TEnd == IsEv("end") /\ (Rec[l].drained => Complete) /\ Idle

TNext == TReset \/ TChunk \/ TClose \/ TReadEof \/ TReadErr \/ TRecv \/ TIdle \/ TEnd
TSpec == TInit /\ [][TNext]_tvars

Accepted ==
    LET d == TLCGet("stats").diameter IN
    IF d - 1 = Len(Rec) THEN TRUE
    ELSE /\ PrintT(<<"REJECT", d, ToJson(Rec[d])>>)
         /\ FALSE
=============================================================================
