\* three short frames
CONSTANTS B = 4  MAXB = 64  CursorRule = "terminator"  MaxFrames = 3  MaxBody = 3  MaxExtra = 1
SPECIFICATION MCSpec
INVARIANT Inv
PROPERTY RefinesFraming
CONSTRAINT Bound
CHECK_DEADLOCK FALSE
