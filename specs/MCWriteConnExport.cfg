CONSTANTS B = 4  MAXB = 12  Lens = {2, 3, 6, 7, 10, 11, 12}  EnqLens = {2, 6, 7, 10, 11, 12}  ResetRule = "after"  MaxDocs = 9
          MaxOps = 4
SPECIFICATION HSpec
INVARIANT Export
CONSTRAINT HBound
CHECK_DEADLOCK FALSE
