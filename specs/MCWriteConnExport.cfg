CONSTANTS B = 4  MAXB = 8  Lens = {2, 3, 4, 6, 7, 8}  EnqLens = {2, 6, 7, 8}  ResetRule = "after"  MaxDocs = 9
          MaxOps = 4
SPECIFICATION HSpec
INVARIANT Export
CONSTRAINT HBound
CHECK_DEADLOCK FALSE
