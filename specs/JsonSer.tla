------------------------------- MODULE JsonSer -------------------------------
(***************************************************************************)
(* C03: zlink's built-in JSON serializer (zlink-core/src/json_ser.rs).        *)
(*                                                                           *)
(* Values are the serde data model, as records tagged by `t':                  *)
(*   null, bool(b), num(a) - a is the decimal text of a number atom -,          *)
(*   str(s), char(s) - s a sequence of character tokens -, bytes(n) - n ints -, *)
(*   none, some(v), unit, unitstruct, newtype(v), seq(items), tuple(items),     *)
(*   tuplestruct(items),                                                        *)
(*   map(entries: <<key, value>>), struct(fields: <<name, value>>),             *)
(*   unitvar(name), newtypevar(name, v), tuplevar(name, items),                 *)
(*   structvar(name, fields).                                                   *)
(* Character tokens: a printable ASCII character stands for itself; named       *)
(* tokens stand for the characters that need care.                              *)
(* Encode(v) is the compact JSON text.  EncodeKey(k) is the text of a map key,   *)
(* or Refused.  The Compound bookkeeping of the code (First / Rest / Empty, the   *)
(* `len = Some(0)' shortcut, closing of variant wrappers) is what Items / Members *)
(* / Wrap spell out.                                                             *)
(***************************************************************************)
EXTENDS Naturals, Sequences, TLC

Refused == "<refused>"

\* ---- characters ----------------------------------------------------------------------
TokText(c) ==
    CASE c = "QUOTE" -> "\\\""      \* backslash quote
      [] c = "BSLASH" -> "\\\\"
      [] c = "NL" -> "\\n"
      [] c = "TAB" -> "\\t"
      [] c = "CR" -> "\\r"
      [] c = "BS" -> "\\b"
      [] c = "FF" -> "\\f"
      [] c = "C00" -> "\\u0000"
      [] c = "C01" -> "\\u0001"
      [] c = "C1F" -> "\\u001f"
      [] c = "SLASH" -> "/"          \* not escaped
      [] c = "DEL" -> "<7f>"         \* raw; the harness writes non-ASCII / DEL bytes as <hex>
      [] c = "EACUTE" -> "<c3><a9>"
      [] c = "EURO" -> "<e2><82><ac>"
      [] c = "EMOJI" -> "<f0><9f><98><80>"
      [] c = "U2028" -> "<e2><80><a8>"   \* not escaped by serde_json either
      [] OTHER -> c
RECURSIVE StrBody(_)
StrBody(s) == IF s = <<>> THEN "" ELSE TokText(Head(s)) \o StrBody(Tail(s))
Quoted(s) == "\"" \o StrBody(s) \o "\""
\* static names (struct fields, variants) are strings like any other: a name given with serde(rename) may
\* hold characters that need escaping
NameChar(c) == CASE c = "\"" -> "\\\"" [] c = "\\" -> "\\\\" [] c = "\n" -> "\\n" [] c = "\t" -> "\\t" [] OTHER -> c
RECURSIVE NameBody(_)
NameBody(n) == IF n = "" THEN "" ELSE NameChar(SubSeq(n, 1, 1)) \o NameBody(SubSeq(n, 2, Len(n)))
Name(n) == "\"" \o NameBody(n) \o "\""

\* escape rule over code points (checked against exhaustive sweeps of the implementation)
HexDigit(n) == SubSeq("0123456789abcdef", n + 1, n + 1)
Hex4(cp) == HexDigit((cp \div 4096) % 16) \o HexDigit((cp \div 256) % 16) \o HexDigit((cp \div 16) % 16) \o HexDigit(cp % 16)
EscapeOf(cp) ==
    CASE cp = 34 -> "esc2:\""
      [] cp = 92 -> "esc2:\\"
      [] cp = 8 -> "esc2:b"
      [] cp = 9 -> "esc2:t"
      [] cp = 10 -> "esc2:n"
      [] cp = 12 -> "esc2:f"
      [] cp = 13 -> "esc2:r"
      [] cp < 32 -> "escu:" \o Hex4(cp)
      [] OTHER -> "raw"

\* ---- values ----------------------------------------------------------------------------
RECURSIVE Flat(_)
Flat(ps) == IF ps = <<>> THEN <<>> ELSE Head(ps) \o Flat(Tail(ps))
RECURSIVE Encode(_), EncodeKey(_), Items(_, _), Members(_, _), Fields(_, _), Bytes(_, _)
Wrap(nm, body) == "{" \o Name(nm) \o ":" \o body \o "}"
Encode(v) ==
    CASE v.t = "null" -> "null"
      [] v.t = "unit" -> "null"
      [] v.t = "unitstruct" -> "null"
      [] v.t = "none" -> "null"
      [] v.t = "bool" -> IF v.b THEN "true" ELSE "false"
      [] v.t = "num" -> v.a
      [] v.t = "str" -> Quoted(v.s)
      [] v.t = "char" -> Quoted(v.s)
      [] v.t = "disp" -> Quoted(Flat(v.parts))          \* collect_str: the text a Display impl writes piece by piece
      [] v.t = "bytes" -> "[" \o Bytes(v.n, TRUE) \o "]"
      [] v.t = "some" -> Encode(v.v)
      [] v.t = "newtype" -> Encode(v.v)
      [] v.t = "seq" -> "[" \o Items(v.items, TRUE) \o "]"
      [] v.t = "tuple" -> "[" \o Items(v.items, TRUE) \o "]"
      [] v.t = "tuplestruct" -> "[" \o Items(v.items, TRUE) \o "]"
      [] v.t = "map" -> "{" \o Members(v.entries, TRUE) \o "}"
      [] v.t = "struct" -> "{" \o Fields(v.fields, TRUE) \o "}"
      [] v.t = "unitvar" -> Name(v.name)
      [] v.t = "newtypevar" -> Wrap(v.name, Encode(v.v))
      [] v.t = "tuplevar" -> Wrap(v.name, "[" \o Items(v.items, TRUE) \o "]")
      [] v.t = "structvar" -> Wrap(v.name, "{" \o Fields(v.fields, TRUE) \o "}")
Items(xs, first) == IF xs = <<>> THEN ""
                    ELSE (IF first THEN "" ELSE ",") \o Encode(Head(xs)) \o Items(Tail(xs), FALSE)
Bytes(ns, first) == IF ns = <<>> THEN ""
                    ELSE (IF first THEN "" ELSE ",") \o ToString(Head(ns)) \o Bytes(Tail(ns), FALSE)
Members(es, first) == IF es = <<>> THEN ""
                      ELSE (IF first THEN "" ELSE ",") \o EncodeKey(Head(es)[1]) \o ":" \o Encode(Head(es)[2])
                           \o Members(Tail(es), FALSE)
Fields(fs, first) == IF fs = <<>> THEN ""
                     ELSE (IF first THEN "" ELSE ",") \o Name(Head(fs)[1]) \o ":" \o Encode(Head(fs)[2])
                          \o Fields(Tail(fs), FALSE)
\* keys: strings, characters, integers (quoted), unit variants, newtype-wrapped ones
RECURSIVE KeyClass(_)
KeyClass(k) ==
    CASE k.t \in {"str", "char", "unitvar", "disp"} -> "must"
      [] k.t = "num" -> IF k.int THEN "must" ELSE "may"       \* floats: either refused or as the reference
      [] k.t = "newtype" -> KeyClass(k.v)
      [] k.t \in {"bool", "some", "none", "unit", "unitstruct", "null"} -> "may"
      [] OTHER -> "never"                                      \* sequences, maps, structs, bytes, data variants
EncodeKey(k) ==
    CASE k.t \in {"str", "char"} -> Quoted(k.s)
      [] k.t = "disp" -> Quoted(Flat(k.parts))
      [] k.t = "unitvar" -> Name(k.name)
      [] k.t = "num" -> "\"" \o k.a \o "\""
      [] k.t = "bool" -> IF k.b THEN "\"true\"" ELSE "\"false\""
      [] k.t = "newtype" -> EncodeKey(k.v)
      [] k.t = "some" -> EncodeKey(k.v)
      [] OTHER -> Refused
\* does the value contain a key of class c anywhere?
RECURSIVE HasKey(_, _), AnyItem(_, _), AnyEntry(_, _), AnyField(_, _)
HasKey(v, c) ==
    CASE v.t \in {"some", "newtype", "newtypevar"} -> HasKey(v.v, c)
      [] v.t \in {"seq", "tuple", "tuplestruct", "tuplevar"} -> AnyItem(v.items, c)
      [] v.t = "map" -> AnyEntry(v.entries, c)
      [] v.t \in {"struct", "structvar"} -> AnyField(v.fields, c)
      [] OTHER -> FALSE
AnyItem(xs, c) == xs # <<>> /\ (HasKey(Head(xs), c) \/ AnyItem(Tail(xs), c))
AnyEntry(es, c) == es # <<>> /\ (KeyClass(Head(es)[1]) = c \/ HasKey(Head(es)[2], c) \/ AnyEntry(Tail(es), c))
AnyField(fs, c) == fs # <<>> /\ (HasKey(Head(fs)[2], c) \/ AnyField(Tail(fs), c))

\* ---- well-formedness of a text (model-level sanity of Encode) ---------------------------
RECURSIVE Scan(_, _, _, _)
\* depth counting outside string literals; inside a literal a backslash skips the next character
Scan(s, i, depth, inStr) ==
    IF i > Len(s) THEN depth = 0 /\ ~inStr
    ELSE LET c == SubSeq(s, i, i) IN
         IF inStr THEN (IF c = "\\" THEN Scan(s, i + 2, depth, TRUE)
                        ELSE IF c = "\"" THEN Scan(s, i + 1, depth, FALSE) ELSE Scan(s, i + 1, depth, TRUE))
         ELSE IF c = "\"" THEN Scan(s, i + 1, depth, TRUE)
         ELSE IF c \in {"[", "{"} THEN Scan(s, i + 1, depth + 1, FALSE)
         ELSE IF c \in {"]", "}"} THEN depth > 0 /\ Scan(s, i + 1, depth - 1, FALSE)
         ELSE Scan(s, i + 1, depth, FALSE)
Balanced(s) == Scan(s, 1, 0, FALSE)
=============================================================================
