CONSTANTS n = 5  x = 1  d = 3
SPECIFICATION Spec
INVARIANT NotArmedAndWaiting
CHECK_DEADLOCK FALSE
