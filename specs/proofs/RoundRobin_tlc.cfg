CONSTANTS n = 5  x = 1  d = 3
SPECIFICATION Spec
INVARIANT Inv
CHECK_DEADLOCK FALSE
