(* automatically generated -- do not edit manually *)
theory RoundRobin imports Constant Zenon begin
ML_command \<open> writeln ("*** TLAPS PARSED\n"); \<close>
consts
  "isReal" :: c
  "isa_slas_a" :: "[c,c] => c"
  "isa_bksl_diva" :: "[c,c] => c"
  "isa_perc_a" :: "[c,c] => c"
  "isa_peri_peri_a" :: "[c,c] => c"
  "isInfinity" :: c
  "isa_lbrk_rbrk_a" :: "[c] => c"
  "isa_less_more_a" :: "[c] => c"

end
