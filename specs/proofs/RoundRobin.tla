----------------------------- MODULE RoundRobin -----------------------------
(***************************************************************************)
(* The rotating scan of zlink-core/src/server/select_all.rs together with   *)
(* the index the server keeps (server/mod.rs: last_method_call_winner), for  *)
(* ANY number n of connections while the set of connections is unchanged.    *)
(*                                                                           *)
(* One step = one iteration of the server loop that serves a call: the scan  *)
(* starts at (last + 1) % n, visits every position once and the first ready  *)
(* one wins; the winner's position becomes `last'.                           *)
(*                                                                           *)
(* Theorem proved below with TLAPS (no bound on n): if position x is ready   *)
(* all the time since position d was served, d is not served again before x. *)
(* This is the first sentence of C18 ("does not serve two calls from one     *)
(* connection while another connection has had a complete call waiting the   *)
(* whole time") at the level of the design; Server.tla checks it in the      *)
(* composed model for n <= 3 and ServerTrace on the real executions.         *)
(*                                                                           *)
(* The modulus is spelled without %, so that every obligation is linear:     *)
(* Rank(i) is the number of positions the scan visits before i.              *)
(***************************************************************************)
EXTENDS Integers, TLAPS

CONSTANTS n,     \* number of connections
          x, d   \* the waiting position and the flooding position
ASSUME Assm == /\ n \in Nat /\ n >= 2
               /\ x \in 0..(n - 1) /\ d \in 0..(n - 1) /\ x # d

VARIABLES last,   \* position of the last winner (0-based), as in the code
          ready,  \* positions whose receive would complete now
          armed,  \* history: d has been served and x has been ready ever since, x not yet served
          twice   \* history: d was served a second time while armed

vars == <<last, ready, armed, twice>>
Pos == 0..(n - 1)

\* how many positions the scan that follows a win of `l' visits before i
Rank(l, i) == IF i > l THEN i - l - 1 ELSE i - l - 1 + n

TypeOK == /\ last \in Pos /\ ready \subseteq Pos /\ armed \in BOOLEAN /\ twice \in BOOLEAN

Init == /\ last \in Pos /\ ready \subseteq Pos /\ armed = FALSE /\ twice = FALSE

\* a call becomes available on some position (never withdrawn: a complete call waits until it is served)
Arrive(i) == /\ i \in Pos /\ ready' = ready \cup {i} /\ UNCHANGED <<last, armed, twice>>

\* the loop serves the first ready position in scan order; the winner may or may not have a further call buffered
Serve(w, more) ==
    /\ w \in ready
    /\ \A j \in ready : Rank(last, w) <= Rank(last, j)
    /\ last' = w
    /\ ready' = IF more THEN ready ELSE ready \ {w}
    /\ twice' = (twice \/ (armed /\ w = d))
    /\ armed' = IF w = x THEN FALSE
                ELSE IF w = d THEN x \in ready
                ELSE armed

Next == (\E i \in Pos : Arrive(i)) \/ (\E w \in Pos, more \in BOOLEAN : Serve(w, more))
Spec == Init /\ [][Next]_vars

\* the inductive invariant: while armed, x is ready and the scan reaches x before d
Inv == /\ TypeOK
       /\ ~twice
       /\ armed => /\ x \in ready
                   /\ (last = d \/ Rank(last, x) < Rank(last, d))

NeverTwice == ~twice
\* vacuity probe for TLC (expected to be violated): the situation the theorem talks about is reachable
NotArmedAndWaiting == ~(armed /\ last # d /\ d \in ready)

LEMMA RankRange == \A l \in Pos, i \in Pos : Rank(l, i) \in 0..(n - 1)
  BY Assm DEF Rank, Pos
LEMMA RankSelf == \A l \in Pos : Rank(l, l) = n - 1
  BY Assm DEF Rank, Pos
LEMMA RankInj == \A l \in Pos, i \in Pos, j \in Pos : Rank(l, i) = Rank(l, j) => i = j
  BY Assm DEF Rank, Pos

THEOREM InitInv == Init => Inv
  BY Assm DEF Init, Inv, TypeOK

THEOREM StepInv == Inv /\ [Next]_vars => Inv'
<1> SUFFICES ASSUME Inv, [Next]_vars PROVE Inv'
  OBVIOUS
<1>1. CASE UNCHANGED vars
  BY <1>1 DEF Inv, TypeOK, vars, Rank
<1>2. ASSUME NEW i \in Pos, Arrive(i) PROVE Inv'
  BY <1>2, Assm DEF Inv, TypeOK, Arrive, Rank, Pos
<1>3. ASSUME NEW w \in Pos, NEW more \in BOOLEAN, Serve(w, more) PROVE Inv'
  <2>1. TypeOK'
    BY <1>3 DEF Inv, TypeOK, Serve, Pos
  <2>2. armed => w # d
    \* x is ready and comes before d in the scan, so the minimum-rank winner is not d
    <3> SUFFICES ASSUME armed, w = d PROVE FALSE
      OBVIOUS
    <3>1. x \in ready /\ (last = d \/ Rank(last, x) < Rank(last, d))
      BY DEF Inv
    <3>2. Rank(last, d) <= Rank(last, x)
      BY <1>3, <3>1 DEF Serve
    <3>3. CASE last = d
      <4>1. Rank(last, d) = n - 1
        BY <3>3, RankSelf DEF Inv, TypeOK
      <4>2. Rank(last, x) \in 0..(n - 1)
        BY RankRange, Assm DEF Inv, TypeOK, Pos
      <4>3. Rank(last, x) = Rank(last, d)
        BY <3>2, <4>1, <4>2, Assm
      <4> QED BY <4>3, RankInj, Assm DEF Inv, TypeOK, Pos
    <3>4. CASE Rank(last, x) < Rank(last, d)
      <4>1. Rank(last, x) \in Int /\ Rank(last, d) \in Int
        BY RankRange, Assm DEF Inv, TypeOK, Pos
      <4> QED BY <3>2, <3>4, <4>1
    <3> QED BY <3>1, <3>3, <3>4
  <2>3. ~twice'
    BY <1>3, <2>2 DEF Inv, Serve
  <2>4. armed' => (x \in ready' /\ (last' = d \/ Rank(last', x) < Rank(last', d)))
    <3> SUFFICES ASSUME armed' PROVE x \in ready' /\ (last' = d \/ Rank(last', x) < Rank(last', d))
      OBVIOUS
    <3>1. w # x
      BY <1>3 DEF Serve
    <3>2. CASE w = d
      BY <1>3, <3>1, <3>2 DEF Serve
    <3>3. CASE w # d
      <4>1. armed /\ x \in ready
        BY <1>3, <3>1, <3>3 DEF Serve, Inv
      <4>2. x \in ready'
        BY <1>3, <3>1, <4>1 DEF Serve
      <4>3. Rank(last, w) <= Rank(last, x)
        BY <1>3, <4>1 DEF Serve
      <4>4. last = d \/ Rank(last, x) < Rank(last, d)
        BY <4>1 DEF Inv
      <4>5. Rank(w, x) < Rank(w, d)
        \* pure arithmetic on positions: w is scanned no later than x, x before d (or d = last is scanned last)
        BY <4>3, <4>4, <3>1, <3>3, Assm DEF Rank, Pos, Inv, TypeOK
      <4> QED BY <1>3, <4>2, <4>5 DEF Serve
    <3> QED BY <3>2, <3>3
  <2> QED BY <2>1, <2>3, <2>4 DEF Inv
<1> QED BY <1>1, <1>2, <1>3 DEF Next

THEOREM Fair == Spec => []NeverTwice
<1>1. Inv => NeverTwice
  BY DEF Inv, NeverTwice
<1> QED BY InitInv, StepInv, <1>1, PTL DEF Spec
=============================================================================
