----------------------------- MODULE JsonSerTrace -----------------------------
(* C03 trace validation.  `tree' events: the text zlink produced for a value tree must equal the
   specification's Encode of the same tree (or the value must be refused exactly when a key of the
   never-class occurs), for every initial free space; it must also equal serde_json's output.
   `range' events: how every Unicode scalar is written must equal EscapeOf, for the whole range.
   `atoms' events: number atoms agree with the reference formatter. *)
EXTENDS JsonSer, Json, IOUtils
Rec == ndJsonDeserialize(IOEnv.TRACE)
VARIABLE l
IsEv(e) == l <= Len(Rec) /\ Rec[l].ev = e /\ l' = l + 1
TInit == l = 1
TTree == /\ IsEv("tree")
         /\ LET e == Rec[l] IN
            /\ (HasKey(e.v, "never") => ~e.ok /\ e.refused)           \* refused, not mis-encoded
            /\ (~HasKey(e.v, "never") /\ ~HasKey(e.v, "may") => e.ok)  \* everything else is encoded
            /\ (e.ok => /\ e.text = Encode(e.v)                        \* exactly the specified text
                        /\ e.same_as_ref /\ e.ref_ok                     \* byte-identical to serde_json
                        /\ e.valid_json /\ e.no_raw_control
                        /\ e.min_ok = e.len /\ e.all_ok_same /\ e.small_all_toosmall   \* independent of free space
                        /\ e.via_conn_same)
            /\ (~e.ok => e.refused)
TRange == /\ IsEv("range")
          /\ LET e == Rec[l] IN
             /\ e.same_as_ref
             /\ \A cp \in e.lo..e.hi : (cp < 55296 \/ cp > 57343) => EscapeOf(cp) = e.shape
TAtoms == IsEv("atoms") /\ Rec[l].same_as_ref
TOther == IsEv("reset") \/ IsEv("end")
TNext == TTree \/ TRange \/ TAtoms \/ TOther
TSpec == TInit /\ [][TNext]_l
Accepted ==
    LET d == TLCGet("stats").diameter IN
    IF d - 1 = Len(Rec) THEN TRUE
    ELSE /\ PrintT(<<"REJECT", d, ToJson(Rec[d])>>)
         /\ FALSE
=============================================================================
