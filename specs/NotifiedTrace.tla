---------------------------- MODULE NotifiedTrace ----------------------------
(* C20 trace validation (property level).  Both runtime crates are driven in lock-step by the
   same schedule; every event carries what each did.  Per subscriber: values come in the order
   they were set (strictly increasing set numbers, all after the subscription point), each marked
   continuing; `pending' only when the subscriber has seen the most recent value; the stream ends
   only after every State handle is gone and the most recent value was delivered.  One-shot: exactly
   one final item after notify, then the end; the end at once if the notifier was dropped.  The two
   implementations must report the same thing. *)
EXTENDS Naturals, Sequences, FiniteSets, Json, IOUtils, TLC
Rec == ndJsonDeserialize(IOEnv.TRACE)
VARIABLES l, version, handles, since, last, on, ended, once
tvars == <<l, version, handles, since, last, on, ended, once>>
S == 0..2
IsEv(e) == l <= Len(Rec) /\ Rec[l].ev = e /\ l' = l + 1
Same(e) == e.tokio = e.smol
TInit == /\ l = 1 /\ version = 0 /\ handles = 1
         /\ since = [s \in S |-> 0] /\ last = [s \in S |-> 0] /\ on = [s \in S |-> FALSE] /\ ended = [s \in S |-> FALSE]
         /\ once = "none"
TReset == /\ IsEv("reset") /\ version' = 0 /\ handles' = 1
          /\ since' = [s \in S |-> 0] /\ last' = [s \in S |-> 0] /\ on' = [s \in S |-> FALSE] /\ ended' = [s \in S |-> FALSE]
          /\ once' = "none"
TSet == /\ IsEv("set") /\ handles > 0
        /\ Rec[l].tokio.r = "ok" /\ Same(Rec[l])          \* setting never fails, with or without subscribers
        /\ Rec[l].v = version + 1 /\ version' = version + 1
        /\ Rec[l].tget = Rec[l].v /\ Rec[l].sget = Rec[l].v     \* State::get of that handle: the value just set
        /\ UNCHANGED <<handles, since, last, on, ended, once>>
TClone == IsEv("clone_state") /\ handles' = handles + 1 /\ UNCHANGED <<version, since, last, on, ended, once>>
TDropState == IsEv("drop_state") /\ handles' = handles - 1 /\ Rec[l].left = handles - 1
              /\ UNCHANGED <<version, since, last, on, ended, once>>
TSubscribe == /\ IsEv("subscribe") /\ LET s == Rec[l].s IN
                 /\ on' = [on EXCEPT ![s] = TRUE] /\ ended' = [ended EXCEPT ![s] = FALSE]
                 /\ since' = [since EXCEPT ![s] = version] /\ last' = [last EXCEPT ![s] = version]
              /\ UNCHANGED <<version, handles, once>>
TDropSub == /\ IsEv("drop_sub") /\ on' = [on EXCEPT ![Rec[l].s] = FALSE]
            /\ UNCHANGED <<version, handles, since, last, ended, once>>
TPoll == /\ IsEv("poll")
         /\ LET e == Rec[l]  s == e.s  r == e.tokio IN
            /\ Same(e) /\ on[s]
            /\ CASE r.r = "item" -> /\ ~ended[s]
                                    /\ r.v > last[s] /\ r.v <= version      \* in set order, nothing invented
                                    /\ r.cont = 2                            \* marked as continuing
                                    /\ last' = [last EXCEPT ![s] = r.v] /\ UNCHANGED ended
                 [] r.r = "pending" -> /\ ~ended[s] /\ last[s] = version      \* has seen the most recent value
                                       /\ handles > 0                        \* (a closed channel ends the stream instead)
                                       /\ UNCHANGED <<last, ended>>
                 [] r.r = "end" -> /\ handles = 0 /\ last[s] = version       \* never while the state exists
                                   /\ ended' = [ended EXCEPT ![s] = TRUE] /\ UNCHANGED last
                 [] OTHER -> FALSE
         /\ UNCHANGED <<version, handles, since, on, once>>
TOnceNew == IsEv("once_new") /\ once' = "armed" /\ UNCHANGED <<version, handles, since, last, on, ended>>
TNotify == IsEv("notify") /\ once = "armed" /\ Rec[l].tokio.r = "ok" /\ Same(Rec[l]) /\ once' = "notified"
           /\ UNCHANGED <<version, handles, since, last, on, ended>>
TDropNotifier == IsEv("drop_notifier") /\ once = "armed" /\ once' = "dropped"
                 /\ UNCHANGED <<version, handles, since, last, on, ended>>
TPollOnce == /\ IsEv("poll_once")
             /\ LET e == Rec[l]  r == e.tokio IN
                /\ Same(e)
                /\ CASE once = "armed" -> r.r = "pending" /\ once' = once
                     [] once = "notified" -> r.r = "item" /\ r.v = 77 /\ r.cont = 1 /\ once' = "taken"   \* exactly one, marked final
                     [] once \in {"dropped", "taken", "ended"} -> r.r = "end" /\ once' = "ended"
                     [] OTHER -> FALSE
             /\ UNCHANGED <<version, handles, since, last, on, ended>>
TEnd == IsEv("end") /\ UNCHANGED <<version, handles, since, last, on, ended, once>>
TNext == TReset \/ TSet \/ TClone \/ TDropState \/ TSubscribe \/ TDropSub \/ TPoll \/ TOnceNew \/ TNotify
         \/ TDropNotifier \/ TPollOnce \/ TEnd
TSpec == TInit /\ [][TNext]_tvars
Accepted ==
    LET d == TLCGet("stats").diameter IN
    IF d - 1 = Len(Rec) THEN TRUE
    ELSE /\ PrintT(<<"REJECT", d, ToJson(Rec[d])>>)
         /\ FALSE
=============================================================================
