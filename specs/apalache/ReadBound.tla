------------------------------- MODULE ReadBound -------------------------------
(***************************************************************************)
(* The size bookkeeping of the receive buffer (ReadConn.tla, C17 inbound)   *)
(* over unbounded integers: growth step B = 256 as in the code, any limit    *)
(* MAXB = K * B, any read sizes, any frame lengths.  Apalache checks IndInv   *)
(* as an inductive invariant, so it holds after any number of reads and       *)
(* receives - TLC only sees B = 4, MAXB = 8.                                  *)
(*                                                                         *)
(*   blen  length of the buffer     rp  bytes read into it (read_pos)        *)
(*   mp    start of the first unconsumed frame (msg_pos)                     *)
(*   dead  an overflow was reported                                          *)
(***************************************************************************)
EXTENDS Integers

CONSTANTS
    \* @type: Int;
    K

B == 256
MAXB == K * B

VARIABLES
    \* @type: Int;
    blen,
    \* @type: Int;
    rp,
    \* @type: Int;
    mp,
    \* @type: Bool;
    dead

ConstInit == K \in Nat /\ K >= 1
Init == blen = B /\ rp = 0 /\ mp = 0 /\ dead = FALSE

\* the transport hands over n bytes (at most what is free); a full buffer grows by one step, or - at the
\* limit - the receive reports an overflow
Read ==
    /\ ~dead
    /\ \E n \in Nat :
        /\ n >= 1 /\ rp + n <= blen
        /\ rp' = rp + n
        /\ IF rp + n = blen
           THEN IF rp + n >= MAXB THEN dead' = TRUE /\ blen' = blen
                ELSE dead' = FALSE /\ blen' = blen + B
           ELSE dead' = FALSE /\ blen' = blen
        /\ UNCHANGED mp

\* a receive consumes one frame of the buffered bytes; after the last one the cursors are reset
Consume ==
    /\ ~dead /\ mp < rp
    /\ \E e \in Nat :
        /\ e > mp /\ e <= rp
        /\ IF e = rp THEN rp' = 0 /\ mp' = 0 ELSE mp' = e /\ rp' = rp
    /\ UNCHANGED <<blen, dead>>

Next == Read \/ Consume

IndInv ==
    /\ K >= 1
    /\ blen >= B /\ blen <= MAXB /\ blen % B = 0          \* the buffer never exceeds the limit
    /\ mp >= 0 /\ mp <= rp /\ rp <= blen
    /\ (~dead => rp < blen)                                 \* there is always room for the next read
    /\ (dead => rp = blen /\ blen = MAXB)                   \* overflow only with a full buffer at the limit

\* vacuity check: growing without looking at the limit breaks the invariant
ReadNoLimit ==
    /\ ~dead
    /\ \E n \in Nat : n >= 1 /\ rp + n <= blen /\ rp' = rp + n
                      /\ blen' = (IF rp + n = blen THEN blen + B ELSE blen)
    /\ UNCHANGED <<mp, dead>>
NextBad == Next \/ ReadNoLimit

IndInit == blen \in Int /\ rp \in Int /\ mp \in Int /\ dead \in BOOLEAN /\ IndInv
=============================================================================
