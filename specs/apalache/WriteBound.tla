------------------------------ MODULE WriteBound ------------------------------
(***************************************************************************)
(* The size bookkeeping of the write buffer (WriteConn.tla, C17 outbound)   *)
(* over unbounded integers: the code's growth step B = 256, any limit        *)
(* MAXB = K * B, any message length.  Checked with Apalache as an inductive invariant         *)
(* (Init => IndInv; IndInv /\ Next => IndInv'), i.e. for executions of any   *)
(* length - TLC only sees B = 4, MAXB in {8, 12}.                            *)
(*                                                                         *)
(*   blen  length of the buffer            pos   bytes queued               *)
(*   sent  bytes handed to the transport   acc   bytes of accepted messages *)
(***************************************************************************)
EXTENDS Integers

CONSTANTS
    \* @type: Int;
    K

B == 256

VARIABLES
    \* @type: Int;
    blen,
    \* @type: Int;
    pos,
    \* @type: Int;
    sent,
    \* @type: Int;
    acc

MAXB == K * B

ConstInit == K \in Nat /\ K >= 1

Init == blen = B /\ pos = 0 /\ sent = 0 /\ acc = 0

\* the buffer length after growing (in steps of B, never beyond MAXB) until `need' bytes fit, if it can
\* @type: (Int, Int) => Bool;
Fits(need, newlen) ==
    /\ newlen >= blen /\ newlen <= MAXB
    /\ newlen % B = 0
    /\ newlen >= need
    /\ (newlen > blen => newlen - B < need)          \* it grows no further than needed

\* a message of len bytes plus its terminator is accepted: the buffer grows as far as needed
Enqueue ==
    \E len \in Nat : \E newlen \in Nat :
        /\ Fits(pos + len + 1, newlen)
        /\ blen' = newlen /\ pos' = pos + len + 1 /\ acc' = acc + len + 1
        /\ UNCHANGED sent

\* a message that would need more than MAXB is refused: nothing changes except that the buffer may have grown
Refuse ==
    \E len \in Nat : \E newlen \in Nat :
        /\ pos + len + 1 > MAXB
        /\ newlen >= blen /\ newlen <= MAXB /\ newlen % B = 0
        /\ blen' = newlen /\ UNCHANGED <<pos, sent, acc>>

Flush == /\ sent' = sent + pos /\ pos' = 0 /\ UNCHANGED <<blen, acc>>

Next == Enqueue \/ Refuse \/ Flush

\* the buffer never exceeds the limit, its length stays on the grid, nothing is lost or invented
IndInv ==
    /\ K >= 1
    /\ blen >= B /\ blen <= MAXB
    /\ blen % B = 0
    /\ pos >= 0 /\ pos <= blen
    /\ sent >= 0 /\ acc = sent + pos
\* vacuity check: an enqueue that forgets the limit (grows by one step whenever needed) breaks the invariant
EnqueueNoLimit == \E len \in Nat : /\ blen' = (IF pos + len + 1 > blen THEN blen + B ELSE blen)
                                    /\ pos + len + 1 <= blen + B
                                    /\ pos' = pos + len + 1 /\ acc' = acc + len + 1 /\ UNCHANGED sent
NextBad == Next \/ EnqueueNoLimit

\* every variable gets a value, then the invariant constrains it (Apalache's form of "any state satisfying IndInv")
IndInit == blen \in Int /\ pos \in Int /\ sent \in Int /\ acc \in Int /\ IndInv
=============================================================================
