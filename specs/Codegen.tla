------------------------------- MODULE Codegen -------------------------------
(***************************************************************************)
(* C15: what client code generated from an interface description must put   *)
(* on the wire and accept from it.  Built on the descriptions of Idl.tla.    *)
(*                                                                         *)
(* JSON values are observed as records [k, e, a, m]:                         *)
(*   k  "null" "bool" "int" "float" "str" "arr" "obj"                        *)
(*   e  the text of a string (else "")                                       *)
(*   a  the elements of an array                                             *)
(*   m  the members of an object, each [n, v]                                *)
(* Conforms(j, ty, a) says that the JSON value j has the shape the IDL type   *)
(* ty of interface a declares, with exactly the IDL's spellings:              *)
(*   - an object for a struct has only declared field names, every field     *)
(*     that is not optional is present, every member conforms;               *)
(*   - a value of an enum is one of its variant names, spelled as declared;   *)
(*   - optional values may be null (or, as members, absent).                  *)
(***************************************************************************)
EXTENDS Idl, FiniteSets

TypeDef(a, n) == LET ds == SelectSeq(a.members, LAMBDA m : m.kind = "type" /\ m.name = n) IN ds[1]
HasTypeDef(a, n) == \E x \in 1..Len(a.members) : a.members[x].kind = "type" /\ a.members[x].name = n
MemberNames(j) == {j.m[x].n : x \in 1..Len(j.m)}
MemberVal(j, n) == LET ms == SelectSeq(j.m, LAMBDA mm : mm.n = n) IN ms[1].v
FieldNames(fs) == {fs[x].name : x \in 1..Len(fs)}
VariantNames(vs) == {vs[x].name : x \in 1..Len(vs)}

RECURSIVE Conforms(_, _, _), ObjConforms(_, _, _)
\* an object against a list of fields (a struct, a parameter list)
ObjConforms(j, fs, a) ==
    /\ j.k = "obj"
    /\ Cardinality(MemberNames(j)) = Len(j.m)                          \* no member twice
    /\ MemberNames(j) \subseteq FieldNames(fs)                          \* only declared names, spelled as declared
    /\ \A x \in 1..Len(fs) :
          IF fs[x].name \in MemberNames(j) THEN Conforms(MemberVal(j, fs[x].name), fs[x].ty, a)
          ELSE fs[x].ty.t = "opt"                                      \* only an optional field may be missing
Conforms(j, ty, a) ==
    CASE ty.t = "prim" ->
            (CASE ty.name = "bool" -> j.k = "bool"
               [] ty.name = "int" -> j.k = "int"
               [] ty.name = "float" -> j.k \in {"int", "float"}
               [] ty.name = "string" -> j.k = "str"
               [] ty.name = "object" -> TRUE)
      [] ty.t = "opt" -> j.k = "null" \/ Conforms(j, ty.inner[1], a)
      [] ty.t = "arr" -> j.k = "arr" /\ \A x \in 1..Len(j.a) : Conforms(j.a[x], ty.inner[1], a)
      [] ty.t = "map" -> j.k = "obj" /\ \A x \in 1..Len(j.m) : Conforms(j.m[x].v, ty.inner[1], a)
      [] ty.t = "struct" -> ObjConforms(j, ty.fields, a)
      [] ty.t = "enum" -> j.k = "str" /\ j.e \in VariantNames(ty.variants)
      [] ty.t = "custom" ->
            IF ~HasTypeDef(a, ty.name) THEN FALSE
            ELSE LET d == TypeDef(a, ty.name) IN
                 IF d.isenum THEN j.k = "str" /\ j.e \in VariantNames(d.variants)
                 ELSE ObjConforms(j, d.ins, a)

\* how often a field / member name occurs in the JSON value (to make sure spellings were exercised)
Methods(a) == SelectSeq(a.members, LAMBDA m : m.kind = "method")
Errors(a) == SelectSeq(a.members, LAMBDA m : m.kind = "error")

\* ---- a call made through a generated method --------------------------------------------------
\* o: the observed frame [frames, method, has_params, params (JSON), more, oneway, extra];
\* present: for each declared input, whether the driver passed a value (optional inputs may be None)
CallOk(a, mi, present, o) ==
    LET m == Methods(a)[mi]
        sent == {m.ins[x].name : x \in {y \in 1..Len(m.ins) : present[y]}} IN
    /\ o.frames = 1
    /\ o.method = a.name \o "." \o m.name                      \* the IDL's qualified method name
    /\ o.has_params = (Len(m.ins) > 0)
    /\ (o.has_params => /\ ObjConforms(o.params, m.ins, a)
                        /\ MemberNames(o.params) = sent)          \* every argument, under the IDL's name
    /\ ~o.more /\ ~o.oneway /\ o.extra = <<>>

\* ---- a reply decoded by a generated method -----------------------------------------------------
\* the scripted reply was built by the driver from the IDL; it must itself conform (so that the
\* expectation comes from here), the method must hand back a success, and re-encoding what it handed
\* back must reproduce the parameters (nothing lost or renamed on the way in)
ReplyOk(a, mi, r) ==
    LET m == Methods(a)[mi] IN
    /\ (Len(m.outs) > 0 => ObjConforms(r.fed, m.outs, a) /\ MemberNames(r.fed) = FieldNames(m.outs))
    /\ r.cls = "success"
    /\ r.same

\* ---- an error decoded by a generated method ------------------------------------------------------
ErrorOk(a, ei, r) ==
    LET e == Errors(a)[ei] IN
    /\ r.error = a.name \o "." \o e.name                       \* the IDL's qualified error name
    /\ (Len(e.ins) > 0 => ObjConforms(r.fed, e.ins, a) /\ MemberNames(r.fed) = FieldNames(e.ins))
    /\ r.cls = "method_err"
    /\ r.same
=============================================================================
