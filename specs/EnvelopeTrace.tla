---------------------------- MODULE EnvelopeTrace ----------------------------
(* C05 trace validation: every event is one encode / decode / round-trip case executed against
   the real types (Call<M>, derived ReplyError enums, the org.varlink.service types, Reply<T>,
   generated proxies); TLC checks it against the operators of Envelope. *)
EXTENDS Naturals, Sequences, Json, IOUtils, TLC
Rec == ndJsonDeserialize(IOEnv.TRACE)
VARIABLE l
E == INSTANCE Envelope WITH OwnSets <- {}, own <- <<>>, flags <- <<>>, wire <- <<>>
IsEv(e) == l <= Len(Rec) /\ Rec[l].ev = e /\ l' = l + 1
TInit == l = 1
TCallEnc == IsEv("call_enc") /\ LET e == Rec[l] IN
              /\ e.got = E!ExpectedCallNames(e.own, e.oneway, e.more, e.upgrade)
              /\ e.flag_vals_true /\ e.own_kept
TCallRt == IsEv("call_rt") /\ Rec[l].ok
\* the same envelope from zlink's own serializer, whatever the buffer length
TCallSlice == IsEv("call_slice") /\ Rec[l].ok
TCallDec == IsEv("call_dec") /\ LET e == Rec[l] IN
              /\ e.call_ok = e.rest_ok                 \* the envelope neither adds nor hides failures
              /\ (e.call_ok => /\ e.same_method        \* every other member passed through
                               /\ e.got_oneway = E!FlagSpec(e.oneway)
                               /\ e.got_more = E!FlagSpec(e.more)
                               /\ e.got_upgrade = E!FlagSpec(e.upgrade))
              /\ (~e.extra => e.rest_ok)               \* the generated cases without unknown members are valid calls
TErrEnc == IsEv("err_enc") /\ LET e == Rec[l] IN
              /\ e.got_top = E!ExpectedErrorTop(e.fields)
              /\ e.got_error = e.iface \o "." \o e.variant
              \* (the statement does not fix the order of the fields inside `parameters')
              /\ {e.got_keys[i] : i \in 1..Len(e.got_keys)} = {e.fields[i] : i \in 1..Len(e.fields)}
              /\ Len(e.got_keys) = Len(e.fields)
TErrDec == IsEv("err_dec") /\ LET e == Rec[l] IN
              E!ErrorDecodeMustSucceed(e.nfields, e.spelling) => (e.ok /\ e.same)
TReplyEnc == IsEv("reply_enc") /\ Rec[l].got = E!ExpectedReplyNames(Rec[l].has_params, Rec[l].cont)
TReplyDec == IsEv("reply_dec") /\ Rec[l].ok /\ Rec[l].same /\ Rec[l].via_conn
TSpelling == IsEv("spelling") /\ Rec[l].form \in E!NoParamSpellings /\ Rec[l].ok
TOther == IsEv("reset") \/ IsEv("end")
TNext == TCallEnc \/ TCallRt \/ TCallSlice \/ TCallDec \/ TErrEnc \/ TErrDec \/ TReplyEnc \/ TReplyDec \/ TSpelling \/ TOther
TSpec == TInit /\ [][TNext]_l
Accepted ==
    LET d == TLCGet("stats").diameter IN
    IF d - 1 = Len(Rec) THEN TRUE
    ELSE /\ PrintT(<<"REJECT", d, ToJson(Rec[d])>>)
         /\ FALSE
=============================================================================
