"""C13 (the IDL parser accepts exactly the Varlink grammar) and C14 (render o parse = id):
Idl.tla (grammar acceptor transcribed into TLA+), MCIdl (laws + enumeration of descriptions),
IdlTrace (validation of what zlink's parser / renderer did for every case)."""
import json
import os
import re
import subprocess

import vlib
from vlib import Check, ToolError, log, read_lines, seed, tlc, known_findings

STRICT = ("IdlTrace", "IdlTrace_strict.cfg")
KNOWN = ("IdlTrace", "IdlTrace_known.cfg")


def export_asts(chk, thorough, module="MCIdl", cfgs=("MCIdl_q.cfg", "MCIdl_t.cfg"), name="descriptions"):
    """TLC checks the model-level laws over the enumerated descriptions and exports them."""
    r = tlc(module, cfgs[1] if thorough else cfgs[0], workers=8, timeout=3000, tag=f"{chk.pid}-enum",
            extra=["-seed", str(seed())])
    chk.add_model(r, name)
    if not r.ok:
        chk.violation(f"model {module}: {r.what}", vlib.tlc_counterexample(r.out, 200), f"model-{module}.txt")
    path = chk.wdir("asts.json")
    with open(path, "w") as f:
        for a in r.replays:
            f.write(json.dumps(a) + "\n")
    chk.extra["descriptions_enumerated_by_tlc"] = len(r.replays)
    if not r.replays:
        raise ToolError("TLC exported no descriptions")
    return path


def brief(ev):
    """An event without its token lists (for samples and replays)."""
    return {k: v for k, v in ev.items() if k not in ("toks", "canon")}


def run_zv_idl(chk, args, trace):
    """Run the idl family; a parser that hangs ends the harness with status 3 and leaves the
    offending case in <trace>.hung: that event alone is then handed to TLC."""
    vlib.build("prod")
    for p in (trace + ".hung",):
        if os.path.exists(p):
            os.remove(p)
    cmd = [vlib.zv_path("prod"), "idl"] + [str(a) for a in args] + ["--out", trace]
    p = subprocess.run(cmd, cwd=vlib.ROOT, env=vlib.base_env(), stdout=subprocess.PIPE, stderr=subprocess.STDOUT,
                       text=True, errors="replace", timeout=3600)
    if p.returncode == 3 and os.path.exists(trace + ".hung"):
        with open(trace, "w") as f:
            f.write(json.dumps({"ev": "reset", "sid": "idl"}) + "\n")
            f.write(open(trace + ".hung").read())
        chk.notes.append("the parser did not return within 30 s on one input; only that input is reported")
        return {"cases": 1, "accepted": 0, "by_class": {"hung": 1}, "distinct": 1}
    if p.returncode != 0:
        log(p.stdout[-3000:])
        raise ToolError("harness run failed: zv idl " + " ".join(map(str, args)))
    return json.load(open(trace + ".summary.json"))


def validate_cases(chk, spec, trace, label, family_args):
    """One event per case.  Returns (number rejected, set of ids explained by a known finding)."""
    lines = read_lines(trace)
    rejected = 0
    known_ids = set()
    start = 0
    cur = trace
    n = 0
    while True:
        r = vlib.validate_trace(spec[0], spec[1], cur, tag=f"{chk.pid}-{label}-{n}")
        n += 1
        known_ids.update(re.findall(r'<<"KNOWN", "([^"]+)">>', r.out))
        if r.ok:
            break
        bad = start + r.reject_line - 1
        evn = json.loads(lines[bad])
        rejected += 1
        chk.violation(f"{spec[0]} rejects case {brief(evn)}",
                      {"family": "idl", "variant": "prod", "spec": spec[0], "cfg": spec[1], "case": brief(evn)},
                      f"{label}-{rejected}.json")
        if rejected >= 5 or bad + 1 >= len(lines):
            chk.notes.append(f"{label}: stopped after {rejected} rejections")
            break
        start = bad + 1
        cur = trace + f".rest{n}"
        with open(cur, "w") as f:
            f.write("\n".join(lines[start:]) + "\n")
    return rejected, known_ids


def c13(tier):
    chk = Check("C13", tier)
    thorough = tier == "thorough"
    s = seed()
    chk.rule = ("model: the recursive-descent acceptor Parse of Idl.tla is the inverse of the canonical rendering for every "
                "enumerated description (all type constructors nested three levels, every member kind, comments at every "
                "level, keywords as names), every proper prefix is rejected or is the description of the complete members, "
                "and whenever a one-token deletion / duplication / swap is accepted every token is accounted for; "
                "implementation: each TLC-enumerated description rendered in 5 layouts (tight, conventional, random blanks/"
                "tabs/LF, CR LF, lone CR), grammar-driven random descriptions (0..6 members, type depth 0..4, names over every legal "
                "character class, comment texts containing grammar punctuation and non-ASCII) with random layout, token "
                "deletions / duplications / swaps, illegal and non-ASCII characters, blanks behind ? [] [string], truncation "
                "at every character of whole texts, byte / character / token soup; every text goes through "
                "Interface::try_from under catch_unwind and a watchdog, is lexed independently, and TLC decides accept / "
                "reject and the denoted description; distinct_nontrivial = distinct texts")
    chk.assumptions = ["the lexer of the harness (text -> words, punctuation, comments, other characters; harness/src/idl.rs) "
                       "is trusted; names are classified by the specification from per-character classes",
                       "comments inside nested inline types must be tolerated but are not compared; lexical laxness the "
                       "quantifier does not generate (members on one line, `a__b`) is neither produced nor judged"]
    asts = export_asts(chk, thorough)
    trace = chk.wdir("parse.ndjson")
    args = ["--mode", "parse", "--asts", asts, "--seed", s, "--n", 12000 if thorough else 1500,
            "--trunc", 60 if thorough else 8, "--soup", 12000 if thorough else 1500,
            "--exhaustive-every", 4 if thorough else 40]
    summ = run_zv_idl(chk, args, trace)
    rejected, _ = validate_cases(chk, STRICT, trace, "parse", args)
    chk.evaluations = summ["cases"]
    chk.traces_ok = summ["cases"] - rejected
    chk.nontrivial = summ["distinct"]
    chk.extra["by_class"] = summ["by_class"]
    chk.extra["accepted_by_zlink"] = summ["accepted"]
    for l in read_lines(trace)[1:40:13]:
        chk.samples.append(brief(json.loads(l)))
    return chk.finish()


def c14(tier):
    chk = Check("C14", tier)
    thorough = tier == "thorough"
    s = seed()
    chk.rule = ("model: as C13 (Parse is the inverse of the canonical rendering); implementation: every TLC-enumerated and "
                "grammar-driven random description (comments at interface / member / direct field, parameter and variant "
                "level) is built through the public constructors in the owned and the borrowed form, and also obtained from "
                "zlink's parser; zlink renders it, the text is lexed and TLC checks that it is in the grammar and denotes the "
                "description, that zlink parses it back to an equal description (accessor projection and zlink's own ==), "
                "that rendering the result reproduces the text, and the same through InterfaceDescription serialize -> "
                "deserialize -> parse; distinct_nontrivial = distinct rendered texts")
    chk.assumptions = ["trusted: the harness lexer and the projection of zlink's Interface through its public accessors",
                       "open finding C14-commented-enum-variants-rendered-without-separators is matched by input shape (an "
                       "enum with >= 2 variants, one of them commented) and outcome (text outside the grammar, rejected by "
                       "zlink's parser); anything else about such a description is still judged"]
    asts = export_asts(chk, thorough)
    trace = chk.wdir("render.ndjson")
    args = ["--mode", "render", "--asts", asts, "--seed", s, "--n", 6000 if thorough else 800]
    summ = run_zv_idl(chk, args, trace)
    open_kf = [k for k in known_findings("C14") if k.get("status") == "open"]
    rejected, known_ids = validate_cases(chk, KNOWN if open_kf else STRICT, trace, "render", args)
    chk.evaluations = summ["cases"]
    chk.traces_ok = summ["cases"] - rejected - len(known_ids)
    chk.nontrivial = summ["distinct"]
    chk.extra["by_form"] = summ["by_class"]
    chk.extra["cases_witnessing_known_finding"] = len(known_ids)
    if known_ids and open_kf:
        chk.known(f"{open_kf[0]['what']} (witnessed in {len(known_ids)} cases, e.g. {sorted(known_ids)[0]})")
    for l in read_lines(trace)[1:40:13]:
        chk.samples.append(brief(json.loads(l)))
    return chk.finish()


def replay_idl(pid, path):
    rp = json.load(open(path))
    chk = Check(pid, "quick")
    sc = chk.wdir("replay.case.json")
    with open(sc, "w") as f:
        f.write(json.dumps({"case": rp["case"]}) + "\n")
    trace = chk.wdir("replay.ndjson")
    run_zv_idl(chk, ["--replay", sc] + rp.get("extra_args", []), trace)
    r = vlib.validate_trace(rp["spec"], rp["cfg"], trace, tag=f"{pid}-replay")
    for l in read_lines(trace):
        print(json.dumps(brief(json.loads(l))))
    if not r.ok:
        print(f"VIOLATION property={pid} replay={path}")
        return 1
    print("replay accepted by", rp["spec"])
    return 0
