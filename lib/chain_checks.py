"""C06 (a chain's reply stream yields exactly what is owed) and C11 (borrowed reply data stays intact)."""
import json
import os
import re

from vlib import Check, ToolError, log, read_lines, seed, tlc, validate_all, zv, known_findings
from conn_checks import _model, run_family

STRICT = ("ChainTrace", "ChainTrace_strict.cfg")
KNOWN = ("ChainTrace", "ChainTrace_known.cfg")


def export_chain_behaviours(chk, cfg, name, n):
    r = tlc("MCChainExport", cfg, workers=1, timeout=1800, tag=f"{chk.pid}-cexport-{name}")
    if not r.ok:
        raise ToolError(f"export {cfg} failed: {r.what}")
    chk.states += r.distinct
    chk.transitions += r.generated
    chk.models.append({"config": f"export:{name}", "distinct": r.distinct, "generated": r.generated,
                       "behaviours": len(r.replays), "wall_s": round(r.wall, 1)})
    import random
    rnd = random.Random(seed() * 15485863 + len(r.replays))
    picks = r.replays if (n is None or n >= len(r.replays)) else rnd.sample(r.replays, n)
    path = chk.wdir(f"cbehaviours-{name}.json")
    with open(path, "w") as f:
        for b in picks:
            f.write(json.dumps(b) + "\n")
    chk.extra.setdefault("behaviours_enumerated_by_tlc", 0)
    chk.extra["behaviours_enumerated_by_tlc"] += len(r.replays)
    chk.extra.setdefault("behaviours_replayed", 0)
    chk.extra["behaviours_replayed"] += len(picks)
    return path


def c06(tier):
    chk = Check("C06", tier)
    thorough = tier == "thorough"
    s = seed()
    chk.rule = ("model: every chain of <=3 (<=4) calls over {plain, oneway, more} x every conforming reply script "
                "(<=2 continuing replies) x trailing frames x every grouping of frames into transport reads; "
                "implementation: TLC-enumerated behaviours replayed, all 3^1+..+3^6 flag sequences with seeded "
                "scripts/trailing frames in 5 chunking styles, seeded random chains with production-size replies; "
                "non-trivial = chain with >=2 calls or a streaming call")
    chk.assumptions = [
        "server scripts are conforming (the statement's quantifier); a frame's class and continues flag come from "
        "decoding that frame alone",
        "the consumer drops each item before polling for the next (holding items is C11's subject)",
    ]
    _model(chk, "Chain", "MCChain_b.cfg" if thorough else "MCChain_a.cfg", "b-4calls" if thorough else "a-3calls",
           coverage=True)
    _model(chk, "Chain", "MCChain_pinned.cfg", "pinned-done-false", expect_violation=True)
    beh = export_chain_behaviours(chk, "MCChainExport_t.cfg" if thorough else "MCChainExport_q.cfg",
                                  "t" if thorough else "q", 60000 if thorough else 4000)
    run_family(chk, "chain", "prod", ["--seed", s, "--n", 0, "--behaviours", beh], [STRICT], "tlc-behaviours")
    run_family(chk, "chain", "prod", ["--seed", s, "--n", 6000 if thorough else 600, "--all-flags", 6 if thorough else 5],
               [STRICT], "prod")
    run_family(chk, "chain", "small", ["--seed", s + 1, "--n", 6000 if thorough else 600, "--all-flags", 4],
               [STRICT], "small")
    chk.nontrivial = chk.traces_ok
    return chk.finish()


def _known_sids(out):
    return set(re.findall(r'<<"KNOWN", "([^"]+)">>', out))


def c11(tier):
    chk = Check("C11", tier)
    thorough = tier == "thorough"
    s = seed()
    chk.rule = ("model: Chain with ghost borrows; NoLiveBorrowClobbered holds when items are dropped before the next "
                "poll and fails when they are held (the documented deviation); implementation: chains/streams of "
                "2..6 replies, sizes that do / do not force buffer growth, one read vs. one read per reply vs. cuts "
                "inside replies, every earlier item held while polling on; the bytes each held reference points "
                "to are re-read after every poll; non-trivial = scenario in which >=1 item was held across a poll")
    chk.assumptions = [
        "held items are re-read as raw bytes through the address safe code holds (sizes are small enough that "
        "freed buffers stay mapped)",
    ]
    _model(chk, "Chain", "MCChain_a.cfg", "a-3calls-drop", coverage=thorough)
    open_kf = [k for k in known_findings("C11") if k.get("status") == "open"]
    r = _model(chk, "Chain", "MCChain_hold.cfg", "hold-items", expect_violation=True)
    # implementation
    import vlib
    args = ["--seed", s, "--n", 6000 if thorough else 800, "--all-flags", 5 if thorough else 4, "--hold"]
    cfg = KNOWN if open_kf else STRICT
    wd = chk.wdir()
    for variant, label in (("prod", "hold-prod"), ("small", "hold-small")):
        summ = run_family(chk, "chain", variant, args, [cfg], label)
        chk.extra.setdefault("held_checks", 0)
        chk.extra["held_checks"] += summ.get("held_checks", 0)
        chk.extra.setdefault("held_changed", 0)
        chk.extra["held_changed"] += summ.get("held_changed", 0)
    # which scenarios witnessed the known deviation? (KNOWN lines are printed by the trace spec)
    witnessed = set()
    for variant, label in (("prod", "hold-prod"), ("small", "hold-small")):
        trace = os.path.join(wd, f"{label}.ndjson")
        if chk.violations:
            break
        rr = tlc(cfg[0], cfg[1], workers=1, env_extra={"TRACE": trace}, deque=True, heap="8g",
                 tag=f"C11-known-{label}")
        witnessed |= _known_sids(rr.out)
    chk.extra["scenarios_witnessing_known_finding"] = len(witnessed)
    if witnessed and open_kf:
        chk.known(f"{open_kf[0]['what']} (witnessed in {len(witnessed)} scenarios, e.g. {sorted(witnessed)[0]})")
    chk.nontrivial = chk.traces_ok
    return chk.finish()


def replay_chain(pid, path):
    rp = json.load(open(path))
    chk = Check(pid, "quick")
    sc = os.path.join(chk.wdir(), "replay.scenario.json")
    with open(sc, "w") as f:
        f.write(json.dumps(rp["scenario"]) + "\n")
    trace = os.path.join(chk.wdir(), "replay.ndjson")
    zv(rp.get("variant", "prod"), [rp["family"], "--replay", sc, "--out", trace])
    v = validate_all(rp["spec"], rp["cfg"], trace, tag=f"{pid}-replay")
    for l in read_lines(trace):
        print(l)
    if v.rejected:
        print(f"VIOLATION property={pid} replay={path}")
        return 1
    print("replay accepted by", rp["spec"])
    return 0
