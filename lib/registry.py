"""Property id -> (check function, replay function)."""
import conn_checks

CHECKS = {
    "C01": (conn_checks.c01, conn_checks.replay_framing),
    "C07": (conn_checks.c07, conn_checks.replay_framing),
}
