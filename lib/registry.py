"""Property id -> (check function, replay function)."""
import conn_checks
import write_checks

CHECKS = {
    "C01": (conn_checks.c01, conn_checks.replay_framing),
    "C02": (write_checks.c02, write_checks.replay_writing),
    "C07": (conn_checks.c07, conn_checks.replay_framing),
    "C17": (write_checks.c17, write_checks.replay_writing),
}
