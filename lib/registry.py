"""Property id -> (check function, replay function)."""
import conn_checks
import write_checks
import chain_checks

CHECKS = {
    "C01": (conn_checks.c01, conn_checks.replay_framing),
    "C02": (write_checks.c02, write_checks.replay_writing),
    "C06": (chain_checks.c06, chain_checks.replay_chain),
    "C07": (conn_checks.c07, conn_checks.replay_framing),
    "C11": (chain_checks.c11, chain_checks.replay_chain),
    "C17": (write_checks.c17, write_checks.replay_writing),
}
