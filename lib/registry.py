"""Property id -> (check function, replay function)."""
import conn_checks
import write_checks
import chain_checks
import server_checks
import envelope_checks
import misc_checks
import idl_checks
import gen_checks
import session_checks

CHECKS = {
    "C01": (conn_checks.c01, conn_checks.replay_framing),
    "C02": (write_checks.c02, write_checks.replay_writing),
    "C03": (envelope_checks.c03, envelope_checks.replay_case),
    "C04": (envelope_checks.c04, envelope_checks.replay_case),
    "C05": (envelope_checks.c05, envelope_checks.replay_case),
    "C06": (chain_checks.c06, chain_checks.replay_chain),
    "C07": (conn_checks.c07, conn_checks.replay_framing),
    "C08": (server_checks.c08, server_checks.replay_server),
    "C09": (server_checks.c09, server_checks.replay_server),
    "C10": (server_checks.c10, server_checks.replay_server),
    "C11": (chain_checks.c11, chain_checks.replay_chain),
    "C12": (gen_checks.c12, gen_checks.replay_proxy),
    "C13": (idl_checks.c13, idl_checks.replay_idl),
    "C14": (idl_checks.c14, idl_checks.replay_idl),
    "C15": (gen_checks.c15, gen_checks.replay_codegen),
    "C16": (gen_checks.c16, gen_checks.replay_introspect),
    "C17": (write_checks.c17, write_checks.replay_writing),
    "C18": (server_checks.c18, server_checks.replay_server),
    "C19": (misc_checks.c19, misc_checks.replay_generic),
    "E2E": (session_checks.e2e, session_checks.replay),
    "C20": (misc_checks.c20, misc_checks.replay_generic),
}
