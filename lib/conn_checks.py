"""C01, C07, C17 (inbound): ReadConn / Framing."""
import json
import os

from vlib import (Check, ToolError, log, read_lines, sample_lines, seed, tlc, tlc_counterexample,
                  validate_all, zv, ROOT)


def _model(chk, module, cfg, name, coverage=False, workers=8, expect_violation=False, timeout=3600):
    r = tlc(module, cfg, workers=workers, coverage=coverage, timeout=timeout, tag=f"{chk.pid}-{name}")
    chk.add_model(r, name)
    if expect_violation:
        # vacuity check: the documented deviation of the pinned code must be caught by the model
        if r.ok:
            raise ToolError(f"{name}: the model with the pinned deviation was expected to violate "
                            f"the property but TLC found no error (vacuous property?)")
        chk.notes.append(f"vacuity: {name} violates {r.what} as expected")
        return r
    if not r.ok:
        chk.violation(f"model {name}: {r.what} violated", tlc_counterexample(r.out, 200), f"model-{name}.txt")
    elif coverage:
        never = [k for k, v in r.coverage.items() if v[1] == 0 and "!" in k]
        if never:
            raise ToolError(f"{name}: actions never taken: {never}")
    return r


def run_family(chk, family, variant, args, trace_specs, label, drift_specs=(), replay_extra=None):
    """Run harness scenarios, validate the trace with the property-level trace spec(s) (verdict)
    and with the implementation-level one(s) (drift only)."""
    wd = chk.wdir()
    trace = os.path.join(wd, f"{label}.ndjson")
    scen = os.path.join(wd, f"{label}.scenarios.json")
    zv(variant, [family] + args + ["--out", trace, "--dump-scenarios", scen])
    summ = json.load(open(trace + ".summary.json"))
    scen_lines = read_lines(scen)
    chk.evaluations += len(scen_lines)
    if not chk.samples:
        chk.samples.extend(json.loads(l) for l in scen_lines[:2])
    elif len(chk.samples) < 6 and scen_lines:
        chk.samples.append(json.loads(scen_lines[len(scen_lines) // 2]))
    rejected_sids = set()
    for (module, cfg) in trace_specs:
        v = validate_all(module, cfg, trace, tag=f"{chk.pid}-{label}-{module}")
        chk.traces_ok += v.accepted
        for rj in v.rejected:
            sc = json.loads(scen_lines[rj["index"]]) if rj["index"] < len(scen_lines) else None
            replay = {"family": family, "variant": variant, "spec": module, "cfg": cfg,
                      "scenario": sc, "rejected_event_index": rj["at"], "rejected_event": rj["event"],
                      "trace": [json.loads(x) for x in rj["trace"]][: rj["at"] + 3]}
            if replay_extra:
                replay.update(replay_extra)
            name = f"{label}-{rj['sid']}.json".replace("/", "_")
            chk.violation(f"{module} rejects scenario {rj['sid']} at event {rj['at']}: {rj['event']}",
                          replay, name)
            rejected_sids.add(rj["sid"])
        if v.truncated:
            chk.notes.append(f"{label}: more rejections suppressed after {len(v.rejected)}")
    for (module, cfg) in drift_specs:
        v = validate_all(module, cfg, trace, tag=f"{chk.pid}-{label}-{module}", max_rejects=1)
        chk.extra.setdefault("impl_level_traces_ok", 0)
        chk.extra["impl_level_traces_ok"] += v.accepted
        for rj in v.rejected:
            d = {"spec": module, "label": label, "sid": rj["sid"], "event": rj["event"]}
            chk.drift.append(d)
            log(f"MODEL-DRIFT {chk.pid}: {module} cannot follow scenario {rj['sid']} at {rj['event']} "
                f"(the implementation-shaped model no longer describes the code; not a verdict)")
    return summ


def export_behaviours(chk, cfg, name, n, timeout=1800):
    """TLC enumerates complete ReadConn behaviours; a seeded sample of n is replayed."""
    r = tlc("MCReadConnExport", cfg, workers=1, timeout=timeout, tag=f"{chk.pid}-export-{name}")
    if not r.ok:
        raise ToolError(f"export {cfg} failed: {r.what}")
    chk.states += r.distinct
    chk.transitions += r.generated
    chk.models.append({"config": f"export:{name}", "distinct": r.distinct, "generated": r.generated,
                       "behaviours": len(r.replays), "wall_s": round(r.wall, 1)})
    import random
    rnd = random.Random(seed() * 7919 + len(r.replays))
    picks = r.replays if (n is None or n >= len(r.replays)) else rnd.sample(r.replays, n)
    path = chk.wdir(f"behaviours-{name}.json")
    with open(path, "w") as f:
        for b in picks:
            f.write(json.dumps({"frames": b["frames"], "steps": b["steps"]}) + "\n")
    chk.extra.setdefault("behaviours_enumerated_by_tlc", 0)
    chk.extra["behaviours_enumerated_by_tlc"] += len(r.replays)
    chk.extra.setdefault("behaviours_replayed", 0)
    chk.extra["behaviours_replayed"] += len(picks)
    return path, len(r.replays) == len(picks)


FT = ("FramingTrace", "FramingTrace.cfg")
RT = ("ReadConnTrace", "ReadConnTrace.cfg")


def c01(tier):
    chk = Check("C01", tier)
    thorough = tier == "thorough"
    s = seed()
    chk.rule = ("model: every sequence of <=2 (<=3) frames x every partition into reads x every "
                "cancel point, B=4; implementation: TLC-enumerated behaviours replayed byte-exactly "
                "(tiny build B=4/MAXB=8), all single/double cut positions of short streams, seeded "
                "random frame sequences/chunkings at production constants and B=16; a scenario is "
                "non-trivial when it has >=2 frames or a frame cut across reads")
    chk.assumptions = [
        "expected result of a frame = serde_json decoding that frame alone (the statement's own definition)",
        "a frame that holds nothing but JSON whitespace owes one error result of its own; zlink reports it with "
        "its end-of-stream variant, which is tolerated for exactly these frames (Framing acls)",
    ]
    _model(chk, "MCReadConn", "MCReadConn_a.cfg", "a-2frames-body9", coverage=thorough)
    _model(chk, "MCReadConn", "MCReadConn_c.cfg", "c-limit8", coverage=thorough)
    if thorough:
        _model(chk, "MCReadConn", "MCReadConn_b.cfg", "b-3frames-body3", coverage=True)
        _model(chk, "MCReadConn", "MCReadConn_pinned.cfg", "pinned-byte_offset", expect_violation=True)
    # spec -> implementation
    beh, full = export_behaviours(chk, "MCReadConnExport_q2.cfg", "q2", None if thorough else 4000)
    run_family(chk, "framing", "tiny", ["--seed", s, "--n", 0, "--behaviours", beh], [FT], "tlc-behaviours",
               drift_specs=[RT])
    run_family(chk, "framing", "tiny", ["--seed", s, "--n", 0, "--tiny", 20000 if thorough else 2500],
               [FT], "tiny-random", drift_specs=[RT])
    # implementation -> spec, production constants and B=16
    run_family(chk, "framing", "prod", ["--seed", s, "--n", 12000 if thorough else 1200,
                                         "--cuts", 12 if thorough else 2], [FT], "prod-random")
    run_family(chk, "framing", "small", ["--seed", s + 1, "--n", 12000 if thorough else 1200,
                                          "--cuts", 6 if thorough else 1], [FT], "small-random")
    chk.nontrivial = chk.traces_ok
    return chk.finish()


def c07(tier):
    chk = Check("C07", tier)
    thorough = tier == "thorough"
    s = seed()
    chk.rule = ("model: ReadConn with Cancel enabled at the only await, every frame sequence x "
                "partition x cancel placement in scope; implementation: TLC-enumerated behaviours with "
                "<=2 cancels replayed byte-exactly, seeded random scenarios where a pending receive is "
                "dropped at a third of its suspensions; non-trivial = scenario with >=1 cancel")
    chk.assumptions = ["the scripted read half is itself cancel safe (it keeps undelivered bytes queued)"]
    _model(chk, "MCReadConn", "MCReadConn_a.cfg", "a-2frames-body9", coverage=thorough)
    if thorough:
        _model(chk, "MCReadConn", "MCReadConn_b.cfg", "b-3frames-body3", coverage=True)
        _model(chk, "MCReadConn", "MCReadConn_c.cfg", "c-limit8", coverage=True)
    beh, full = export_behaviours(chk, "MCReadConnExport_q1t.cfg" if thorough else "MCReadConnExport_q1.cfg", "q1",
                                  60000 if thorough else 5000)
    run_family(chk, "framing", "tiny", ["--seed", s, "--n", 0, "--behaviours", beh, "--cancels"], [FT],
               "tlc-behaviours", drift_specs=[RT])
    run_family(chk, "framing", "tiny", ["--seed", s, "--n", 0, "--tiny", 20000 if thorough else 2500,
                                         "--cancels"], [FT], "tiny-random", drift_specs=[RT])
    summ = run_family(chk, "framing", "prod", ["--seed", s, "--n", 12000 if thorough else 1500, "--cancels"],
                      [FT], "prod-random")
    chk.extra["cancels_executed"] = summ.get("cancels")
    run_family(chk, "framing", "small", ["--seed", s + 1, "--n", 12000 if thorough else 1000, "--cancels"],
               [FT], "small-random")
    # the server's select loop drops every pending receive whenever any of its arms completes: calls of
    # several connections that are readable at the same moment, in pieces, must all reach the service once
    run_family(chk, "server", "prod", ["--seed", s + 2, "--n", 6000 if thorough else 800, "--mode", "healthy"],
               [("ServerTrace", "ServerTrace.cfg")], "server-loop")
    chk.nontrivial = chk.traces_ok
    return chk.finish()


def replay_framing(pid, path):
    rp = json.load(open(path))
    chk = Check(pid, "quick")
    sc = os.path.join(chk.wdir(), "replay.scenario.json")
    with open(sc, "w") as f:
        f.write(json.dumps(rp["scenario"]) + "\n")
    trace = os.path.join(chk.wdir(), "replay.ndjson")
    zv(rp.get("variant", "prod"), [rp["family"], "--replay", sc, "--out", trace])
    v = validate_all(rp["spec"], rp["cfg"], trace, tag=f"{pid}-replay")
    for l in read_lines(trace):
        print(l)
    if v.rejected:
        print(f"VIOLATION property={pid} replay={path}")
        return 1
    print("replay accepted by", rp["spec"])
    return 0
