"""C08, C09, C10, C18: Server::run under a hand-polled executor; Server.tla / ServerTrace.tla."""
import json
import os

from vlib import Check, ToolError, log, read_lines, seed, tlc, validate_all, zv
import vlib
from conn_checks import _model, run_family

ST = ("ServerTrace", "ServerTrace.cfg")


def export_server_behaviours(chk, cfg, name, n):
    r = tlc("MCServerExport", cfg, workers=1, timeout=2400, tag=f"{chk.pid}-sexport-{name}",
            simulate=f"num={n}", extra=["-depth", "150", "-seed", str(seed())])
    if not r.ok:
        raise ToolError(f"export {cfg} failed: {r.what}")
    chk.states += r.distinct
    chk.transitions += r.generated
    chk.models.append({"config": f"export:{name}", "distinct": r.distinct, "generated": r.generated,
                       "behaviours": len(r.replays), "wall_s": round(r.wall, 1)})
    import random
    rnd = random.Random(seed() * 32452843 + len(r.replays))
    picks = r.replays if (n is None or n >= len(r.replays)) else rnd.sample(r.replays, n)
    path = chk.wdir(f"sbehaviours-{name}.json")
    with open(path, "w") as f:
        for b in picks:
            f.write(json.dumps(b) + "\n")
    chk.extra.setdefault("behaviours_enumerated_by_tlc", 0)
    chk.extra["behaviours_enumerated_by_tlc"] += len(r.replays)
    chk.extra.setdefault("behaviours_replayed", 0)
    chk.extra["behaviours_replayed"] += len(picks)
    return path


def _models(chk, thorough, which):
    for cfg, name, cov in which:
        _model(chk, "MCServer", cfg, name, coverage=cov)


def c08(tier):
    chk = Check("C08", tier)
    thorough = tier == "thorough"
    s = seed()
    chk.rule = ("model: Server loop with 2 (3) connections x scripts of plain/oneway/error calls, bursts and cuts "
                "inside frames x all interleavings of connects, byte arrivals and loop iterations; implementation: "
                "TLC-exported behaviours replayed, seeded random scenarios with 1..4 connections x 0..5 calls; "
                "every execution validated by TLC against ServerTrace; non-trivial = scenario with >=2 calls")
    chk.assumptions = ["replies carry (connection, call#) in their parameters so misdelivery is observable",
                       "the scripted service suspends once per call so the environment can act between served calls"]
    _model(chk, "MCServer", "MCServer_c08.cfg", "2conns-plain-oneway-error", coverage=True)
    _model(chk, "MCServer", "MCServer_oneway.cfg", "pinned-reply-to-oneway", expect_violation=True)
    if thorough:
        _model(chk, "MCServer", "MCServer_c08_3.cfg", "3conns", coverage=True)
    beh = export_server_behaviours(chk, "MCServerExport_c08.cfg", "c08", 20000 if thorough else 1500)
    run_family(chk, "server", "prod", ["--seed", s, "--n", 0, "--behaviours", beh], [ST], "tlc-behaviours")
    run_family(chk, "server", "prod", ["--seed", s, "--n", 8000 if thorough else 1200, "--mode", "healthy"], [ST], "healthy")
    run_family(chk, "server", "prod", ["--seed", s + 3, "--n", 4000 if thorough else 600, "--mode", "wfault"], [ST], "wfault")
    run_family(chk, "server", "prod", ["--seed", s + 6, "--n", 4000 if thorough else 600, "--mode", "badcall"], [ST], "badcall")
    run_family(chk, "server", "small", ["--seed", s + 1, "--n", 4000 if thorough else 600, "--mode", "healthy"], [ST],
               "healthy-small")
    chk.nontrivial = chk.traces_ok
    return chk.finish()


def c09(tier):
    chk = Check("C09", tier)
    thorough = tier == "thorough"
    s = seed()
    chk.rule = ("model: Server with a designated faulty connection (undecodable call, disconnect at any point) next "
                "to healthy ones, all interleavings; implementation: seeded scenarios with 2..4 connections of which "
                "1..2 are faulty (EOF mid-burst / mid-frame, read error, write error on the k-th write, unknown method, "
                "wrong parameter types, garbage bytes) x random interleavings; ServerTrace demands that only faulty "
                "connections are ever closed, the server future never returns, and every healthy connection gets "
                "exactly what its own script is owed; non-trivial = every scenario (each contains a fault)")
    chk.assumptions = ["what a healthy connection is owed depends on its own script only (the scripted service is a "
                       "function of the call)"]
    _model(chk, "MCServer", "MCServer_c09.cfg", "faulty+healthy", coverage=True)
    beh = export_server_behaviours(chk, "MCServerExport_c09.cfg", "c09", 20000 if thorough else 1500)
    run_family(chk, "server", "prod", ["--seed", s, "--n", 0, "--behaviours", beh], [ST], "tlc-behaviours")
    run_family(chk, "server", "prod", ["--seed", s, "--n", 10000 if thorough else 1500, "--mode", "faulty"], [ST], "faulty")
    run_family(chk, "server", "small", ["--seed", s + 1, "--n", 5000 if thorough else 700, "--mode", "faulty"], [ST],
               "faulty-small")
    chk.nontrivial = chk.traces_ok
    return chk.finish()


def c10(tier):
    chk = Check("C10", tier)
    thorough = tier == "thorough"
    s = seed()
    chk.rule = ("model: Server with streaming calls (0..2 items) and calls pipelined behind them on 2 connections, "
                "stream items released at arbitrary moments; implementation: seeded scenarios with streams of 0..4 "
                "items (last item final or not), plain calls before/behind, other connections calling meanwhile, "
                "write failure at any stream item on a faulty connection; non-trivial = scenario with a stream")
    chk.assumptions = ["stream items are released by the driver (tick) at arbitrary moments; all streams eventually end"]
    _model(chk, "MCServer", "MCServer_c10.cfg", "streams", coverage=True)
    beh = export_server_behaviours(chk, "MCServerExport_c10.cfg", "c10", 20000 if thorough else 1500)
    run_family(chk, "server", "prod", ["--seed", s, "--n", 0, "--behaviours", beh], [ST], "tlc-behaviours")
    run_family(chk, "server", "prod", ["--seed", s, "--n", 8000 if thorough else 1200, "--mode", "streams"], [ST], "streams")
    run_family(chk, "server", "prod", ["--seed", s + 4, "--n", 4000 if thorough else 600, "--mode", "hotstream"], [ST], "hotstream")
    run_family(chk, "server", "prod", ["--seed", s + 5, "--n", 4000 if thorough else 600, "--mode", "manystreams"], [ST], "manystreams")
    run_family(chk, "server", "prod", ["--seed", s + 2, "--n", 6000 if thorough else 900, "--mode", "faulty"], [ST],
               "streams-faulty")
    chk.nontrivial = chk.traces_ok
    return chk.finish()


def c18(tier):
    chk = Check("C18", tier)
    thorough = tier == "thorough"
    s = seed()
    chk.rule = ("model: Server with fairness history variables: FairWindow (no connection served twice while another "
                "has been continuously ready and the connection set is unchanged) and FairBound, 3 connections "
                "(flooder, single-call clients, stream transitions), all interleavings; the model mutant "
                "start=lastCall must violate FairWindow; implementation: flooders with whole calls buffered next to "
                "single-call clients arriving at arbitrary moments, with and without stream transitions, and mixed roles "
                "(flooders, single-call clients, clients that open a stream and then stay silent) connecting and sending in any "
                "order; the order "
                "in which calls reach the service is validated by TLC against the same counters in ServerTrace; "
                "non-trivial = every scenario (>=2 connections, one flooding)")
    chk.assumptions = ["'has had a complete call waiting' = the call's bytes were fully available and the connection "
                       "accepted; calls are injected as whole frames in these scenarios"]
    _model(chk, "MCServer", "MCServer_c18.cfg", "fairness-3conns", coverage=True)
    _model(chk, "MCServer", "MCServer_c18_mutant.cfg", "mutant-start-eq-last", expect_violation=True)
    # the round robin on its own, readiness and changes of the connection vector unconstrained: 4 (5) connections
    _model(chk, "RoundRobinSet", "RoundRobinSet_t.cfg" if thorough else "RoundRobinSet_q.cfg", "round-robin-any-readiness")
    _model(chk, "RoundRobinSet", "RoundRobinSet_same.cfg", "round-robin-mutant-start-eq-last", expect_violation=True)
    _model(chk, "RoundRobinSet", "RoundRobinSet_vac.cfg", "round-robin-waits-across-transitions-reachable", expect_violation=True)
    # ... and, while the vector is unchanged, for ANY number of connections (TLAPS proof + TLC sanity of the same module)
    vlib.tlaps_proof(chk, "RoundRobin")
    _model(chk, "proofs/RoundRobin", "proofs/RoundRobin_tlc.cfg", "round-robin-proof-module-n5")
    _model(chk, "proofs/RoundRobin", "proofs/RoundRobin_vac.cfg", "round-robin-proof-module-armed-reachable", expect_violation=True)
    run_family(chk, "server", "prod", ["--seed", s, "--n", 10000 if thorough else 1500, "--mode", "fair"], [ST], "fair")
    run_family(chk, "server", "prod", ["--seed", s + 1, "--n", 10000 if thorough else 1500, "--mode", "fairtrans"], [ST],
               "fair-transitions")
    run_family(chk, "server", "prod", ["--seed", s + 2, "--n", 10000 if thorough else 1500, "--mode", "fairmixed"], [ST],
               "fair-mixed-roles")
    # several hundred connections open at once (a flooder in a slot beyond 256, waiting clients before and behind it)
    run_family(chk, "server", "prod", ["--seed", s + 3, "--n", 8 if thorough else 2, "--mode", "fairwide"], [ST],
               "fair-wide")
    chk.nontrivial = chk.traces_ok
    return chk.finish()


def replay_server(pid, path):
    rp = json.load(open(path))
    chk = Check(pid, "quick")
    sc = os.path.join(chk.wdir(), "replay.scenario.json")
    with open(sc, "w") as f:
        f.write(json.dumps(rp["scenario"]) + "\n")
    trace = os.path.join(chk.wdir(), "replay.ndjson")
    zv(rp.get("variant", "prod"), [rp["family"], "--replay", sc, "--out", trace])
    v = validate_all(rp["spec"], rp["cfg"], trace, tag=f"{pid}-replay")
    for l in read_lines(trace):
        print(l)
    if v.rejected:
        print(f"VIOLATION property={pid} replay={path}")
        return 1
    print("replay accepted by", rp["spec"])
    return 0
