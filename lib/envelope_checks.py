"""C04 (reply classification) and C05 (envelopes): ReplyClassify / Envelope specs."""
import json
import os

from vlib import Check, ToolError, log, read_lines, seed, tlc, validate_all, zv
from conn_checks import _model

CT = ("ClassifyTrace", "ClassifyTrace.cfg")


def _run_cases(chk, family, variant, args, spec, label, unit="case"):
    """Families whose trace is one event per case (no scenarios): validate the whole file; on a
    rejection report the rejected case and continue behind it."""
    wd = chk.wdir()
    trace = os.path.join(wd, f"{label}.ndjson")
    scen = os.path.join(wd, f"{label}.cases.json")
    zv(variant, [family] + args + ["--out", trace, "--dump-scenarios", scen])
    summ = json.load(open(trace + ".summary.json"))
    lines = read_lines(trace)
    ncases = sum(1 for l in lines if (f'"ev":"{unit}"' in l) or (not unit and '"ev":"reset"' not in l and '"ev":"end"' not in l))
    chk.evaluations += ncases
    if len(chk.samples) < 4:
        chk.samples.extend(json.loads(l) for l in lines[1:3])
    import vlib
    rejected = 0
    start = 0
    cur = trace
    n = 0
    while True:
        r = vlib.validate_trace(spec[0], spec[1], cur, tag=f"{chk.pid}-{label}-{n}")
        n += 1
        if r.ok:
            break
        bad = start + r.reject_line - 1
        ev = json.loads(lines[bad])
        rejected += 1
        chk.violation(f"{spec[0]} rejects case {ev}", {"family": family, "variant": variant, "spec": spec[0],
                                                      "cfg": spec[1], "case": ev}, f"{label}-{rejected}.json")
        if rejected >= 5 or bad + 1 >= len(lines):
            chk.notes.append(f"{label}: stopped after {rejected} rejections")
            break
        start = bad + 1
        cur = trace + f".rest{n}"
        with open(cur, "w") as f:
            f.write("\n".join(lines[start:]) + "\n")
    chk.traces_ok += ncases - rejected
    return summ


def c04(tier):
    chk = Check("C04", tier)
    thorough = tier == "thorough"
    s = seed()
    chk.rule = ("model: the decision table over all possible combinations of the five isolated observations "
                "(json, hasError, std, usr, rep): total, the code's three-way decode conforms, never success with an "
                "error member; the pinned permissive arm violates it; implementation: systematic corpus (18 error "
                "names x 18 parameter spellings x member orders x extra members, success frames, non-objects, "
                "duplicates) plus seeded recombinations x 6 (parameter type, error type) targets x receive_reply and "
                "call_method; distinct_nontrivial = cases whose frame has an `error` member")
    chk.assumptions = ["the five observations are isolated serde_json decodes of the frame (DESIGN 2.5)"]
    _model(chk, "ReplyClassify", "ReplyClassify.cfg", "table", coverage=False)
    _model(chk, "ReplyClassify", "ReplyClassify_pinned.cfg", "pinned-permissive", expect_violation=True)
    summ = _run_cases(chk, "classify", "prod", ["--seed", s, "--n", 20000 if thorough else 1500], CT, "corpus")
    chk.extra["by_outcome"] = summ["by_outcome"]
    chk.nontrivial = summ["has_error_cases"]
    chk.exhaustive = False
    return chk.finish()


ET = ("EnvelopeTrace", "EnvelopeTrace.cfg")


def c05(tier):
    chk = Check("C05", tier)
    thorough = tier == "thorough"
    s = seed()
    chk.rule = ("model: the call laws (decode o any placement of flags/unknown members o encode = id, flags hidden, "
                "others pass through in order, encode shape) over all 8 flag sets x explicit-false flags x all insertion "
                "positions x 4 own-member shapes; implementation: Call<M> for 5 method types (owned/borrowed adjacently "
                "tagged enums, flat and strict structs) x 8 flag sets x seeded member orders/extras; 3 error enums incl. "
                "the standard service errors x every variant x member orders x extras x {absent,null,{}}; Reply<T> "
                "encodings/decodings; the no-parameter spellings at 4 call sites (std method, std errors incl. via "
                "receive_reply, derive unit variants, unit-output proxy methods); non-trivial = every case (all distinct)")
    chk.assumptions = ["member order is read from the JSON text; decoding the method type alone on the members minus the "
                       "flags is the reference for what the envelope must pass through"]
    _model(chk, "MCEnvelope", "MCEnvelope.cfg", "call-laws", coverage=False)
    summ = _run_cases(chk, "envelope", "prod", ["--seed", s, "--n", 40 if thorough else 4], ET, "corpus", unit="")
    chk.evaluations = summ["cases"]
    chk.traces_ok = summ["cases"] - len(chk.violations)
    chk.nontrivial = chk.traces_ok
    return chk.finish()


JT = ("JsonSerTrace", "JsonSerTrace.cfg")


def c03(tier):
    import re
    chk = Check("C03", tier)
    thorough = tier == "thorough"
    s = seed()
    chk.rule = ("model: Encode over the serde data model (13 atoms; every composite kind over <=2 children, three levels, "
                "deeper pools seeded random subsets): the text is balanced; every enumerated tree is instantiated as a "
                "dynamic serde value and encoded by zlink with every buffer length 0..=len+2 and through send_error at 4 "
                "buffer fill levels; TLC checks text = Encode(tree), refusal exactly for never-class keys, identity with "
                "serde_json, free-space independence; plus seeded random trees, every Unicode scalar as string/key/char "
                "(run-length encoded, TLC checks EscapeOf over each range), all 8/16-bit integers, boundary/random wide "
                "integers and floats (thorough: all f32 bit patterns) against the reference formatter; "
                "distinct_nontrivial = distinct trees with at least one composite node")
    chk.assumptions = ["number atoms (floats, 64/128-bit integers) are compared with serde_json / Rust's formatter inside "
                       "the harness; TLC checks structure, quoting, escaping and buffer-size independence",
                       "non-ASCII bytes are written as <hex> in both the specification's text and the projection"]
    r = tlc("MCJsonSer", "MCJsonSer_t.cfg" if thorough else "MCJsonSer_q.cfg", workers=1, timeout=1800,
            tag="C03-enum", extra=["-seed", str(s)])
    if not r.ok:
        chk.violation(f"model MCJsonSer: {r.what}", r.out[-3000:], "model-jsonser.txt")
    chk.add_model(r, "value-trees")
    trees = chk.wdir("trees.json")
    with open(trees, "w") as f:
        for t in r.replays:
            f.write(json.dumps(t) + "\n")
    chk.extra["trees_enumerated_by_tlc"] = len(r.replays)
    args = ["--seed", s, "--n", 20000 if thorough else 2000, "--trees", trees, "--sweep", "--numbers"]
    if thorough:
        args.append("--all-f32")
    summ = _run_cases(chk, "jsonser", "prod", args, JT, "corpus", unit="tree")
    chk.evaluations = summ["trees"] + summ["scalars"] + summ["atoms"]
    chk.extra.update({"buffer_sizes_tried": summ["sizes_tried"], "unicode_scalars_swept_x3": summ["scalars"],
                      "atoms_checked_against_reference": summ["atoms"]})
    lines = read_lines(os.path.join(chk.wdir(), "corpus.ndjson"))
    distinct = set(l for l in lines if '"ev":"tree"' in l and ('"items"' in l or '"entries"' in l or '"fields"' in l or '"v":{"t"' in l))
    chk.nontrivial = len(distinct)
    return chk.finish()


def replay_case(pid, path):
    rp = json.load(open(path))
    chk = Check(pid, "quick")
    sc = os.path.join(chk.wdir(), "replay.cases.json")
    with open(sc, "w") as f:
        f.write(json.dumps({"family": rp["family"], "frame": rp["case"].get("frame_full", rp["case"].get("frame", "")),
                            "v": rp["case"].get("v", {"t": "null"})}) + "\n")
    trace = os.path.join(chk.wdir(), "replay.ndjson")
    zv(rp.get("variant", "prod"), [rp["family"], "--replay", sc, "--out", trace])
    import vlib
    r = vlib.validate_trace(rp["spec"], rp["cfg"], trace, tag=f"{pid}-replay")
    for l in read_lines(trace):
        print(l)
    if not r.ok:
        print(f"VIOLATION property={pid} replay={path}")
        return 1
    print("replay accepted by", rp["spec"])
    return 0
