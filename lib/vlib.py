"""Shared driver code for /verif/bin/check.

Verdicts come from TLC only: either an invariant / property of a model configuration, or the
rejection of a trace recorded from the real code by a trace specification.  This module runs
TLC, builds and runs the Rust harness, cuts traces into scenarios, writes replays and evidence.

Exit codes of a check: 0 held, 1 violation (with a VIOLATION line), 2 tool error.
"""
import json
import os
import re
import shutil
import subprocess
import sys
import time

ROOT = os.path.dirname(os.path.dirname(os.path.abspath(__file__)))
SPECS = os.path.join(ROOT, "specs")
WORK = os.path.join(ROOT, "work")
HARNESS = os.path.join(ROOT, "harness")
REPO = "/repo"

VARIANTS = {
    # name: (target dir, env)
    "prod": ("target", {}),
    "tiny": ("target-tiny", {"ZLINK_VERIF_BUFFER_SIZE": "4", "ZLINK_VERIF_MAX_BUFFER_SIZE": "12"}),
    "small": ("target-small", {"ZLINK_VERIF_BUFFER_SIZE": "16", "ZLINK_VERIF_MAX_BUFFER_SIZE": "528"}),
}


class ToolError(Exception):
    pass


def log(*a):
    print(*a, file=sys.stderr, flush=True)


def seed():
    try:
        return int(os.environ.get("VERIF_SEED", "1"))
    except ValueError:
        return 1


TLAPS_LIB = "/opt/veriftools/tlapm/lib/tlapm/stdlib"


def base_env():
    env = dict(os.environ)
    env["CARGO_NET_OFFLINE"] = "true"
    return env


# --------------------------------------------------------------------------- harness

_built = set()


def build(variant="prod"):
    """(Re)build the harness against /repo's current working tree."""
    if variant in _built:
        return
    tdir, extra = VARIANTS[variant]
    env = base_env()
    env.update(extra)
    t0 = time.time()
    p = subprocess.run(
        ["cargo", "build", "--release", "--offline", "--target-dir", tdir],
        cwd=HARNESS, env=env, stdout=subprocess.PIPE, stderr=subprocess.STDOUT, text=True, errors="replace")
    if p.returncode != 0:
        log(p.stdout[-6000:])
        raise ToolError(f"harness build failed ({variant})")
    log(f"[build] {variant} ok in {time.time()-t0:.1f}s")
    _built.add(variant)


def zv_path(variant="prod"):
    if variant == "prod" and os.environ.get("VERIF_ZV_BIN"):
        return os.environ["VERIF_ZV_BIN"]     # bin/coverage: a coverage-instrumented build of the same sources
    return os.path.join(HARNESS, VARIANTS[variant][0], "release", "zv")


def _recover_hung(args):
    """The harness's watchdog ended the run (status 3): the code under test made no progress for 30 s inside
    one scenario (a busy loop inside a poll, a dead-lock).  Rebuild the trace: everything up to the scenario
    in progress is on disk, the events of that scenario plus a final `hung` event are in <out>.hung.  No
    trace specification has a disjunct for `hung`, so TLC rejects exactly that scenario."""
    args = [str(a) for a in args]
    if "--out" not in args:
        return False
    out = args[args.index("--out") + 1]
    hung = out + ".hung"
    if not os.path.exists(hung):
        return False
    hl = [l for l in open(hung).read().split("\n") if l.strip()]
    disk = [l for l in open(out, errors="replace").read().split("\n") if l.strip()] if os.path.exists(out) else []
    # drop a torn last line and whatever the disk already holds of the scenario in progress
    if disk:
        try:
            json.loads(disk[-1])
        except Exception:
            disk.pop()
    if hl and hl[0] in disk:
        disk = disk[:disk.index(hl[0])]
    with open(out, "w") as f:
        f.write("\n".join(disk + hl) + "\n")
    os.remove(hung)
    nscen = sum(1 for l in disk + hl if '"ev":"reset"' in l)
    with open(out + ".summary.json", "w") as f:
        json.dump({"hung": True, "scenarios": nscen, "events": len(disk) + len(hl), "cases": nscen, "trees": 0, "scalars": 0,
                   "atoms": 0, "sizes_tried": 0, "frames": 0, "by_outcome": {}, "has_error_cases": 0}, f)
    # the scenario dump may list scenarios that were never run: cut it to those that were
    if "--dump-scenarios" in args:
        dp = args[args.index("--dump-scenarios") + 1]
        if os.path.exists(dp):
            dl = open(dp).read().split("\n")
            with open(dp, "w") as f:
                f.write("\n".join(dl[:max(nscen, 1)]) + "\n")
    log(f"[zv] the code under test made no progress for 30 s: scenario #{nscen} recorded as hung")
    return True


def zv(variant, args, timeout=1800):
    build(variant)
    t0 = time.time()
    exe = zv_path(variant)
    p = subprocess.run([exe] + [str(a) for a in args], cwd=ROOT, env=base_env(),
                       stdout=subprocess.PIPE, stderr=subprocess.STDOUT, text=True, errors="replace", timeout=timeout)
    if p.returncode == 3 and _recover_hung(args):
        return p.stdout
    if p.returncode != 0:
        log(p.stdout[-4000:])
        raise ToolError(f"harness run failed: zv {' '.join(map(str, args))}")
    log(f"[zv:{variant}] {' '.join(map(str, args[:6]))} ... {time.time()-t0:.1f}s")
    return p.stdout


# --------------------------------------------------------------------------- TLC

class TlcResult:
    def __init__(self):
        self.ok = False           # finished with no error
        self.violated = False     # invariant / property / postcondition violated
        self.what = ""            # name of the violated thing
        self.generated = 0
        self.distinct = 0
        self.depth = 0
        self.out = ""
        self.reject_line = None
        self.reject_event = None
        self.coverage = {}
        self.wall = 0.0
        self.replays = []


def tlc(module, cfg, workers=8, env_extra=None, timeout=3600, simulate=None, coverage=False,
        deque=False, tag=None, heap=None, extra=None, depth_first=False):
    tag = tag or f"{module}-{os.path.basename(cfg)}-{os.getpid()}"
    metadir = os.path.join(WORK, "tlc", tag)
    shutil.rmtree(metadir, ignore_errors=True)
    os.makedirs(metadir, exist_ok=True)
    env = base_env()
    jopts = ["-Xss1g"]
    if os.path.isdir(TLAPS_LIB):
        jopts.append(f"-DTLA-Library={TLAPS_LIB}")       # TLAPS.tla for the modules under specs/proofs
    if deque:
        jopts.append("-Dtlc2.tool.queue.IStateQueue=StateDeque")
    if heap:
        jopts.append(f"-Xmx{heap}")
    env["JAVA_TOOL_OPTIONS"] = " ".join(jopts)
    if env_extra:
        env.update(env_extra)
    cmd = ["timeout", str(timeout), "tlc", "-workers", str(workers), "-metadir", metadir, "-cleanup",
           "-noGenerateSpecTE"]
    if coverage:
        cmd += ["-coverage", "1"]
    if simulate:
        cmd += ["-simulate", simulate]
    if extra:
        cmd += extra
    cwd = SPECS
    if "/" in module:
        # a module in a subdirectory of specs/ is checked from there (library lookup is relative to the spec)
        sub = os.path.dirname(module)
        cwd = os.path.join(SPECS, sub)
        module = os.path.basename(module)
        if cfg.startswith(sub + "/"):
            cfg = cfg[len(sub) + 1:]
    cmd += ["-config", cfg, module + ".tla"]
    t0 = time.time()
    p = subprocess.run(cmd, cwd=cwd, env=env, stdout=subprocess.PIPE, stderr=subprocess.STDOUT, text=True, errors="replace")
    r = TlcResult()
    r.wall = time.time() - t0
    r.out = p.stdout
    shutil.rmtree(metadir, ignore_errors=True)
    m = re.findall(r"(\d+) states generated, (\d+) distinct states found", r.out)
    if m:
        r.generated, r.distinct = int(m[-1][0]), int(m[-1][1])
    if not m:
        m2 = re.search(r"The number of states generated: (\d+)", r.out)
        if m2:
            r.generated = r.distinct = int(m2.group(1))
    m = re.search(r"depth of the complete state graph search is (\d+)", r.out)
    if m:
        r.depth = int(m.group(1))
    for line in r.out.splitlines():
        m = re.match(r"^<(\w+) line \d+, col \d+ to line \d+, col \d+ of module (\w+)[^>]*>: (\d+):(\d+)", line)
        if m:
            key = f"{m.group(2)}!{m.group(1)}"
            d, t = int(m.group(3)), int(m.group(4))
            if key in r.coverage:
                r.coverage[key] = (r.coverage[key][0] + d, r.coverage[key][1] + t)
            else:
                r.coverage[key] = (d, t)
        if line.startswith('<<"REPLAY", '):
            m2 = re.match(r'^<<"REPLAY", (".*")>>$', line)
            if m2:
                r.replays.append(json.loads(json.loads(m2.group(1))))
    m = re.search(r'<<"REJECT", (\d+), (".*")>>', r.out)
    if m:
        r.reject_line = int(m.group(1))
        try:
            r.reject_event = json.loads(json.loads(m.group(2)))
        except Exception:
            r.reject_event = m.group(2)
    if p.returncode == 124:
        raise ToolError(f"TLC timed out after {timeout}s on {module}/{cfg}")
    if "Model checking completed. No error has been found." in r.out or \
            (simulate and "Error:" not in r.out and p.returncode == 0):
        r.ok = True
    else:
        m = re.search(r"Error: Invariant (\S+) is violated", r.out)
        m2 = re.search(r"Error: Action property (\S+) is violated", r.out) or \
            re.search(r"Error: Temporal properties were violated", r.out)
        m3 = re.search(r"Error: Postcondition (\S+)", r.out)
        if m:
            r.violated, r.what = True, m.group(1)
        elif m2:
            r.violated, r.what = True, (m2.group(1) if m2.groups() else "temporal")
        elif m3:
            r.violated, r.what = True, m3.group(1)
        elif "Error: Deadlock reached" in r.out:
            r.violated, r.what = True, "deadlock"
        else:
            log(r.out[-5000:])
            raise ToolError(f"TLC failed on {module}/{cfg} (exit {p.returncode})")
    log(f"[tlc] {module} {os.path.basename(cfg)}: {'ok' if r.ok else 'VIOLATED ' + r.what} "
        f"{r.distinct} distinct / {r.generated} generated, {r.wall:.1f}s")
    return r


def apalache_inductive(chk, module, timeout=900):
    """Unbounded-size assurance for a small integer model (specs/apalache/<module>.tla): Apalache checks
    Init => IndInv, IndInv /\\ Next => IndInv', and - as a vacuity check - that IndInv /\\ NextBad can break
    IndInv.  This says nothing about the code (the model's constants are not the code's); it removes the
    small-scope caveat from the model-level claim.  A missing or failing tool is recorded, not a verdict."""
    wd = os.path.join(WORK, "apalache", f"{module}-{os.getpid()}")
    os.makedirs(wd, exist_ok=True)
    src = os.path.join(SPECS, "apalache", module + ".tla")
    runs = [("init", ["--init=Init", "--length=0"], "NoError"),
            ("step", ["--init=IndInit", "--length=1"], "NoError"),
            ("vacuity", ["--init=IndInit", "--next=NextBad", "--length=1"], "Error")]
    res = {}
    for name, args, want in runs:
        try:
            p = subprocess.run(["timeout", str(timeout), "apalache-mc", "check", f"--out-dir={wd}", "--cinit=ConstInit", "--inv=IndInv"]
                               + args + [src], cwd=wd, env=base_env(), stdout=subprocess.PIPE, stderr=subprocess.STDOUT, text=True, errors="replace")
            m = re.search(r"The outcome is: (\w+)", p.stdout)
            res[name] = m.group(1) if m else f"no outcome (exit {p.returncode})"
        except Exception as e:          # noqa: BLE001 - tool not installed, ...
            res[name] = f"not run: {e}"
    shutil.rmtree(wd, ignore_errors=True)
    ok = all(res[n] == w for n, _, w in runs)
    chk.extra.setdefault("apalache", {})[module] = {"outcomes": res, "inductive": ok,
                                                   "obligations": 2, "discharged": sum(res[n] == "NoError" for n in ("init", "step"))}
    if ok:
        chk.notes.append(f"apalache: {module}!IndInv is inductive for unbounded sizes (and NextBad breaks it)")
    elif any(v in ("Error",) for k, v in res.items() if k != "vacuity"):
        chk.violation(f"model {module}: IndInv is not inductive ({res})", json.dumps(res), f"apalache-{module}.json")
    else:
        chk.notes.append(f"apalache: {module} not decided ({res})")
    log(f"[apalache] {module}: {res}")
    return ok


def tlaps_proof(chk, module, timeout=900):
    """Unbounded assurance for a design-level lemma (specs/proofs/<module>.tla): the TLA+ proof system checks
    the proof of the module's theorems (for ANY value of its constants).  Like apalache_inductive this says
    nothing about the code; a missing or failing tool is recorded, never a verdict - except that a proof the
    prover used to accept and now *refutes* cannot happen (tlapm only fails to prove), so a failure is a note."""
    wd = os.path.join(WORK, "tlaps", f"{module}-{os.getpid()}")
    shutil.rmtree(wd, ignore_errors=True)
    os.makedirs(wd, exist_ok=True)
    shutil.copy(os.path.join(SPECS, "proofs", module + ".tla"), wd)
    res = {"proved": 0, "failed": None, "outcome": "not run"}
    try:
        p = subprocess.run(["timeout", str(timeout), "tlapm", "--threads", "4", "--cleanfp", module + ".tla"], cwd=wd, env=base_env(),
                           stdout=subprocess.PIPE, stderr=subprocess.STDOUT, text=True, errors="replace")
        m = re.search(r"All (\d+) obligations? proved", p.stdout)
        if m:
            res = {"proved": int(m.group(1)), "failed": 0, "outcome": "all proved"}
        else:
            m2 = re.search(r"(\d+)/(\d+) obligations? failed", p.stdout)
            res = {"proved": (int(m2.group(2)) - int(m2.group(1))) if m2 else 0, "failed": int(m2.group(1)) if m2 else None,
                   "outcome": f"not all proved (exit {p.returncode})", "tail": p.stdout[-600:]}
    except Exception as e:          # noqa: BLE001
        res["outcome"] = f"not run: {e}"
    shutil.rmtree(wd, ignore_errors=True)
    chk.extra.setdefault("tlaps", {})[module] = res
    if res["outcome"] == "all proved":
        chk.notes.append(f"tlaps: every theorem of proofs/{module}.tla is proved ({res['proved']} obligations), for any value of its constants")
    else:
        chk.notes.append(f"tlaps: proofs/{module}.tla not (fully) checked: {res['outcome']}")
    log(f"[tlapm] {module}: {res['outcome']} ({res['proved']} obligations)")
    return res["outcome"] == "all proved"


def tlc_counterexample(out, limit=60):
    """The printed error trace of a TLC run (for replays / evidence)."""
    i = out.find("Error:")
    if i < 0:
        return ""
    lines = out[i:].splitlines()
    return "\n".join(lines[:limit])


# --------------------------------------------------------------------------- traces

def read_lines(path):
    with open(path, errors="replace") as f:
        # only LF ends a record (str.splitlines would also split at U+0085, U+2028, ... inside JSON strings)
        return [l for l in f.read().split("\n") if l.strip()]


def split_scenarios(trace_lines):
    """Index of the first line (0-based) of every scenario (a `reset` event starts one)."""
    starts = []
    for i, l in enumerate(trace_lines):
        if '"ev":"reset"' in l:
            starts.append(i)
    return starts


def validate_trace(module, cfg, trace_path, tag=None, timeout=3600):
    """Run a trace specification over an NDJSON trace. Returns TlcResult (ok or reject_line set)."""
    r = tlc(module, cfg, workers=1, env_extra={"TRACE": os.path.abspath(trace_path)}, deque=True,
            timeout=timeout, tag=tag, heap="8g")
    if not r.ok and r.reject_line is None:
        log(r.out[-3000:])
        raise ToolError(f"trace validation of {trace_path} by {module} failed without a REJECT line")
    return r


class TraceVerdict:
    def __init__(self):
        self.scenarios = 0
        self.accepted = 0
        self.events = 0
        self.rejected = []   # list of dict(index, sid, line, event, trace_lines)
        self.truncated = False


def validate_all(module, cfg, trace_path, max_rejects=3, tag=None):
    """Validate every scenario of a trace file; after a rejection continue behind the rejected
    scenario so that the rest of the file is still checked (bounded by max_rejects)."""
    lines = read_lines(trace_path)
    starts = split_scenarios(lines)
    v = TraceVerdict()
    v.scenarios = len(starts)
    v.events = len(lines)
    if not lines:
        return v
    begin = 0          # index into starts
    cur_path = trace_path
    offset = 0         # line offset of cur_path within the original file
    n = 0
    while begin < len(starts):
        r = validate_trace(module, cfg, cur_path, tag=(tag or module) + f"-{n}")
        n += 1
        if r.ok:
            v.accepted += len(starts) - begin
            break
        gl = offset + r.reject_line - 1          # 0-based global line index of the rejected event
        # scenario containing that line
        k = max(i for i in range(len(starts)) if starts[i] <= gl)
        end = starts[k + 1] if k + 1 < len(starts) else len(lines)
        try:
            sid = json.loads(lines[starts[k]]).get("sid", f"#{k}")
        except Exception:
            sid = f"#{k}"
        v.accepted += k - begin
        v.rejected.append({"index": k, "sid": sid, "line": gl + 1, "event": r.reject_event,
                           "trace": lines[starts[k]:end], "at": gl - starts[k]})
        begin = k + 1
        if len(v.rejected) >= max_rejects:
            v.truncated = begin < len(starts)
            break
        if begin < len(starts):
            offset = starts[begin]
            cur_path = trace_path + f".rest{n}"
            with open(cur_path, "w") as f:
                f.write("\n".join(lines[offset:]) + "\n")
    return v


# --------------------------------------------------------------------------- findings, evidence

def known_findings(pid):
    path = os.path.join(ROOT, "known_findings.json")
    with open(path) as f:
        allf = json.load(f)
    return [x for x in allf.get("findings", []) if x.get("property") == pid]


class Check:
    """Bookkeeping for one run of one property's check."""

    def __init__(self, pid, tier, level="model_checking"):
        self.pid = pid
        self.tier = tier
        self.level = level
        self.t0 = time.time()
        self.states = 0
        self.transitions = 0
        self.traces_ok = 0
        self.evaluations = 0
        self.nontrivial = 0
        self.samples = []
        self.violations = []       # (what, replay path)
        self.known_seen = []
        self.notes = []
        self.coverage = {}
        self.models = []
        self.extra = {}
        self.rule = ""
        self.assumptions = []
        self.exhaustive = False
        self.drift = []
        os.makedirs(os.path.join(WORK, pid.lower()), exist_ok=True)
        os.makedirs(os.path.join(ROOT, "replays", pid), exist_ok=True)

    def wdir(self, *p):
        return os.path.join(WORK, self.pid.lower(), *p)

    def add_model(self, r, name, expect_ok=True):
        self.states += r.distinct
        self.transitions += r.generated
        self.models.append({"config": name, "distinct": r.distinct, "generated": r.generated,
                            "depth": r.depth, "ok": r.ok, "wall_s": round(r.wall, 1)})
        for k, v in r.coverage.items():
            self.coverage[f"{name}:{k}"] = list(v)

    def violation(self, what, replay_obj, name):
        path = os.path.join(ROOT, "replays", self.pid, name)
        with open(path, "w") as f:
            if isinstance(replay_obj, str):
                f.write(replay_obj)
            else:
                json.dump(replay_obj, f, indent=1)
        self.violations.append((what, path))
        print(f"VIOLATION property={self.pid} replay={path}", flush=True)
        log(f"  -> {what}")

    def known(self, what):
        self.known_seen.append(what)
        print(f"KNOWN-FINDING: property={self.pid} {what}", flush=True)

    def finish(self):
        wall = time.time() - self.t0
        cov = {
            "states": self.states,
            "transitions": self.transitions,
            "traces_validated_against_impl": self.traces_ok,
            "samples": self.samples[:6] if self.samples else ["(no sample recorded)"],
            "evaluations": self.evaluations,
            "distinct_nontrivial": self.nontrivial,
            "rule": self.rule,
            "exhaustive": self.exhaustive,
            "models": self.models,
            "coverage_by_action": self.coverage,
            "known_findings_seen": self.known_seen,
            "drift": self.drift,
            "notes": self.notes,
        }
        cov.update(self.extra)
        ev = {
            "property_id": self.pid,
            "tier": self.tier,
            "seed": seed(),
            "level": self.level,
            "coverage": cov,
            "assumptions": self.assumptions,
            "wall_s": round(wall, 1),
            "violations": len(self.violations),
        }
        os.makedirs(os.path.join(ROOT, "evidence"), exist_ok=True)
        # (bin/mutcheck runs the checks against a deliberately broken tree: keep the evidence of the real one)
        evdir = os.path.join(WORK, "mut-evidence") if os.environ.get("VERIF_NO_EVIDENCE") else os.path.join(ROOT, "evidence")
        os.makedirs(evdir, exist_ok=True)
        with open(os.path.join(evdir, f"{self.pid}.json"), "w") as f:
            json.dump(ev, f, indent=1)
        log(f"[{self.pid}] tier={self.tier} states={self.states} traces_ok={self.traces_ok} "
            f"violations={len(self.violations)} known={len(self.known_seen)} wall={wall:.1f}s")
        return 1 if self.violations else 0


def sample_lines(path, n, rng_seed):
    """A seeded sample of n lines of a (large) file, streaming."""
    import random
    rnd = random.Random(rng_seed)
    res = []
    with open(path) as f:
        for i, line in enumerate(f):
            if len(res) < n:
                res.append(line)
            else:
                j = rnd.randint(0, i)
                if j < n:
                    res[j] = line
    return res
