"""C02 (outbound framing) and C17 (bounded buffers, both directions): WriteConn / Outbound, ReadConn / Framing."""
import json
import os

from vlib import Check, ToolError, log, read_lines, seed, tlc, validate_all, zv
from conn_checks import _model, run_family, export_behaviours as export_read_behaviours, FT, RT

OT = ("OutboundTrace", "OutboundTrace.cfg")


def WT(variant):
    return ("WriteConnTrace", f"WriteConnTrace_{variant}.cfg")


def export_write_behaviours(chk, cfg, name, n):
    r = tlc("MCWriteConnExport", cfg, workers=1, timeout=1800, tag=f"{chk.pid}-wexport-{name}")
    if not r.ok:
        raise ToolError(f"export {cfg} failed: {r.what}")
    chk.states += r.distinct
    chk.transitions += r.generated
    chk.models.append({"config": f"export:{name}", "distinct": r.distinct, "generated": r.generated,
                       "behaviours": len(r.replays), "wall_s": round(r.wall, 1)})
    import random
    rnd = random.Random(seed() * 104729 + len(r.replays))
    picks = r.replays if (n is None or n >= len(r.replays)) else rnd.sample(r.replays, n)
    path = chk.wdir(f"wbehaviours-{name}.json")
    with open(path, "w") as f:
        for b in picks:
            f.write(json.dumps(b) + "\n")
    chk.extra.setdefault("behaviours_enumerated_by_tlc", 0)
    chk.extra["behaviours_enumerated_by_tlc"] += len(r.replays)
    chk.extra.setdefault("behaviours_replayed", 0)
    chk.extra["behaviours_replayed"] += len(picks)
    return path


def c02(tier):
    chk = Check("C02", tier)
    thorough = tier == "thorough"
    s = seed()
    chk.rule = ("model: every history of <=3 (<=4) enqueue/send/flush operations over document lengths around "
                "every growth step and the limit (B=4, MAXB=12), serializer refusals at any position; "
                "implementation: TLC-enumerated histories replayed (tiny build), every free-space value "
                "0..=600 at message start x sizes around it (production constants), lowered-limit sweeps, "
                "seeded random histories with typed and dynamic messages, refused values and transport write "
                "failures; non-trivial = scenario with >=2 operations")
    chk.assumptions = [
        "the reference encoding of a submitted value is serde_json::to_vec of the same value (its digest/length "
        "identify the document on the wire); a value serde_json cannot encode is a refused one",
        "the capturing write half splits written bytes at NUL and digests each piece (trusted projection)",
    ]
    _model(chk, "MCWriteConn", "MCWriteConn_a.cfg" if thorough else "MCWriteConn_q.cfg",
           "a-3docs" if thorough else "q-2docs", coverage=True)
    beh = export_write_behaviours(chk, "MCWriteConnExport.cfg" if thorough else "MCWriteConnExport_q.cfg",
                                  "ops4" if thorough else "ops3", 40000 if thorough else 4000)
    run_family(chk, "writing", "tiny", ["--seed", s, "--n", 0, "--behaviours", beh], [OT], "tlc-behaviours",
               drift_specs=[WT("tiny")])
    run_family(chk, "writing", "tiny", ["--seed", s, "--n", 3000 if thorough else 500, "--limit"], [OT],
               "tiny-random", drift_specs=[WT("tiny")])
    run_family(chk, "writing", "prod", ["--seed", s, "--n", 6000 if thorough else 800, "--free", 600,
                                         "--stride", 1 if thorough else 3], [OT], "prod", drift_specs=[WT("prod")])
    run_family(chk, "writing", "small", ["--seed", s + 1, "--n", 6000 if thorough else 800, "--free", 40, "--limit"],
               [OT], "small", drift_specs=[WT("small")])
    chk.nontrivial = chk.traces_ok
    return chk.finish()


def c17(tier):
    chk = Check("C17", tier)
    thorough = tier == "thorough"
    s = seed()
    chk.rule = ("model: ReadConn with MAXB=8 (overflow exactly when the unconsumed bytes reach the limit, every "
                "smaller frame accepted, buffer length <= MAXB) and WriteConn with MAXB=12 (refusal exactly at "
                "the limit, refused message contributes nothing); implementation: lowered-limit builds "
                "(B=4/MAXB=8 every size and chunking, B=16/MAXB=512 sizes around every step and the limit) in "
                "both directions; thorough adds the production 100 MiB inbound limit; non-trivial = every "
                "scenario (each has a distinct size/chunking/pending combination)")
    chk.assumptions = [
        "'smaller than the limit' counts the frame with its terminator and, inbound, together with bytes of "
        "later frames the transport delivered in the same read (the limit is on buffered bytes)",
        "outbound, bytes already enqueued count towards the limit",
    ]
    _model(chk, "MCReadConn", "MCReadConn_c.cfg", "read-limit8", coverage=True)
    _model(chk, "MCWriteConn", "MCWriteConn_a.cfg" if thorough else "MCWriteConn_q.cfg", "write-limit12",
           coverage=True)
    # inbound
    run_family(chk, "framing", "tiny", ["--seed", s, "--n", 0, "--sizes", "--dense"], [FT], "in-tiny-dense",
               drift_specs=[RT])
    run_family(chk, "framing", "small", ["--seed", s, "--n", 0, "--sizes"] + (["--dense"] if thorough else []),
               [FT], "in-small")
    # outbound
    run_family(chk, "writing", "tiny", ["--seed", s, "--n", 200, "--limit"], [OT], "out-tiny",
               drift_specs=[WT("tiny")])
    run_family(chk, "writing", "small", ["--seed", s, "--n", 200, "--limit"], [OT], "out-small",
               drift_specs=[WT("small")])
    if thorough:
        run_family(chk, "framing", "prod", ["--seed", s, "--n", 0, "--prod-limit"], [FT], "in-prod-100MiB")
    chk.nontrivial = chk.traces_ok
    if thorough:
        # the same bookkeeping over unbounded integers (any limit, any message / read size)
        import vlib
        vlib.apalache_inductive(chk, "WriteBound")
        vlib.apalache_inductive(chk, "ReadBound")
    return chk.finish()


def replay_writing(pid, path):
    rp = json.load(open(path))
    chk = Check(pid, "quick")
    sc = os.path.join(chk.wdir(), "replay.scenario.json")
    with open(sc, "w") as f:
        f.write(json.dumps(rp["scenario"]) + "\n")
    trace = os.path.join(chk.wdir(), "replay.ndjson")
    zv(rp.get("variant", "prod"), [rp["family"], "--replay", sc, "--out", trace])
    v = validate_all(rp["spec"], rp["cfg"], trace, tag=f"{pid}-replay")
    for l in read_lines(trace):
        print(l)
    if v.rejected:
        print(f"VIOLATION property={pid} replay={path}")
        return 1
    print("replay accepted by", rp["spec"])
    return 0
