"""C12 (proxy macro), C16 (introspection derives), C15 (code generator): properties over *programs*.

TLC enumerates the declaration space of the property from its specification; gen/*.py turns the
declarations into a Rust corpus crate under corpus/, which is compiled against /repo's macros and run;
the events it records are validated by TLC against the specification."""
import json
import os
import re
import subprocess
import time

import vlib
from vlib import Check, ToolError, log, read_lines, seed, tlc

GEN = os.path.join(vlib.ROOT, "gen")
CORPUS = os.path.join(vlib.ROOT, "corpus")


def enumerate_decls(chk, module, cfg, name):
    r = tlc(module, cfg, workers=8, timeout=3000, tag=f"{chk.pid}-enum", extra=["-seed", str(seed())])
    chk.add_model(r, name)
    if not r.ok:
        chk.violation(f"model {module}: {r.what}", vlib.tlc_counterexample(r.out, 200), f"model-{module}.txt")
    if not r.replays:
        raise ToolError(f"{module} exported nothing")
    path = chk.wdir(f"{name}.json")
    with open(path, "w") as f:
        for d in r.replays:
            f.write(json.dumps(d, sort_keys=True) + "\n")
    chk.extra["declarations_enumerated_by_tlc"] = len(r.replays)
    return path, r.replays


def build_corpus(chk, crate, target="target"):
    """cargo build of a corpus crate.  Returns (ok, compiler output)."""
    t0 = time.time()
    p = subprocess.run(["cargo", "build", "--release", "--offline", "--target-dir", target],
                       cwd=os.path.join(CORPUS, crate), env=vlib.base_env(), stdout=subprocess.PIPE,
                       stderr=subprocess.STDOUT, text=True)
    log(f"[build] corpus/{crate} {'ok' if p.returncode == 0 else 'FAILED'} in {time.time()-t0:.1f}s")
    return p.returncode == 0, p.stdout


def compile_errors(out, limit=12):
    """The error blocks of a cargo/rustc output."""
    blocks = re.split(r"\n(?=error)", out)
    errs = [b for b in blocks if b.startswith("error")]
    return errs[:limit]


def run_corpus(chk, crate, binary, args, trace, target="target"):
    cmd = [os.path.join(CORPUS, crate, target, "release", binary)] + [str(a) for a in args] + ["--out", trace]
    t0 = time.time()
    p = subprocess.run(cmd, cwd=vlib.ROOT, env=vlib.base_env(), stdout=subprocess.PIPE, stderr=subprocess.STDOUT,
                       text=True, timeout=3600)
    if p.returncode != 0:
        log(p.stdout[-3000:])
        raise ToolError(f"corpus run failed: {binary} {' '.join(map(str, args))}")
    log(f"[{binary}] {' '.join(map(str, args))} ... {time.time()-t0:.1f}s")
    return json.load(open(trace + ".summary.json"))


def validate_events(chk, spec, trace, label, family, brief=lambda e: e, max_rejects=6):
    """One event per case; every rejection is a violation with the event as replay."""
    lines = read_lines(trace)
    rejected = 0
    known = set()
    start = 0
    cur = trace
    n = 0
    while True:
        r = vlib.validate_trace(spec[0], spec[1], cur, tag=f"{chk.pid}-{label}-{n}")
        n += 1
        known.update(re.findall(r'<<"KNOWN", "([^"]+)">>', r.out))
        if r.ok:
            break
        bad = start + r.reject_line - 1
        evn = json.loads(lines[bad])
        rejected += 1
        chk.violation(f"{spec[0]} rejects {brief(evn)}",
                      {"family": family, "spec": spec[0], "cfg": spec[1], "case": evn}, f"{label}-{rejected}.json")
        if rejected >= max_rejects or bad + 1 >= len(lines):
            chk.notes.append(f"{label}: stopped after {rejected} rejections")
            break
        start = bad + 1
        cur = trace + f".rest{n}"
        with open(cur, "w") as f:
            f.write("\n".join(lines[start:]) + "\n")
    return rejected, known


# --------------------------------------------------------------------------------------- C12

PT = ("ProxyTrace", "ProxyTrace.cfg")


def _brief_proxy(e):
    if e.get("ev") == "call":
        return {k: e[k] for k in ("ev", "id", "form", "decl", "raw", "frames") if k in e}
    return e


def prepare_proxy(chk, thorough):
    decls_path, decls = enumerate_decls(chk, "MCProxyGen", "MCProxyGen_t.cfg" if thorough else "MCProxyGen_q.cfg",
                                        "declarations")
    subprocess.run(["python3", os.path.join(GEN, "proxy.py"), decls_path,
                    os.path.join(CORPUS, "proxy", "src", "generated.rs")], check=True)
    return decls


def c12(tier):
    chk = Check("C12", tier)
    thorough = tier == "thorough"
    s = seed()
    chk.rule = ("model: ProxyGen.tla gives the call every form of a generated method must send (method name from the "
                "PascalCase of the snake_case words or the rename, parameters object present iff the method has arguments, "
                "members = wire names of the arguments that are not None, more / oneway exactly when annotated) and TLC checks "
                "over the whole declaration space that every PascalCase name is a legal Varlink member name and that the "
                "expectation omits exactly the None arguments; TLC samples the space (names of 1..4 words with digits, 4 "
                "method renames, plain / more / oneway, 0..4 parameters of 9 classes incl. Option, slices, a borrowed struct "
                "and generics, parameter renames, elided / explicit lifetimes, unit / struct outputs); gen/proxy.py emits one "
                "#[proxy] trait per declaration, the crate is compiled against /repo's macro (a compile failure is a "
                "violation) and every form (plain, chain_, chain-extension) is invoked with seeded values on a capturing "
                "socket; scripted replies (success spellings, declared / standard / undeclared errors, malformed) go "
                "through each plain method and, for comparison, through the low-level receive; streaming methods get 4 "
                "conforming reply sequences each followed by a later exchange's frame; TLC validates every event; "
                "distinct_nontrivial = distinct (declaration, form) pairs + reply / stream cases")
    chk.assumptions = ["trusted: the scripted socket of the harness and the projection of a captured frame to member names",
                       "argument values are compared with serde_json::to_value of the same argument"]
    decls = prepare_proxy(chk, thorough)
    ok, out = build_corpus(chk, "proxy")
    if not ok:
        errs = compile_errors(out)
        chk.violation("the corpus of #[proxy] traits accepted shapes does not compile against /repo's macro: "
                      + (errs[0].splitlines()[0] if errs else "unknown compiler error"),
                      "\n\n".join(errs) or out[-6000:], "compile-errors.txt")
        chk.evaluations = len(decls)
        chk.nontrivial = len(decls)
        chk.samples = decls[:2]
        return chk.finish()
    trace = chk.wdir("proxy.ndjson")
    summ = run_corpus(chk, "proxy", "zc-proxy", ["--seed", s, "--rounds", 6 if thorough else 2], trace)
    rejected, _ = validate_events(chk, PT, trace, "proxy", "proxy", brief=_brief_proxy)
    total = summ["calls"] + summ["replies"] + summ["streams"]
    chk.evaluations = total
    chk.traces_ok = total - rejected
    lines = read_lines(trace)
    distinct = set()
    for l in lines:
        e = json.loads(l)
        if e.get("ev") == "call":
            distinct.add((e["id"], e["form"]))
        elif e.get("ev") in ("reply", "stream"):
            distinct.add((e["id"], e["ev"], e.get("fi", e.get("si"))))
    chk.nontrivial = len(distinct)
    chk.extra.update({"declarations_compiled": summ["decls"], "call_events": summ["calls"], "reply_events": summ["replies"],
                      "stream_events": summ["streams"]})
    for l in lines[1:200:67]:
        chk.samples.append(_brief_proxy(json.loads(l)))
    return chk.finish()


def replay_proxy(pid, path):
    rp = json.load(open(path)) if path.endswith(".json") else None
    chk = Check(pid, "quick")
    if rp is None:
        print(open(path).read())
        print("compile errors are reproduced by: bin/check C12 --tier quick")
        return 1
    prepare_proxy(chk, False)
    ok, out = build_corpus(chk, "proxy")
    if not ok:
        print("\n".join(compile_errors(out)))
        print(f"VIOLATION property={pid} replay={path}")
        return 1
    trace = chk.wdir("replay-all.ndjson")
    run_corpus(chk, "proxy", "zc-proxy", ["--seed", seed(), "--rounds", 1], trace)
    want = rp["case"]
    sel = [l for l in read_lines(trace)
           if '"ev":"reset"' in l or (json.loads(l).get("id") == want.get("id") and json.loads(l).get("ev") == want.get("ev")
                                      and json.loads(l).get("form") == want.get("form"))]
    t2 = chk.wdir("replay.ndjson")
    with open(t2, "w") as f:
        f.write("\n".join(sel) + "\n")
    r = vlib.validate_trace(rp["spec"], rp["cfg"], t2, tag=f"{pid}-replay")
    for l in sel[1:]:
        print(json.dumps(_brief_proxy(json.loads(l))))
    if not r.ok:
        print(f"VIOLATION property={pid} replay={path}")
        return 1
    print("replay accepted by", rp["spec"])
    return 0
