"""C12 (proxy macro), C16 (introspection derives), C15 (code generator): properties over *programs*.

TLC enumerates the declaration space of the property from its specification; gen/*.py turns the
declarations into a Rust corpus crate under corpus/, which is compiled against /repo's macros and run;
the events it records are validated by TLC against the specification."""
import json
import os
import re
import subprocess
import time

import vlib
from vlib import Check, ToolError, log, read_lines, seed, tlc

GEN = os.path.join(vlib.ROOT, "gen")
CORPUS = os.path.join(vlib.ROOT, "corpus")


def enumerate_decls(chk, module, cfg, name):
    r = tlc(module, cfg, workers=8, timeout=3000, tag=f"{chk.pid}-enum", extra=["-seed", str(seed())])
    chk.add_model(r, name)
    if not r.ok:
        chk.violation(f"model {module}: {r.what}", vlib.tlc_counterexample(r.out, 200), f"model-{module}.txt")
    if not r.replays:
        raise ToolError(f"{module} exported nothing")
    path = chk.wdir(f"{name}.json")
    with open(path, "w") as f:
        for d in r.replays:
            f.write(json.dumps(d, sort_keys=True) + "\n")
    chk.extra["declarations_enumerated_by_tlc"] = len(r.replays)
    return path, r.replays


def build_corpus(chk, binary, target="target"):
    """cargo build of one binary of the corpus crate.  Returns (ok, compiler output)."""
    t0 = time.time()
    p = subprocess.run(["cargo", "build", "--release", "--offline", "--target-dir", target, "--bin", binary],
                       cwd=CORPUS, env=vlib.base_env(), stdout=subprocess.PIPE, stderr=subprocess.STDOUT, text=True, errors="replace")
    log(f"[build] corpus {binary} {'ok' if p.returncode == 0 else 'FAILED'} in {time.time()-t0:.1f}s")
    return p.returncode == 0, p.stdout


def compile_errors(out, limit=12):
    """The error blocks of a cargo/rustc output."""
    blocks = re.split(r"\n(?=error)", out)
    errs = [b for b in blocks if b.startswith("error")]
    return errs[:limit]


def run_corpus(chk, binary, args, trace, target="target"):
    cmd = [os.path.join(CORPUS, target, "release", binary)] + [str(a) for a in args] + ["--out", trace]
    t0 = time.time()
    p = subprocess.run(cmd, cwd=vlib.ROOT, env=vlib.base_env(), stdout=subprocess.PIPE, stderr=subprocess.STDOUT,
                       text=True, errors="replace", timeout=3600)
    if p.returncode != 0:
        log(p.stdout[-3000:])
        raise ToolError(f"corpus run failed: {binary} {' '.join(map(str, args))}")
    log(f"[{binary}] {' '.join(map(str, args))} ... {time.time()-t0:.1f}s")
    return json.load(open(trace + ".summary.json"))


def validate_events(chk, spec, trace, label, family, brief=lambda e: e, max_rejects=6):
    """One event per case; every rejection is a violation with the event as replay."""
    lines = read_lines(trace)
    rejected = 0
    known = set()
    start = 0
    cur = trace
    n = 0
    while True:
        r = vlib.validate_trace(spec[0], spec[1], cur, tag=f"{chk.pid}-{label}-{n}")
        n += 1
        known.update(re.findall(r'<<"KNOWN", "([^"]+)">>', r.out))
        if r.ok:
            break
        bad = start + r.reject_line - 1
        evn = json.loads(lines[bad])
        rejected += 1
        chk.violation(f"{spec[0]} rejects {brief(evn)}",
                      {"family": family, "spec": spec[0], "cfg": spec[1], "case": evn}, f"{label}-{rejected}.json")
        if rejected >= max_rejects or bad + 1 >= len(lines):
            chk.notes.append(f"{label}: stopped after {rejected} rejections")
            break
        start = bad + 1
        cur = trace + f".rest{n}"
        with open(cur, "w") as f:
            f.write("\n".join(lines[start:]) + "\n")
    return rejected, known


# --------------------------------------------------------------------------------------- C12

PT = ("ProxyTrace", "ProxyTrace.cfg")


def _brief_proxy(e):
    if e.get("ev") == "call":
        return {k: e[k] for k in ("ev", "id", "form", "decl", "raw", "frames") if k in e}
    return e


def prepare_proxy(chk, thorough):
    decls_path, decls = enumerate_decls(chk, "MCProxyGen", "MCProxyGen_t.cfg" if thorough else "MCProxyGen_q.cfg",
                                        "declarations")
    subprocess.run(["python3", os.path.join(GEN, "proxy.py"), decls_path,
                    os.path.join(CORPUS, "src", "bin", "proxy", "generated.rs")], check=True)
    return decls


def c12(tier):
    chk = Check("C12", tier)
    thorough = tier == "thorough"
    s = seed()
    chk.rule = ("model: ProxyGen.tla gives the call every form of a generated method must send (method name from the "
                "PascalCase of the snake_case words or the rename, parameters object present iff the method has arguments, "
                "members = wire names of the arguments that are not None, more / oneway exactly when annotated) and TLC checks "
                "over the whole declaration space that every PascalCase name is a legal Varlink member name and that the "
                "expectation omits exactly the None arguments; TLC draws declarations from the space (names of 1..4 words with digits, 4 "
                "method renames, plain / more / oneway, 0..4 parameters of 9 classes incl. Option, slices, a borrowed struct "
                "and generics, parameter renames, elided / explicit lifetimes, unit / struct outputs); gen/proxy.py emits one "
                "#[proxy] trait per declaration, the crate is compiled against /repo's macro (a compile failure is a "
                "violation) and every form (plain, chain_, chain-extension) is invoked with seeded values on a capturing "
                "socket; scripted replies (success spellings, declared / standard / undeclared errors, malformed) go "
                "through each plain method and, for comparison, through the low-level receive; streaming methods get 4 "
                "conforming reply sequences each followed by a later exchange's frame; TLC validates every event; "
                "distinct_nontrivial = distinct (declaration, form) pairs + reply / stream cases")
    chk.assumptions = ["trusted: the scripted socket of the harness and the projection of a captured frame to member names",
                       "argument values are compared with serde_json::to_value of the same argument"]
    decls = prepare_proxy(chk, thorough)
    ok, out = build_corpus(chk, "zc-proxy")
    if not ok:
        errs = compile_errors(out)
        chk.violation("the corpus of #[proxy] traits accepted shapes does not compile against /repo's macro: "
                      + (errs[0].splitlines()[0] if errs else "unknown compiler error"),
                      "\n\n".join(errs) or out[-6000:], "compile-errors.txt")
        chk.evaluations = len(decls)
        chk.nontrivial = len(decls)
        chk.samples = decls[:2]
        return chk.finish()
    trace = chk.wdir("proxy.ndjson")
    summ = run_corpus(chk, "zc-proxy", ["--seed", s, "--rounds", 6 if thorough else 2], trace)
    rejected, _ = validate_events(chk, PT, trace, "proxy", "proxy", brief=_brief_proxy)
    total = summ["calls"] + summ["replies"] + summ["streams"]
    chk.evaluations = total
    chk.traces_ok = total - rejected
    lines = read_lines(trace)
    distinct = set()
    for l in lines:
        e = json.loads(l)
        if e.get("ev") == "call":
            distinct.add((e["id"], e["form"]))
        elif e.get("ev") in ("reply", "stream"):
            distinct.add((e["id"], e["ev"], e.get("fi", e.get("si"))))
    chk.nontrivial = len(distinct)
    chk.extra.update({"declarations_compiled": summ["decls"], "call_events": summ["calls"], "reply_events": summ["replies"],
                      "stream_events": summ["streams"]})
    for l in lines[1:200:67]:
        chk.samples.append(_brief_proxy(json.loads(l)))
    return chk.finish()


def replay_proxy(pid, path):
    rp = json.load(open(path)) if path.endswith(".json") else None
    chk = Check(pid, "quick")
    if rp is None:
        print(open(path).read())
        print("compile errors are reproduced by: bin/check C12 --tier quick")
        return 1
    prepare_proxy(chk, False)
    ok, out = build_corpus(chk, "zc-proxy")
    if not ok:
        print("\n".join(compile_errors(out)))
        print(f"VIOLATION property={pid} replay={path}")
        return 1
    trace = chk.wdir("replay-all.ndjson")
    run_corpus(chk, "zc-proxy", ["--seed", seed(), "--rounds", 1], trace)
    want = rp["case"]
    sel = [l for l in read_lines(trace)
           if '"ev":"reset"' in l or (json.loads(l).get("id") == want.get("id") and json.loads(l).get("ev") == want.get("ev")
                                      and json.loads(l).get("form") == want.get("form"))]
    t2 = chk.wdir("replay.ndjson")
    with open(t2, "w") as f:
        f.write("\n".join(sel) + "\n")
    r = vlib.validate_trace(rp["spec"], rp["cfg"], t2, tag=f"{pid}-replay")
    for l in sel[1:]:
        print(json.dumps(_brief_proxy(json.loads(l))))
    if not r.ok:
        print(f"VIOLATION property={pid} replay={path}")
        return 1
    print("replay accepted by", rp["spec"])
    return 0


# --------------------------------------------------------------------------------------- C16

IT_STRICT = ("IntrospectTrace", "IntrospectTrace_strict.cfg")
IT_KNOWN = ("IntrospectTrace", "IntrospectTrace_known.cfg")


def _brief_intro(e):
    return {k: v for k, v in e.items() if k not in ("toks", "canon", "derived")}


def _rows(groups):
    """Rows of the Rust -> Varlink table met by the exported groups."""
    rows = set()

    def walk(t):
        rows.add(f"{t['k']}:{t['n']}")
        for x in t["a"]:
            walk(x)
    for g in groups:
        for d in g["customs"] + g["inlines"]:
            for f in d["fields"]:
                walk(f["ty"])
        for e in g["errs"]:
            rows.add("error:" + e["kind"])
            for f in e["fields"]:
                walk(f["ty"])
        for p in g["probes"]:
            walk(p)
    return rows


ALL_ROWS = ([f"prim:{n}" for n in ("bool", "i8", "i16", "i32", "i64", "u8", "u16", "u32", "u64", "isize", "usize", "f32", "f64",
                                   "String", "&str", "char")]
            + [f"special:{n}" for n in ("Duration", "Instant", "SystemTime", "PathBuf", "OsString", "IpAddr", "Ipv4Addr", "Ipv6Addr",
                                        "SocketAddr", "SocketAddrV4", "SocketAddrV6", "CowStr", "BoxStr", "BoxPath", "BoxOsStr", "Value")]
            + ["unit:", "opt:", "seq:Vec", "seq:slice", "seq:HashSet", "seq:BTreeSet", "map:HashMapString", "map:HashMapStr",
               "map:BTreeMapString", "map:BTreeMapStr", "wrap:Box", "wrap:Rc", "wrap:Arc", "wrap:Cell", "wrap:RefCell",
               "custom:Rec", "custom:Mode", "inline:Inner", "inline:Kind", "error:unit", "error:struct", "error:tuple"])


def prepare_introspect(chk, thorough):
    path, groups = enumerate_decls(chk, "MCIntrospect", "MCIntrospect_t.cfg" if thorough else "MCIntrospect_q.cfg", "groups")
    subprocess.run(["python3", os.path.join(GEN, "introspect.py"), path,
                    os.path.join(CORPUS, "src", "bin", "introspect", "generated.rs")], check=True)
    return groups


def c16(tier):
    chk = Check("C16", tier)
    thorough = tier == "thorough"
    chk.rule = ("model: Introspect.tla maps Rust type expressions to Varlink types (VarlinkOf: 16 primitives, Option, Vec / slice / "
                "HashSet / BTreeSet, String- and &str-keyed Hash/BTree maps, (), Box / Rc / Arc / Cell / RefCell, 16 std types, "
                "custom types by name, Type-derived types in place) and a group of declarations to the interface description "
                "the derives must add up to (IfaceOf: declaration order, Rust names, doc comments as comments; unit / struct / "
                "single-tuple error variants); TLC builds the groups (structs with 0..6 fields over seeded pools of type "
                "expressions nested up to 4 levels, enums, error enums in 8 variant orders, lifetimes where references occur, "
                "doc comments incl. empty and multi-line ones) and exports them; gen/introspect.py emits the Rust declarations, "
                "the crate is compiled against /repo's derives (a compile failure is a violation) and the derived constants are "
                "projected through zlink's accessors; TLC validates derived = IfaceOf(group) and the render -> parse law; "
                "distinct_nontrivial = groups")
    chk.assumptions = ["trusted: the accessor projection and the lexer of harness/src/idl.rs",
                       "doc comments are written as #[doc = \"text\"] without a leading blank, as the repository's own tests do",
                       "the render -> parse clause inherits C14's open finding for enums with a doc-commented variant"]
    groups = prepare_introspect(chk, thorough)
    rows = _rows(groups)
    missing = [r for r in ALL_ROWS if r not in rows]
    chk.extra["rows_covered"] = len([r for r in ALL_ROWS if r in rows])
    chk.extra["rows_total"] = len(ALL_ROWS)
    if missing:
        raise ToolError(f"table rows not met by the exported groups: {missing}")
    ok, out = build_corpus(chk, "zc-introspect")
    if not ok:
        errs = compile_errors(out)
        chk.violation("declarations the derives accept do not compile against /repo's macros: "
                      + (errs[0].splitlines()[0] if errs else "unknown compiler error"),
                      "\n\n".join(errs) or out[-6000:], "compile-errors.txt")
        chk.evaluations = len(groups)
        chk.nontrivial = len(groups)
        chk.samples = groups[:1]
        return chk.finish()
    trace = chk.wdir("introspect.ndjson")
    summ = run_corpus(chk, "zc-introspect", [], trace)
    open_kf = [k for k in vlib.known_findings("C16") if k.get("status") == "open"]
    rejected, known = validate_events(chk, IT_KNOWN if open_kf else IT_STRICT, trace, "introspect", "introspect", brief=_brief_intro)
    chk.evaluations = summ["groups"]
    chk.traces_ok = summ["groups"] - rejected - len(known)
    chk.nontrivial = summ["groups"]
    chk.extra["cases_witnessing_known_finding"] = len(known)
    if known and open_kf:
        chk.known(f"{open_kf[0]['what']} (witnessed in {len(known)} groups, e.g. {sorted(known)[0]})")
    for l in read_lines(trace)[1:4]:
        chk.samples.append(_brief_intro(json.loads(l)))
    return chk.finish()


def replay_introspect(pid, path):
    if not path.endswith(".json"):
        print(open(path).read())
        print("compile errors are reproduced by: bin/check C16 --tier quick")
        return 1
    rp = json.load(open(path))
    chk = Check(pid, "quick")
    prepare_introspect(chk, False)
    ok, out = build_corpus(chk, "zc-introspect")
    if not ok:
        print("\n".join(compile_errors(out)))
        print(f"VIOLATION property={pid} replay={path}")
        return 1
    trace = chk.wdir("replay-all.ndjson")
    run_corpus(chk, "zc-introspect", [], trace)
    sel = [l for l in read_lines(trace) if '"ev":"reset"' in l or json.loads(l).get("id") == rp["case"].get("id")]
    t2 = chk.wdir("replay.ndjson")
    with open(t2, "w") as f:
        f.write("\n".join(sel) + "\n")
    r = vlib.validate_trace(rp["spec"], rp["cfg"], t2, tag=f"{pid}-replay")
    for l in sel[1:]:
        print(json.dumps(_brief_intro(json.loads(l))))
    if not r.ok:
        print(f"VIOLATION property={pid} replay={path}")
        return 1
    print("replay accepted by", rp["spec"])
    return 0


# --------------------------------------------------------------------------------------- C15

CT15 = ("CodegenTrace", "CodegenTrace.cfg")
CG_DIR = os.path.join(CORPUS, "src", "bin", "codegen")


def _brief_cg(e):
    return {k: v for k, v in e.items() if k not in ("iface", "params", "fed")}


def prepare_codegen(chk, thorough):
    """descriptions -> IDL texts -> /repo's generator -> driver source.  Returns (ifaces, problem or None)."""
    path, ifaces = enumerate_decls(chk, "MCCodegen", "MCCodegen_t.cfg" if thorough else "MCCodegen_q.cfg", "interfaces")
    idl_dir = os.path.join(CORPUS, "idl")
    gen_dir = os.path.join(CG_DIR, "gen")
    subprocess.run(["python3", os.path.join(GEN, "codegen.py"), "idl", path, idl_dir], check=True)
    ok, out = build_corpus(chk, "zc-cgen")
    if not ok:
        log(out[-4000:])
        raise ToolError("zc-cgen (and with it /repo's zlink-codegen) does not build")
    os.makedirs(gen_dir, exist_ok=True)
    for f in os.listdir(gen_dir):
        m = re.match(r"i(\d+)\.(rs|err)$", f)
        if not m or int(m.group(1)) >= len(ifaces) or m.group(2) == "err":
            os.remove(os.path.join(gen_dir, f))
    p = subprocess.run([os.path.join(CORPUS, "target", "release", "zc-cgen"), idl_dir, gen_dir], stdout=subprocess.PIPE,
                       stderr=subprocess.STDOUT, text=True, errors="replace")
    if p.returncode != 0:
        raise ToolError("zc-cgen failed: " + p.stdout[-2000:])
    p = subprocess.run(["python3", os.path.join(GEN, "codegen.py"), "driver", path, gen_dir, os.path.join(CG_DIR, "generated.rs")],
                       stdout=subprocess.PIPE, stderr=subprocess.STDOUT, text=True, errors="replace")
    if p.returncode != 0:
        # the generated module does not have the shape of the description (a method, field or variant is missing)
        return ifaces, p.stdout.strip()[-2000:]
    return ifaces, None


def c15(tier):
    chk = Check("C15", tier)
    thorough = tier == "thorough"
    chk.rule = ("model: Codegen.tla says when a JSON value has the shape an IDL type declares with the IDL's spellings (Conforms), "
                "what a call made through a generated method must look like (CallOk: qualified IDL method name, parameters object "
                "with exactly the IDL's names for the arguments passed), and when a reply / error was decoded faithfully (ReplyOk / "
                "ErrorOk); TLC checks on every enumerated description that it is in the grammar and that a value built from it "
                "conforms while any misspelt member does not; TLC builds the descriptions over the name alphabet of the property "
                "(acronyms GetURL / IOError / IPv6, digits Get2FA, camelCase and snake_case, Rust keywords incl. self / crate / do / "
                "type as field, parameter, variant and method names), non-recursive and collision-free; each is rendered to IDL, "
                "run through /repo's zlink-codegen, the generated modules are compiled (a failure there is a violation) and every "
                "method is called twice with values of the declared types (optional arguments present / absent), fed a reply built "
                "from the description, and every declared error; Rust identifiers are read off the generated code by position; "
                "TLC validates every event; distinct_nontrivial = events")
    chk.assumptions = ["trusted: the scripted socket and the conversion of captured JSON to [k, e, a, m] records",
                       "the driver builds Rust values from the Rust types it reads in the generated code; if the generated modules "
                       "compile and only the driver does not, the run is a tool error (exit 2), not a verdict"]
    ifaces, problem = prepare_codegen(chk, thorough)
    chk.evaluations = len(ifaces)
    chk.nontrivial = len(ifaces)
    chk.samples = [ifaces[0]["name"]] if ifaces else []
    if problem:
        chk.violation("the generated module does not match its description: " + problem.splitlines()[-1], problem, "shape-mismatch.txt")
        return chk.finish()
    ok, out = build_corpus(chk, "zc-codegen")
    if not ok:
        errs = compile_errors(out, limit=100000)
        in_gen = [e for e in errs if "/gen/i" in e or "codegen/gen/" in e]
        if in_gen:
            chk.violation("code generated by zlink-codegen does not compile: " + in_gen[0].splitlines()[0],
                          "\n\n".join(in_gen[:12]), "compile-errors.txt")
            return chk.finish()
        log("\n\n".join(errs[:6]))
        raise ToolError("the C15 driver does not compile although the generated modules do (driver generator out of date)")
    trace = chk.wdir("codegen.ndjson")
    summ = run_corpus(chk, "zc-codegen", [], trace)
    rejected, _ = validate_events(chk, CT15, trace, "codegen", "codegen", brief=_brief_cg)
    total = summ["calls"] + summ["replies"] + summ["errors"] + summ["generator_failures"]
    chk.evaluations = total
    chk.traces_ok = total - rejected
    chk.nontrivial = total
    chk.extra.update({"interfaces_compiled": summ["ifaces"], "call_events": summ["calls"], "reply_events": summ["replies"],
                      "error_events": summ["errors"], "generator_failures": summ["generator_failures"]})
    chk.samples = [_brief_cg(json.loads(l)) for l in read_lines(trace)[1:120:40]]
    return chk.finish()


def replay_codegen(pid, path):
    if not path.endswith(".json"):
        print(open(path).read())
        print("reproduced by: bin/check C15 --tier quick")
        return 1
    rp = json.load(open(path))
    chk = Check(pid, "quick")
    ifaces, problem = prepare_codegen(chk, False)
    ok, out = (False, problem) if problem else build_corpus(chk, "zc-codegen")
    if not ok:
        print(out[-3000:])
        print(f"VIOLATION property={pid} replay={path}")
        return 1
    trace = chk.wdir("replay-all.ndjson")
    run_corpus(chk, "zc-codegen", [], trace)
    want = rp["case"]
    sel = [l for l in read_lines(trace) if '"ev":"reset"' in l or
           all(json.loads(l).get(k) == want.get(k) for k in ("ev", "id", "mi", "ei", "present"))]
    t2 = chk.wdir("replay.ndjson")
    with open(t2, "w") as f:
        f.write("\n".join(sel) + "\n")
    r = vlib.validate_trace(rp["spec"], rp["cfg"], t2, tag=f"{pid}-replay")
    for l in sel[1:]:
        print(json.dumps(_brief_cg(json.loads(l))))
    if not r.ok:
        print(f"VIOLATION property={pid} replay={path}")
        return 1
    print("replay accepted by", rp["spec"])
    return 0
