"""E2E: the composed client <-> server model (Session.tla) and end-to-end sessions of real zlink clients
against a real zlink Server (harness family `session`).  This is specification coverage beyond the twenty
listed properties: it has no entry in MANIFEST.json (which is per property) and writes its evidence under
work/, but follows the same contract (exit 0 / 1 with a VIOLATION line / 2)."""
import os

from vlib import Check, seed
from conn_checks import _model, run_family

ST = ("SessionTrace", "SessionTrace.cfg")


def e2e(tier):
    os.environ.setdefault("VERIF_NO_EVIDENCE", "1")      # not a listed property: no file under evidence/
    chk = Check("E2E", tier)
    thorough = tier == "thorough"
    chk.rule = ("model: one connection end to end - the client pipelines plain / error / oneway / more(n) calls, the server "
                "handles them in order and writes what each is owed, the client attributes every reply to the oldest call "
                "that still expects one: Correspondence and Complete hold for all interleavings of <= 4 calls, and fail when "
                "the server answers oneway calls; implementation: 1..3 zlink clients (proxy methods, chains, streaming "
                "methods) against zlink's Server with a scripted service over in-memory pipes with driver-chosen chunking")
    _model(chk, "Session", "Session_a.cfg", "correspondence", coverage=False)
    _model(chk, "Session", "Session_pinned.cfg", "server-answers-oneway", expect_violation=True)
    # an observation beyond the listed properties: replies carry no call id, so an abandoned `more' stream poisons
    # the next exchange unless the client drains what the abandoned call is still owed
    _model(chk, "Session", "Session_abandon.cfg", "abandoned-stream-misattributes", expect_violation=True)
    _model(chk, "Session", "Session_drain.cfg", "abandoned-stream-drained", coverage=False)
    run_family(chk, "session", "prod", ["--seed", seed(), "--n", 6000 if thorough else 600], [ST], "sessions")
    chk.nontrivial = chk.traces_ok
    return chk.finish()


def replay(pid, path):
    from misc_checks import replay_generic
    return replay_generic(pid, path)
