"""C20 (notified state) and C19 (real sockets): Notified / Transport specs."""
import json
import os

from vlib import Check, ToolError, log, read_lines, seed, tlc, validate_all, zv, known_findings
from conn_checks import _model, run_family

NT = ("NotifiedTrace", "NotifiedTrace.cfg")


def _export_sim(chk, module, cfg, name, n, depth):
    r = tlc(module, cfg, workers=1, timeout=1800, tag=f"{chk.pid}-export-{name}", simulate=f"num={n}",
            extra=["-depth", str(depth), "-seed", str(seed())])
    if not r.ok:
        raise ToolError(f"export {cfg} failed: {r.what}")
    chk.states += r.distinct
    chk.transitions += r.generated
    chk.models.append({"config": f"export:{name}", "generated": r.generated, "behaviours": len(r.replays),
                       "wall_s": round(r.wall, 1)})
    path = chk.wdir(f"behaviours-{name}.json")
    with open(path, "w") as f:
        for b in r.replays:
            f.write(json.dumps(b) + "\n")
    chk.extra.setdefault("behaviours_enumerated_by_tlc", 0)
    chk.extra["behaviours_enumerated_by_tlc"] += len(r.replays)
    return path


def c20(tier):
    chk = Check("C20", tier)
    thorough = tier == "thorough"
    s = seed()
    chk.rule = ("model: one-slot broadcast with subscriber positions, cloned State handles and the one-shot channel: all "
                "interleavings of <=3 (<=4) sets with polls of 2 (3) subscribers created at arbitrary points; safety "
                "invariants plus the liveness property EventuallyLatest under weak fairness of polls; the mutant 'lag "
                "ends the stream' violates them; implementation: TLC-simulated schedules (<=6 sets, 3 subscribers, "
                "24 operations) and seeded random schedules executed in lock-step against zlink-tokio and zlink-smol "
                "with hand-polled streams; non-trivial = scenario with >=1 set and >=1 poll")
    chk.assumptions = ["values are identified by the number of the set that produced them",
                       "'eventually the most recent' is checked as: a poll may report pending/end only when the subscriber "
                       "has seen the most recent value (plus the model's liveness property)"]
    _model(chk, "Notified", "MCNotified.cfg", "2subs-3sets", coverage=True)
    _model(chk, "Notified", "MCNotified_live.cfg", "liveness", coverage=False)
    _model(chk, "Notified", "MCNotified_mutant.cfg", "mutant-lag-ends", expect_violation=True)
    if thorough:
        _model(chk, "Notified", "MCNotified_t.cfg", "3subs-4sets", coverage=True)
    beh = _export_sim(chk, "MCNotifiedExport", "MCNotifiedExport.cfg", "sim", 20000 if thorough else 2000, 25)
    run_family(chk, "notified", "prod", ["--seed", s, "--n", 0, "--behaviours", beh], [NT], "tlc-behaviours")
    run_family(chk, "notified", "prod", ["--seed", s, "--n", 40000 if thorough else 4000], [NT], "random")
    chk.nontrivial = chk.traces_ok
    return chk.finish()


def c19(tier):
    import re
    chk = Check("C19", tier)
    thorough = tier == "thorough"
    s = seed()
    chk.rule = ("model: writer buffer + the transport's write-all loop (progress in the future) + kernel buffer of "
                "capacity K with partial writes + reader, all interleavings: the peer's bytes are a prefix of the sent "
                "frames (Intact) and everything arrives without cancellation; with CancelSend TLC exhibits the duplicated "
                "prefix (the open finding); implementation: real Unix sockets through zlink-tokio and zlink-smol "
                "(bound and inherited-fd listeners, 1..8 connections, both directions at once, sizes 0 B..1 MiB, slow and "
                "fast readers, abandoned sends; an end that closes with unread data behind it; a zlink Server serving a client that "
                "delivers its calls in pieces while other clients call in between); per connection/direction the program-ordered send and receive lists are "
                "validated by TLC; non-trivial = every scenario (distinct seeds/plans)")
    chk.assumptions = ["kernel scheduling and partial writes are sampled, not enumerated (the model enumerates them)",
                       "a reader stops when nothing arrives for 400 ms after its sender finished"]
    _model(chk, "MCTransport", "MCTransport_a.cfg", "no-cancel", coverage=False)
    _model(chk, "MCTransport", "MCTransport_cancel.cfg", "cancel-deviation", expect_violation=True)
    open_kf = [k for k in known_findings("C19") if k.get("status") == "open"]
    strict = ("TransportTrace", "TransportTrace_strict.cfg")
    known = ("TransportTrace", "TransportTrace_known.cfg")
    run_family(chk, "transport", "prod", ["--seed", s, "--n", 200 if thorough else 30, "--mode", "plain"], [strict], "plain")
    run_family(chk, "transport", "prod", ["--seed", s + 1, "--n", 40 if thorough else 6, "--mode", "big"], [strict], "big")
    run_family(chk, "transport", "prod", ["--seed", s + 3, "--n", 120 if thorough else 16, "--mode", "hangup"], [strict], "hangup")
    run_family(chk, "transport", "prod", ["--seed", s + 4, "--n", 200 if thorough else 24, "--mode", "mux"], [strict], "mux")
    cfg = known if open_kf else strict
    run_family(chk, "transport", "prod", ["--seed", s + 2, "--n", 40 if thorough else 6, "--mode", "cancel"], [cfg], "cancel")
    if open_kf and not chk.violations:
        trace = os.path.join(chk.wdir(), "cancel.ndjson")
        rr = tlc(cfg[0], cfg[1], workers=1, env_extra={"TRACE": trace}, deque=True, heap="4g", tag="C19-known")
        witnessed = set(re.findall(r'<<"KNOWN", "([^"]+)">>', rr.out))
        chk.extra["scenarios_witnessing_known_finding"] = len(witnessed)
        if witnessed:
            chk.known(f"{open_kf[0]['what']} (witnessed in {len(witnessed)} scenarios, e.g. {sorted(witnessed)[0]})")
    chk.nontrivial = chk.traces_ok
    return chk.finish()


def replay_generic(pid, path):
    rp = json.load(open(path))
    chk = Check(pid, "quick")
    sc = os.path.join(chk.wdir(), "replay.scenario.json")
    with open(sc, "w") as f:
        f.write(json.dumps(rp["scenario"]) + "\n")
    trace = os.path.join(chk.wdir(), "replay.ndjson")
    zv(rp.get("variant", "prod"), [rp["family"], "--replay", sc, "--out", trace])
    v = validate_all(rp["spec"], rp["cfg"], trace, tag=f"{pid}-replay")
    for l in read_lines(trace):
        print(l)
    if v.rejected:
        print(f"VIOLATION property={pid} replay={path}")
        return 1
    print("replay accepted by", rp["spec"])
    return 0
