#!/usr/bin/env python3
"""Regenerates /verif/MANIFEST.json from the table below (run: python3 lib/manifest_gen.py).

One row per property: either a claimed check (level text, note, technique, design ref) or a
`not_applicable` reason.  Keeping the table here keeps the manifest valid at all times."""
import json
import os

ROOT = os.path.dirname(os.path.dirname(os.path.abspath(__file__)))

ALL = [f"C{n:02d}" for n in range(1, 21)]

# pid -> dict(text, note, technique, ref)
CLAIMED = {}

NOT_BUILT = "not built yet (machinery under construction, see DESIGN.md section 8)"
NOT_APPLICABLE = {}


def claim(pid, text, note, technique, ref):
    CLAIMED[pid] = dict(text=text, note=note, technique=technique, ref=ref)


TRUST = ("trusted base: TLC; the harness's scripted transports/executor and its projections "
         "(DESIGN 2.5); ")

claim("C01",
      "TLC checks exhaustively (all frame sequences x all partitions into reads x all cancel points, small "
      "scope) that the implementation-shaped ReadConn model refines the property-level Framing spec; the "
      "real Connection::receive_* is bound to it in both directions: TLC-enumerated behaviours replayed "
      "byte-exactly, and every execution (also seeded random ones at production buffer constants) "
      "validated by TLC against FramingTrace.",
      TRUST + "a frame's expected result is serde_json's decode of that frame alone",
      "TLA+ model checking (TLC) of ReadConn => Framing + TLC trace validation of harness-recorded executions",
      "4/C01")
claim("C07",
      "Same model with the Cancel action enabled at the only await; TLC enumerates every cancel placement "
      "in scope and the behaviours are replayed against the real code on a poll-by-poll executor; all "
      "executions (incl. random cancel schedules) are validated by TLC against FramingTrace.",
      TRUST + "the scripted read half is itself cancel-safe",
      "TLA+ model checking (TLC) with a Cancel action + TLC trace validation of executions with dropped receive futures",
      "4/C07")
claim("C02",
      "TLC checks exhaustively (all histories of enqueue/send/flush with document lengths around every growth "
      "step and the limit, serializer refusals anywhere) that the implementation-shaped WriteConn model "
      "refines the property-level Outbound spec; TLC-enumerated histories are replayed against the real "
      "Connection and every execution (free-space sweep 0..=600, random histories, write failures) is "
      "validated by TLC against OutboundTrace: each transport write must carry exactly the accepted "
      "documents, each followed by one NUL, in order.",
      TRUST + "a document's identity is the digest of serde_json::to_vec of the same value",
      "TLA+ model checking (TLC) of WriteConn => Outbound + TLC trace validation of recorded write histories",
      "4/C02")
claim("C17",
      "ReadConn (MAXB=8) and WriteConn (MAXB=12) are model-checked for: overflow exactly when buffered bytes "
      "reach the limit, smaller frames accepted, oversized refused, buffer length <= limit, refused message "
      "contributes nothing; hook-lowered builds sweep every size/chunking near every step and the limit in both "
      "directions, thorough adds the production 100 MiB inbound limit; all runs validated by TLC. Thorough also "
      "discharges, with Apalache, inductive invariants of the two size bookkeepings over unbounded integers "
      "(specs/apalache/ReadBound.tla, WriteBound.tla: any limit K*256, any read / message size), with a vacuity check.",
      TRUST + "buffer constants lowered at compile time through the cfg(zlink_verif) hook",
      "TLA+ model checking (TLC) of ReadConn/WriteConn with a size limit + TLC trace validation of boundary sweeps",
      "4/C17")
claim("C06",
      "TLC checks the implementation-shaped Chain model (reply_count / index / done bookkeeping) exhaustively "
      "over all call-flag sequences x conforming reply scripts x trailing frames x groupings of frames into "
      "reads: one ordered write, yielded = owed, ends exactly, never reads when nothing is owed. TLC-enumerated "
      "behaviours are replayed against Connection::chain_call/append/send and every execution (all 4^1..4^5 sequences "
      "of the four flag combinations, random chains, replies reported as general errors, abandoned streams) is validated "
      "by TLC against ChainTrace (which extends Framing).",
      TRUST + "server scripts are conforming; frame classes from isolated decodes",
      "TLA+ model checking (TLC) of Chain + TLC trace validation of recorded chain/stream executions",
      "4/C06")
claim("C11",
      "Chain model with ghost borrows: NoLiveBorrowClobbered holds when items are dropped before the next poll and "
      "TLC exhibits the counterexample when they are held (what the API permits today = open known finding). "
      "Executions that hold every yielded item re-read the borrowed bytes after every poll; TLC validates them "
      "against ChainTrace with exactly the listed deviation enabled: a change not explained by a later transport "
      "read through the same stream is still a violation.",
      TRUST + "held references are re-read as raw bytes; open finding C11-held-item-clobbered in known_findings.json",
      "TLA+ model checking (TLC) with ghost borrow state + TLC trace validation of held-item observations",
      "4/C11")
SRV = ("The implementation-shaped Server model (accept queue, connection and stream vectors, the two "
       "round-robin indices, swap_remove, biased select, cancel-safe polls) is checked exhaustively by TLC in a "
       "small scope; Server::run is then polled by hand over scripted listener/sockets/service, driven by "
       "TLC-simulated behaviours and seeded random schedules, and every execution is validated by TLC against "
       "the property-level ServerTrace spec. ")
claim("C08", SRV + "C08: each call reaches the service exactly once and in order, only what a connection is owed is "
      "written on it, in order, nothing for oneway; completeness at quiescence; on connections whose transport fails a "
      "write (for good or once, having handed over nothing, part or all of the bytes) a reply that got through is never "
      "written again and nothing follows a torn frame.",
      TRUST + "replies carry (connection, call#) so misdelivery is observable",
      "TLA+ model checking (TLC) of Server + TLC trace validation of hand-polled Server::run executions", "4/C08")
claim("C09", SRV + "C09: with faults injected on designated connections (EOF mid-frame/mid-burst, read error, write error "
      "on the k-th write, undecodable calls, garbage) only those connections are ever closed, the server future "
      "never returns and every healthy connection receives exactly what its own script is owed.",
      TRUST + "faults are injected by the scripted mocks",
      "TLA+ model checking (TLC) of Server with fault actions + TLC trace validation under injected faults", "4/C09")
claim("C10", SRV + "C10: stream items in order with the service's continues flags, other connections served meanwhile, "
      "the connection resumes after the stream and pipelined calls are answered in order; a write failure at an "
      "item drops only that subscription.",
      TRUST + "stream items are released by the driver at arbitrary moments",
      "TLA+ model checking (TLC) of Server with parked streams + TLC trace validation", "4/C10")
claim("C18", SRV + "C18: history counters FairWindow / FairBound are invariants of the model (and the start=last mutant "
      "violates them); RoundRobinSet.tla checks the same counters for the round robin alone under any readiness pattern "
      "and any sequence of pushes / swap_removes (4 connections, 5 in thorough), and proofs/RoundRobin.tla carries a "
      "TLAPS-checked proof of the first sentence of the property for any number of connections; the order in which "
      "calls reach the real service is validated against the same counters.",
      TRUST + "calls are injected as whole frames in the fairness scenarios (readiness = availability)",
      "TLA+ model checking (TLC) with fairness history variables, TLAPS proof of the rotating scan for any N + TLC trace validation of service call order", "4/C18")
claim("C04",
      "The classification of a reply is specified as a decision table over five isolated observations of the frame "
      "(ReplyClassify.tla); TLC checks that the table is total, that the code's three-way decode conforms and never maps "
      "a frame with an `error` member to success (the pinned permissive arm is shown to violate it). A systematic frame "
      "corpus x 6 (parameter type, error type) targets x receive_reply and call_method is executed and every case is "
      "validated by TLC against the table, including the payload handed to the caller.",
      TRUST + "the five observations are isolated serde_json decodes of the same frame",
      "TLA+ decision-table model (TLC) + TLC validation of per-case traces from the real decode paths", "4/C04")
claim("C05",
      "Envelope.tla states the envelope laws over abstract member sequences; TLC checks them for all flag sets, flag "
      "placements and unknown members. Real encodings/decodings of Call<M>, derived error enums, the standard service "
      "types, Reply<T> and generated proxies are projected to member names/flags and validated by TLC against the same "
      "operators, including the three spellings of 'no parameters' at four call sites.",
      TRUST + "member order is read from the JSON text; the method type decoded alone is the pass-through reference",
      "TLA+ model checking (TLC) of envelope laws + TLC validation of projected encode/decode cases", "4/C05")
claim("C20",
      "Notified.tla models the one-slot broadcast with subscriber positions, cloned State handles and the one-shot "
      "channel; TLC checks the safety invariants for all interleavings in scope and the liveness property "
      "EventuallyLatest under weak fairness (a 'lag ends the stream' mutant violates them). TLC-simulated and seeded "
      "random schedules are executed in lock-step against zlink_tokio::notified and zlink_smol::notified with "
      "hand-polled streams; TLC validates every step against NotifiedTrace, which also demands that both "
      "implementations report the same thing.",
      TRUST + "values are identified by the number of the set that produced them",
      "TLA+ model checking (TLC, incl. a liveness property) + TLC trace validation of lock-step executions of both crates",
      "4/C20")
claim("C19",
      "Transport.tla composes the writer buffer, the transport's write-all loop (progress held in the future), a kernel "
      "buffer with partial writes and the reader; TLC checks that the peer's bytes stay a prefix of the sent frames for "
      "all interleavings, and exhibits the corruption once a send may be abandoned (the open finding). Real Unix sockets "
      "are exercised through zlink-tokio and zlink-smol (bound and inherited-fd listeners, staggered accepts, 1..8 "
      "connections, both directions at once, 0 B..1 MiB, slow/fast readers, abandoned sends); the per-direction send "
      "and receive lists are validated by TLC against TransportTrace (distinct connection ids included), with exactly "
      "the listed deviation enabled for directions on which a send was abandoned.",
      TRUST + "kernel behaviour is sampled, not enumerated; open finding C19-abandoned-send-resent-from-start",
      "TLA+ model checking (TLC) of the transport composition + TLC trace validation of real-socket executions", "4/C19")
claim("C12",
      "ProxyGen.tla states the call every form of a generated method must put on the wire and how replies and reply "
      "streams must be handed on; TLC checks its laws over the whole declaration space and samples it; gen/proxy.py turns "
      "the sampled declarations into a crate of #[proxy] traits that is compiled against /repo's macro (a compile failure "
      "is a violation) and driven: every form (plain, chain_, chain-extension) with seeded arguments on a capturing socket, "
      "scripted replies through plain methods next to the low-level receive, conforming reply sequences through streaming "
      "methods followed by a later exchange's frame. TLC validates every recorded event against ProxyGen.",
      TRUST + "projection of captured frames to member names; argument values compared with serde_json::to_value",
      "TLA+ specification of the declaration -> wire mapping (TLC-enumerated declarations) + compiled corpus + TLC validation of captured calls/replies",
      "4/C12")
claim("C13",
      "Idl.tla transcribes the Varlink grammar (the three name rules over character classes, types, members, comment "
      "placement) into a recursive-descent acceptor Parse over token lists; TLC checks on an enumerated space of "
      "descriptions that Parse inverts the canonical rendering, that prefixes are rejected or denote the complete members, "
      "and that nothing is ignored when a mutated token list is accepted, and exports the descriptions. Each is rendered "
      "in four layouts; with grammar-driven random descriptions, token/character mutations, truncation at every character "
      "and byte/token soup every text goes through Interface::try_from (catch_unwind + watchdog) and an independent lexer, "
      "and TLC decides per case: rejected iff outside the grammar, accepted texts denote exactly Parse's description "
      "(= the generating tree), no panic, no hang.",
      TRUST + "the harness lexer (text -> tokens) and the accessor projection of zlink's Interface",
      "TLA+ transcription of the grammar (TLC-checked laws, TLC-enumerated descriptions) + TLC validation of every parser verdict",
      "4/C13")
claim("C14",
      "Same specification. Every enumerated / random description is built through the public constructors (owned and "
      "borrowed) or obtained from the parser, rendered by zlink's Display, lexed, and TLC checks that the text is in the "
      "grammar and denotes the description (Parse(tokens) = Norm(tree)), that zlink parses it back to an equal description, "
      "re-renders the same text, and that the GetInterfaceDescription form (serialize -> deserialize -> parse) agrees. The "
      "open finding (commented enum variants rendered without commas) is matched by input shape and outcome only.",
      TRUST + "the harness lexer and the accessor projection; open finding C14-commented-enum-variants-rendered-without-separators",
      "TLA+ grammar acceptor (TLC) validating zlink's rendering and its parse-back for constructor-built descriptions",
      "4/C14")
claim("C15",
      "Codegen.tla (on the descriptions of Idl.tla) says when a JSON value has the shape and the spellings an IDL type "
      "declares, what a call through a generated method must look like and when a reply or error was decoded faithfully; "
      "TLC checks its laws (every description in the grammar, a built value conforms, a misspelt member does not) and builds "
      "descriptions over the name alphabet the property is about; each goes through /repo's zlink-codegen, the generated "
      "modules are compiled against /repo's macros (a failure is a violation), every method is called with values of the "
      "declared types, fed a reply and every declared error; TLC validates every captured call, reply and error.",
      TRUST + "conversion of captured JSON to records; Rust identifiers read off the generated code by position",
      "TLA+ specification of IDL-conforming wire values (TLC-built descriptions) + generated and compiled client code + TLC validation of its traffic",
      "4/C15")
claim("C16",
      "Introspect.tla gives the Varlink type of every supported Rust type expression (VarlinkOf) and the interface "
      "description a group of derive declarations must add up to (IfaceOf); TLC builds groups covering every row of the "
      "table (checked by the driver) nested up to four levels, exports them, gen/introspect.py emits the Rust "
      "declarations with the three derives, the crate is compiled against /repo (a compile failure is a violation), the "
      "derived constants are assembled into an Interface and projected through zlink's accessors; TLC validates derived = "
      "IfaceOf(group) and, with the grammar acceptor of Idl.tla, that the interface renders to text of the grammar that "
      "parses back to an equal description (open C14 finding inherited for doc-commented enum variants).",
      TRUST + "accessor projection and lexer of harness/src/idl.rs; doc comments written as #[doc = \"...\"]",
      "TLA+ specification of the Rust -> Varlink type mapping (TLC-built declaration groups) + compiled corpus + TLC validation of derived descriptions",
      "4/C16")
claim("C03",
      "JsonSer.tla specifies the compact encoding of the serde data model (Encode, EncodeKey, the key classes, "
      "EscapeOf over code points). TLC enumerates value trees, checks the text is balanced and exports them; each "
      "is instantiated as a dynamic serde value and encoded by zlink's serializer for every buffer length and "
      "through send_error at several fill levels. TLC validates text = Encode(tree), refusal exactly for "
      "non-string-like keys, identity with serde_json, independence of free space, and EscapeOf over the "
      "run-length-encoded exhaustive sweep of all Unicode scalars (as string, key, char).",
      TRUST + "float and wide-integer atoms are compared with serde_json inside the harness (TLC has no floats)",
      "TLA+ specification of the encoding (TLC-enumerated trees) + TLC validation of encodings and exhaustive scalar sweeps",
      "4/C03")


def main():
    checks = []
    for pid in ALL:
        if pid not in CLAIMED:
            continue
        c = CLAIMED[pid]
        checks.append({
            "property_id": pid,
            "quick_cmd": f"bin/check {pid} --tier quick",
            "thorough_cmd": f"bin/check {pid} --tier thorough",
            "evidence_file": f"/verif/evidence/{pid}.json",
            "replay_cmd_template": f"bin/check {pid} --replay {{path}}",
            "engine": "tlc",
            "level_claimed": {"category": "model_checking", "text": c["text"],
                              "design_ref": f"DESIGN.md section {c['ref']}"},
            "level_note": c["note"],
            "technique": c["technique"],
        })
    na = [{"property_id": pid, "reason": NOT_APPLICABLE.get(pid, NOT_BUILT)}
          for pid in ALL if pid not in CLAIMED]
    with open(os.path.join(ROOT, "MANIFEST.json")) as f:
        old = json.load(f)
    hooks = old["hooks"]
    m = {
        "version": 1,
        "setup_cmd": "bin/setup",
        "hooks": hooks,
        "engines": [
            {"name": "tlc", "path": "/opt/veriftools/tla/tla2tools.jar", "serves_properties": sorted(CLAIMED),
             "kind_free_text": "TLA+ explicit-state model checker; also validates traces recorded from the Rust harness"},
            {"name": "corpus", "path": "/verif/corpus", "serves_properties": [x for x in ("C12", "C15", "C16") if x in CLAIMED],
             "kind_free_text": "Rust crates generated by gen/*.py from TLC-enumerated declarations, compiled against /repo's "
                               "macros / code generator and run; their NDJSON events are validated by TLC"},
            {"name": "zv", "path": "/verif/harness", "serves_properties": sorted(CLAIMED),
             "kind_free_text": "Rust conformance harness: scripted transports/listener/service on a poll-by-poll "
                               "executor; emits NDJSON traces that TLC validates"},
        ],
        "checks": checks,
        "notes": "See DESIGN.md. Every verdict is a TLC verdict (model invariant/refinement or trace rejection).",
        "not_applicable": na,
    }
    with open(os.path.join(ROOT, "MANIFEST.json"), "w") as f:
        json.dump(m, f, indent=1)
    print(f"manifest: {len(checks)} checks, {len(na)} not_applicable")


if __name__ == "__main__":
    main()
