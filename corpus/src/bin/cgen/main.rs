//! `zc-cgen <idl-dir> <out-dir>` — runs /repo's code generator (zlink_codegen::generate_interface) over
//! every `*.varlink` file of a directory and writes the generated Rust, untouched, to `<out-dir>/<stem>.rs`.
//! A description the parser rejects or the generator fails on is reported in `<out-dir>/<stem>.err`.

fn main() {
    let args: Vec<String> = std::env::args().collect();
    let (src, dst) = (&args[1], &args[2]);
    std::fs::create_dir_all(dst).unwrap();
    let mut names: Vec<_> = std::fs::read_dir(src)
        .unwrap()
        .filter_map(|e| e.ok())
        .map(|e| e.path())
        .filter(|p| p.extension().map(|x| x == "varlink").unwrap_or(false))
        .collect();
    names.sort();
    for p in names {
        let stem = p.file_stem().unwrap().to_string_lossy().to_string();
        let text = std::fs::read_to_string(&p).unwrap();
        let out = std::panic::catch_unwind(|| {
            let iface = zlink::idl::Interface::try_from(text.as_str()).map_err(|e| format!("parse: {e}"))?;
            zlink_codegen::generate_interface(&iface).map_err(|e| format!("generate: {e}"))
        });
        let (ok, body) = match out {
            Ok(Ok(code)) => (true, code),
            Ok(Err(e)) => (false, e),
            Err(_) => (false, "panic in the parser or the generator".to_string()),
        };
        let target = format!("{dst}/{stem}.{}", if ok { "rs" } else { "err" });
        let same = std::fs::read_to_string(&target).map(|old| old == body).unwrap_or(false);
        if !same {
            std::fs::write(&target, body).unwrap();
        }
    }
}
