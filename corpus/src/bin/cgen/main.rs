//! `zc-cgen <idl-dir> <out-dir>` — runs /repo's code generator over every `*.varlink` file of a directory and
//! writes the generated Rust, untouched, to `<out-dir>/<stem>.rs`.
//! A description the parser rejects or the generator fails on is reported in `<out-dir>/<stem>.err`.
//!
//! The generator is used the way `generate_interfaces` and the command line tool use it for several
//! descriptions: one `CodeGenerator` that has already generated another interface (the previous file)
//! generates this one; what it appends for this interface is what is written out.  A generator whose
//! output for an interface depends on what it generated before shows here.

fn main() {
    let args: Vec<String> = std::env::args().collect();
    let (src, dst) = (&args[1], &args[2]);
    std::fs::create_dir_all(dst).unwrap();
    let mut names: Vec<_> = std::fs::read_dir(src)
        .unwrap()
        .filter_map(|e| e.ok())
        .map(|e| e.path())
        .filter(|p| p.extension().map(|x| x == "varlink").unwrap_or(false))
        .collect();
    names.sort();
    let texts: Vec<String> = names.iter().map(|p| std::fs::read_to_string(p).unwrap()).collect();
    for (i, p) in names.iter().enumerate() {
        let stem = p.file_stem().unwrap().to_string_lossy().to_string();
        let text = texts[i].clone();
        let warm = texts[(i + texts.len() - 1) % texts.len()].clone();
        let out = std::panic::catch_unwind(|| {
            let iface = zlink::idl::Interface::try_from(text.as_str()).map_err(|e| format!("parse: {e}"))?;
            let fresh = zlink_codegen::generate_interface(&iface).map_err(|e| format!("generate: {e}"))?;
            // the same interface from a generator that has generated the previous description before
            let warmed = (|| -> Option<String> {
                let w = zlink::idl::Interface::try_from(warm.as_str()).ok()?;
                let head = zlink_codegen::generate_interface(&w).ok()?;
                let mut g = zlink_codegen::CodeGenerator::new();
                g.generate_interface(&w, false).ok()?;
                g.generate_interface(&iface, false).ok()?;
                let all = g.output();
                all.strip_prefix(head.as_str()).map(|s| s.to_string())
            })();
            Ok::<String, String>(warmed.unwrap_or(fresh))
        });
        let (ok, body) = match out {
            Ok(Ok(code)) => (true, code),
            Ok(Err(e)) => (false, e),
            Err(_) => (false, "panic in the parser or the generator".to_string()),
        };
        let target = format!("{dst}/{stem}.{}", if ok { "rs" } else { "err" });
        let same = std::fs::read_to_string(&target).map(|old| old == body).unwrap_or(false);
        if !same {
            std::fs::write(&target, body).unwrap();
        }
    }
}
