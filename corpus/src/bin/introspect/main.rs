//! `zc-introspect` — C16 corpus driver.  `generated.rs` (written by gen/introspect.py from the groups
//! TLC enumerated) declares Rust types with the introspection derives; this file assembles an
//! interface description from the derived constants, projects it through zlink's public accessors
//! (the harness's own projection) and records what zlink makes of rendering it and parsing it back.
//! No verdict is taken here: specs/IntrospectTrace.tla decides.

#[path = "../../../../harness/src/util.rs"]
#[allow(dead_code)]
mod util;
#[path = "../../../../harness/src/wire.rs"]
#[allow(dead_code)]
mod wire;
#[path = "../../../../harness/src/idl.rs"]
#[allow(dead_code)]
mod idl;

pub mod common {
    use serde_json::{json, Value};
    use zlink_core::idl as z;

    pub struct Stats {
        pub groups: u64,
    }

    fn leak<T>(t: T) -> &'static T {
        Box::leak(Box::new(t))
    }

    pub fn observe_group(id: &str, group: &str, customs: &[&'static z::CustomType<'static>], errors: &'static [&'static z::Error<'static>],
                         probes: &[&'static z::Type<'static>], st: &mut Stats) {
        st.groups += 1;
        let g: Value = serde_json::from_str(group).unwrap();
        // method Probe(p1: T1, ...) -> ()
        let params: Vec<&'static z::Parameter<'static>> = probes
            .iter()
            .enumerate()
            .map(|(i, t)| leak(z::Parameter::new(leak(format!("p{}", i + 1)).as_str(), t, &[])))
            .collect();
        let probe: &'static z::Method<'static> = leak(z::Method::new("Probe", leak(params).as_slice(), &[], &[]));
        let methods: &'static [&'static z::Method<'static>] = leak(vec![probe]).as_slice();
        let customs: &'static [&'static z::CustomType<'static>] = leak(customs.to_vec()).as_slice();
        let iface = z::Interface::new("org.example.intro", methods, customs, errors, &[]);
        let derived = crate::idl::canon(&iface);
        let (mut e, _text, _accepted) = crate::idl::render_obs(&iface);
        e["ev"] = json!("introspect");
        e["id"] = json!(id);
        e["group"] = g;
        e["derived"] = json!(derived);
        crate::util::ev(e);
    }
}

#[allow(clippy::all)]
mod generated;

fn main() {
    let args: Vec<String> = std::env::args().collect();
    let out = util::arg_val(&args, "--out").unwrap_or_else(|| "introspect.ndjson".into());
    std::panic::set_hook(Box::new(|info| eprintln!("[zc-introspect] panic: {info}")));
    util::log_open(&out);
    util::ev(serde_json::json!({"ev":"reset","sid":"introspect","id":"","text":""}));
    let mut st = common::Stats { groups: 0 };
    generated::drive_all(&mut st);
    util::ev(serde_json::json!({"ev":"end","id":"","text":""}));
    let lines = util::log_close();
    util::write_json(&format!("{out}.summary.json"), &serde_json::json!({"groups": st.groups, "declared": generated::N_GROUPS, "events": lines}));
}
