//! `zc-codegen` — C15 corpus driver.  `gen/i<k>.rs` are the modules /repo's zlink-codegen produced for the
//! interface descriptions TLC enumerated (written by `zc-cgen`); `generated.rs` (gen/codegen.py) holds one
//! driver per module that calls every generated method with values of the declared types and feeds
//! replies and errors built from the description.  This file records what went over the scripted socket.
//! No verdict is taken here: specs/CodegenTrace.tla decides.

#[path = "../../../../harness/src/util.rs"]
#[allow(dead_code)]
mod util;
#[path = "../../../../harness/src/wire.rs"]
#[allow(dead_code)]
mod wire;

pub mod common {
    pub use crate::util::{err_class, ev, poll_once};
    pub use crate::wire::{new_wire, split_frames, Sock, Wire};
    use serde_json::{json, Value};
    pub use zlink_core::Connection;

    pub struct Stats {
        pub calls: u64,
        pub replies: u64,
        pub errors: u64,
    }

    pub fn fresh() -> (Wire, Connection<Sock>) {
        let wire = new_wire(0);
        {
            let mut w = wire.borrow_mut();
            w.log_reads = false;
            w.log_writes = false;
        }
        let conn = Connection::new(Sock(wire.clone()));
        (wire, conn)
    }

    pub fn feed(wire: &Wire, frames: &[&str]) {
        let mut bytes = Vec::new();
        for f in frames {
            bytes.extend_from_slice(f.as_bytes());
            bytes.push(0);
        }
        wire.borrow_mut().inb.push_back(Some(bytes));
    }

    /// A JSON value as the record the specification reads: [k, e, a, m].
    pub fn jrec(v: &Value) -> Value {
        match v {
            Value::Null => json!({"k":"null","e":"","a":[],"m":[]}),
            Value::Bool(_) => json!({"k":"bool","e":"","a":[],"m":[]}),
            Value::Number(n) => json!({"k": if n.is_i64() || n.is_u64() { "int" } else { "float" },"e":"","a":[],"m":[]}),
            Value::String(s) => json!({"k":"str","e":s,"a":[],"m":[]}),
            Value::Array(xs) => json!({"k":"arr","e":"","a":xs.iter().map(jrec).collect::<Vec<_>>(),"m":[]}),
            Value::Object(m) => json!({"k":"obj","e":"","a":[],"m":m.iter().map(|(k, v)| json!({"n":k,"v":jrec(v)})).collect::<Vec<_>>()}),
        }
    }

    pub fn observe_cg_call(id: &str, iface: &str, mi: usize, present: &[bool], wire: &Wire, st: &mut Stats) {
        observe_cg_call_at(id, iface, mi, present, wire, 0, st)
    }

    /// `behind`: the number of calls the chain holds in front of the one observed (the chain-extending form)
    pub fn observe_cg_call_at(id: &str, iface: &str, mi: usize, present: &[bool], wire: &Wire, behind: usize, st: &mut Stats) {
        st.calls += 1;
        let a: Value = serde_json::from_str(iface).unwrap();
        let (frames, _complete) = split_frames(&wire.borrow().out);
        let mut e = json!({"ev":"cg_call","id":id,"iface":a,"mi":mi,"present":present,"frames":frames.len().saturating_sub(behind),"method":"","has_params":false,
                           "params":jrec(&Value::Null),"more":false,"oneway":false,"extra":[],"raw":""});
        if let Some(f) = frames.get(behind) {
            e["raw"] = json!(String::from_utf8_lossy(f));
            if let Ok(Value::Object(m)) = serde_json::from_slice::<Value>(f) {
                e["method"] = m.get("method").cloned().unwrap_or(json!(""));
                e["more"] = json!(m.get("more") == Some(&json!(true)));
                e["oneway"] = json!(m.get("oneway") == Some(&json!(true)));
                let mut extra: Vec<&String> = m
                    .iter()
                    .filter(|(k, v)| !(["method", "parameters"].contains(&k.as_str()) || (["more", "oneway", "upgrade"].contains(&k.as_str()) && **v == json!(false))
                                       || (["more", "oneway"].contains(&k.as_str()) && **v == json!(true))))
                    .map(|(k, _)| k)
                    .collect();
                extra.sort();
                e["extra"] = json!(extra);
                if let Some(p) = m.get("parameters") {
                    e["has_params"] = json!(true);
                    e["params"] = jrec(p);
                }
            }
        }
        ev(e);
    }

    pub fn observe_cg_reply(id: &str, iface: &str, mi: usize, fed: &str, cls: &str, back: Value, st: &mut Stats) {
        st.replies += 1;
        let a: Value = serde_json::from_str(iface).unwrap();
        let fedv: Value = serde_json::from_str(fed).unwrap();
        ev(json!({"ev":"cg_reply","id":id,"iface":a,"mi":mi,"fed":jrec(&fedv),"cls":cls,"same":back == fedv,
                  "raw":fed,"back":back.to_string()}));
    }

    pub fn observe_cg_error(id: &str, iface: &str, ei: usize, frame: &str, cls: &str, back: Value, st: &mut Stats) {
        st.errors += 1;
        let a: Value = serde_json::from_str(iface).unwrap();
        let fr: Value = serde_json::from_str(frame).unwrap();
        let params = fr.get("parameters").cloned().unwrap_or(json!({}));
        ev(json!({"ev":"cg_error","id":id,"iface":a,"ei":ei,"error":fr["error"],"fed":jrec(&params),"cls":cls,"same":back == fr,
                  "raw":frame,"back":back.to_string()}));
    }
}

mod generated;

fn main() {
    let args: Vec<String> = std::env::args().collect();
    let out = util::arg_val(&args, "--out").unwrap_or_else(|| "codegen.ndjson".into());
    std::panic::set_hook(Box::new(|info| eprintln!("[zc-codegen] panic: {info}")));
    util::log_open(&out);
    util::ev(serde_json::json!({"ev":"reset","sid":"codegen","id":"","raw":""}));
    let mut st = common::Stats { calls: 0, replies: 0, errors: 0 };
    generated::drive_all(&mut st);
    for (i, msg) in generated::FAILED {
        util::ev(serde_json::json!({"ev":"cg_failed","id":format!("i{i}"),"raw":msg}));
    }
    util::ev(serde_json::json!({"ev":"end","id":"","raw":""}));
    let lines = util::log_close();
    util::write_json(&format!("{out}.summary.json"), &serde_json::json!({"ifaces": generated::N_IFACES, "calls": st.calls, "replies": st.replies,
                     "errors": st.errors, "generator_failures": generated::FAILED.len(), "events": lines}));
}
