//! `zc-proxy` — C12 corpus driver.  `generated.rs` (written by gen/proxy.py from the declarations
//! TLC enumerated) holds one #[proxy] trait per declaration and a driver per trait; this file holds
//! what the drivers share: the scripted socket (the harness's own), the projection of captured frames
//! and the recording of events.  No verdict is taken here: specs/ProxyTrace.tla decides.

#[path = "../../../../harness/src/util.rs"]
#[allow(dead_code)]
mod util;
#[path = "../../../../harness/src/wire.rs"]
#[allow(dead_code)]
mod wire;

pub mod common {
    pub use crate::util::{ev, poll_once, Rng};
    pub use crate::wire::{new_wire, split_frames, Sock, Wire};
    use serde::{Deserialize, Serialize};
    use serde_json::{json, Value};
    pub use zlink_core::Connection;

    pub struct Stats {
        pub calls: u64,
        pub replies: u64,
        pub streams: u64,
    }

    #[derive(Debug, Serialize)]
    pub struct Pt<'a> {
        pub x: i64,
        pub label: &'a str,
        pub flag: Option<bool>,
    }

    #[derive(Debug, Serialize, Deserialize, PartialEq)]
    pub struct Out {
        pub v: u32,
        pub s: String,
    }

    #[derive(Debug, PartialEq, zlink_core::ReplyError)]
    #[zlink(interface = "org.example.px", crate = "zlink_core")]
    pub enum UErr {
        NotFound,
        Bad { code: i32 },
    }

    #[derive(Debug, Serialize)]
    #[serde(tag = "method")]
    pub enum Base {
        #[serde(rename = "org.example.px.Base")]
        Ping,
    }

    pub fn fresh() -> (Wire, Connection<Sock>) {
        let wire = new_wire(0);
        {
            let mut w = wire.borrow_mut();
            w.log_reads = false;
            w.log_writes = false;
        }
        let conn = Connection::new(Sock(wire.clone()));
        (wire, conn)
    }

    /// Make reply frames available to the connection (all in one transport read).
    pub fn feed(wire: &Wire, frames: &[&str]) {
        let mut bytes = Vec::new();
        for f in frames {
            bytes.extend_from_slice(f.as_bytes());
            bytes.push(0);
        }
        wire.borrow_mut().inb.push_back(Some(bytes));
    }

    /// Projection of the call(s) a form wrote: member names only, plus whether each argument's
    /// member holds the argument's own JSON value.
    pub fn observe_call(id: &str, decl: &str, form: &str, wire: &Wire, skip: usize, args: &[(&'static str, Value)], st: &mut Stats) {
        st.calls += 1;
        let d: Value = serde_json::from_str(decl).unwrap();
        let (frames, complete) = split_frames(&wire.borrow().out);
        let n = frames.len().saturating_sub(skip);
        let mut e = json!({"ev":"call","id":id,"decl":d,"form":form,"frames":n,"terminated":complete,"method":"","has_params":false,
                           "pnames":[],"nulls":[],"more":false,"oneway":false,"extra":[],"values_ok":false,"raw":""});
        if let Some(f) = frames.get(skip) {
            e["raw"] = json!(String::from_utf8_lossy(f));
            if let Ok(Value::Object(m)) = serde_json::from_slice::<Value>(f) {
                e["method"] = m.get("method").cloned().unwrap_or(json!(""));
                e["more"] = json!(m.get("more") == Some(&json!(true)));
                e["oneway"] = json!(m.get("oneway") == Some(&json!(true)));
                let mut extra: Vec<String> = m
                    .iter()
                    .filter(|(k, v)| {
                        !(["method", "parameters"].contains(&k.as_str()) || (["more", "oneway", "upgrade"].contains(&k.as_str()) && v.is_boolean() && (k.as_str() != "upgrade" || **v == json!(false))))
                    })
                    .map(|(k, _)| k.clone())
                    .collect();
                extra.sort();
                e["extra"] = json!(extra);
                let mut values_ok = true;
                match m.get("parameters") {
                    Some(Value::Object(ps)) => {
                        e["has_params"] = json!(true);
                        e["pnames"] = json!(ps.keys().collect::<Vec<_>>());
                        e["nulls"] = json!(ps.iter().filter(|(_, v)| v.is_null()).map(|(k, _)| k).collect::<Vec<_>>());
                        // every member must be the JSON value of exactly one argument that was passed,
                        // namely the one declared under that wire name
                        for (k, v) in ps {
                            let declared = d["params"].as_array().unwrap().iter().find(|p| {
                                let wn = if p["rename"].as_str().unwrap().is_empty() { p["name"].as_str().unwrap().trim_start_matches("r#") } else { p["rename"].as_str().unwrap() };
                                wn == k
                            });
                            match declared {
                                Some(p) => {
                                    let want = args.iter().find(|(n, _)| *n == p["name"].as_str().unwrap()).map(|(_, v)| v);
                                    if want != Some(v) {
                                        values_ok = false;
                                    }
                                }
                                None => {
                                    // not a declared wire name: the specification rejects the name; the value is the
                                    // argument's if some argument has it
                                    if !args.iter().any(|(_, av)| av == v) {
                                        values_ok = false;
                                    }
                                }
                            }
                        }
                    }
                    Some(_) => {
                        e["has_params"] = json!(true);
                        values_ok = false;
                    }
                    None => {}
                }
                e["values_ok"] = json!(values_ok);
            }
        }
        ev(e);
    }

    fn err_outcome(e: &zlink_core::Error) -> (&'static str, String) {
        let cls = crate::util::err_class(e);
        if let zlink_core::Error::VarlinkService(s) = e {
            return (cls, format!("{s:?}"));
        }
        (cls, String::new())
    }
    pub fn class_out(x: zlink_core::Result<Result<Out, UErr>>) -> (&'static str, String) {
        match x {
            Ok(Ok(o)) => ("success", format!("{o:?}")),
            Ok(Err(e)) => ("method_err", format!("{e:?}")),
            Err(e) => err_outcome(&e),
        }
    }
    pub fn class_unit(x: zlink_core::Result<Result<(), UErr>>) -> (&'static str, String) {
        match x {
            Ok(Ok(())) => ("success", String::new()),
            Ok(Err(e)) => ("method_err", format!("{e:?}")),
            Err(e) => err_outcome(&e),
        }
    }

    /// What the low-level receive makes of the next frame on `conn`: (class, payload, continues).
    fn low_level(conn: &mut Connection<Sock>, out: &str) -> (&'static str, String, bool) {
        if out == "unit" {
            let fut = conn.receive_reply::<serde::de::IgnoredAny, UErr>();
            let mut fut = std::pin::pin!(fut);
            match poll_once(fut.as_mut()) {
                std::task::Poll::Ready(Ok(Ok(r))) => ("success", String::new(), r.continues() == Some(true)),
                std::task::Poll::Ready(Ok(Err(e))) => ("method_err", format!("{e:?}"), false),
                std::task::Poll::Ready(Err(e)) => {
                    let (c, s) = err_outcome(&e);
                    (c, s, false)
                }
                std::task::Poll::Pending => ("pending", String::new(), false),
            }
        } else {
            let fut = conn.receive_reply::<Out, UErr>();
            let mut fut = std::pin::pin!(fut);
            match poll_once(fut.as_mut()) {
                std::task::Poll::Ready(Ok(Ok(r))) => {
                    let cont = r.continues() == Some(true);
                    match r.into_parameters() {
                        Some(p) => ("success", format!("{p:?}"), cont),
                        None => ("success_without_parameters", String::new(), cont),
                    }
                }
                std::task::Poll::Ready(Ok(Err(e))) => ("method_err", format!("{e:?}"), false),
                std::task::Poll::Ready(Err(e)) => {
                    let (c, s) = err_outcome(&e);
                    (c, s, false)
                }
                std::task::Poll::Pending => ("pending", String::new(), false),
            }
        }
    }

    fn success_frame(out: &str, r: &mut Rng, cont: Option<bool>) -> String {
        let c = match cont {
            Some(b) => format!(",\"continues\":{b}"),
            None => String::new(),
        };
        if out == "unit" {
            match r.below(6) {
                0 => format!("{{\"parameters\":{{}}{c}}}"),
                1 => format!("{{\"parameters\":null{c}}}"),
                // members nobody asked for (a newer service), names spelled literally and with escapes
                2 => format!("{{\"parameters\":{{\"extra\":{},\"nested\":[1,{{\"a\":null}}]}}{c}}}", r.below(100)),
                3 => format!("{{\"parameters\":{{\"r\\u00e9sultat\":\"x\",\"a\\/b\":true,\"s\\u0065q\":{}}}{c}}}", r.below(100)),
                _ => {
                    if c.is_empty() {
                        "{}".to_string()
                    } else {
                        format!("{{{}}}", &c[1..])
                    }
                }
            }
        } else {
            let (v, t) = (r.below(100000), r.below(1000));
            match r.below(5) {
                0 => format!("{{\"parameters\":{{\"s\":\"r{t}\",\"v\":{v}}}{c}}}"),
                1 => format!("{{\"parameters\":{{\"v\":{v},\"unknown\":[{{}}],\"s\":\"r{t}\"}}{c}}}"),
                2 => format!("{{ \"parameters\" : {{ \"\\u0076\" : {v} , \"s\" : \"r{t}\" }}{c} }}"),
                _ => format!("{{\"parameters\":{{\"v\":{v},\"s\":\"r{t}\"}}{c}}}"),
            }
        }
    }
    fn error_frame(r: &mut Rng) -> String {
        match r.below(6) {
            0 => "{\"error\":\"org.example.px.NotFound\"}".into(),
            1 => format!("{{\"error\":\"org.example.px.Bad\",\"parameters\":{{\"code\":{}}}}}", r.below(1000)),
            2 => "{\"error\":\"org.varlink.service.MethodNotImplemented\",\"parameters\":{\"method\":\"org.example.px.X\"}}".into(),
            3 => "{\"error\":\"org.varlink.service.PermissionDenied\"}".into(),
            4 => "{\"error\":\"io.other.Unknown\",\"parameters\":{\"a\":1}}".into(),
            _ => "{\"parameters\":".into(),
        }
    }

    /// Reply frames a plain method is confronted with (one per call).
    pub fn reply_frames(out: &str, r: &mut Rng) -> Vec<String> {
        let mut v = vec![success_frame(out, r, None), success_frame(out, r, Some(false))];
        for _ in 0..3 {
            v.push(error_frame(r));
        }
        v.push("{\"error\":\"org.example.px.NotFound\",\"parameters\":{}}".into());
        v
    }

    pub fn observe_reply(id: &str, decl: &str, fi: usize, frame: &str, out: &str, got: (&'static str, String), st: &mut Stats) {
        st.replies += 1;
        let (wire, mut conn) = fresh();
        feed(&wire, &[frame]);
        let low = low_level(&mut conn, out);
        let _ = decl;
        ev(json!({"ev":"reply","id":id,"fi":fi,"frame":frame,"out":out,"low":{"cls":low.0,"canon":low.1},
                  "proxy":{"cls":got.0,"canon":got.1}}));
    }

    /// Conforming reply sequences for a `more` call, followed by a frame of a later exchange.
    pub fn stream_scripts(out: &str, r: &mut Rng) -> Vec<Vec<String>> {
        let mut v = Vec::new();
        for k in 0..4usize {
            let mut s: Vec<String> = (0..k).map(|_| success_frame(out, r, Some(true))).collect();
            match r.below(3) {
                0 => s.push(success_frame(out, r, None)),
                1 => s.push(success_frame(out, r, Some(false))),
                _ => s.push(match r.below(2) {
                    0 => "{\"error\":\"org.example.px.NotFound\"}".to_string(),
                    _ => "{\"error\":\"org.example.px.Bad\",\"parameters\":{\"code\":7}}".to_string(),
                }),
            }
            // a later exchange's reply: must stay unread
            s.push(success_frame(out, r, None));
            v.push(s);
        }
        v
    }

    #[allow(clippy::too_many_arguments)]
    pub fn observe_stream(id: &str, decl: &str, si: usize, script: &[String], out: &str, items: Vec<(&'static str, String)>, ended: bool,
                          conn: &mut Connection<Sock>, st: &mut Stats) {
        st.streams += 1;
        let _ = decl;
        // what is left on the proxy's connection after its stream
        let next = low_level(conn, out);
        // the low-level view of the same frames
        let (wire, mut lconn) = fresh();
        let refs: Vec<&str> = script.iter().map(|s| s.as_str()).collect();
        feed(&wire, &refs);
        let low: Vec<Value> = (0..script.len())
            .map(|_| {
                let l = low_level(&mut lconn, out);
                json!({"cls":l.0,"canon":l.1,"cont":l.2})
            })
            .collect();
        let items: Vec<Value> = items.into_iter().map(|(c, s)| json!({"cls":c,"canon":s})).collect();
        ev(json!({"ev":"stream","id":id,"si":si,"low":low,"items":items,"ended":ended,"next":{"cls":next.0,"canon":next.1}}));
    }
}

#[allow(clippy::all)]
mod generated;

fn main() {
    let args: Vec<String> = std::env::args().collect();
    let seed: u64 = util::arg_val(&args, "--seed").and_then(|s| s.parse().ok()).unwrap_or(1);
    let rounds: u64 = util::arg_val(&args, "--rounds").and_then(|s| s.parse().ok()).unwrap_or(1);
    let out = util::arg_val(&args, "--out").unwrap_or_else(|| "proxy.ndjson".into());
    std::panic::set_hook(Box::new(|info| eprintln!("[zc-proxy] panic: {info}")));
    let mut r = util::Rng::new(seed ^ 0xc12);
    util::log_open(&out);
    util::ev(serde_json::json!({"ev":"reset","sid":"proxy","id":""}));
    let mut st = common::Stats { calls: 0, replies: 0, streams: 0 };
    for _ in 0..rounds {
        generated::drive_all(&mut r, &mut st);
    }
    util::ev(serde_json::json!({"ev":"end","id":""}));
    let lines = util::log_close();
    util::write_json(&format!("{out}.summary.json"), &serde_json::json!({"decls": generated::N_DECLS, "calls": st.calls, "replies": st.replies,
                     "streams": st.streams, "events": lines}));
}
