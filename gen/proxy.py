#!/usr/bin/env python3
"""gen/proxy.py <decls.json> <out.rs>

Turns the proxy method declarations enumerated by TLC (specs/MCProxyGen.tla, one JSON object per line)
into Rust: one module per declaration holding the #[proxy] trait and a driver that invokes every call
form the macro generates with seeded argument values and hands the captured frames to the observer of
corpus/proxy/src/main.rs.  Nothing here predicts what the macro puts on the wire: the expectation lives
in specs/ProxyGen.tla; the driver only records the declaration and the JSON value of each argument."""
import json
import sys


def rust_type(cls, lt, pos, sp=""):
    a = "'a " if lt == "explicit" else ""
    al = "<'a>" if lt == "explicit" else "<'_>"
    return {
        "scalar": "u32",
        "str": f"&{a}str",
        "string": "String",
        "opt": f"{sp}Option<&{a}str>",
        "optnum": f"{sp}Option<u32>",
        "slice": f"&{a}[u32]",
        "strslice": f"&{a}[&{a}str]",
        "struct": f"Pt{al}",
        "generic": f"T{pos}",
    }[cls]


def value_decl(p, pos, idx):
    """(let statements, argument expression)"""
    n = f"v{pos}"
    cls = p["cls"]
    if cls == "scalar":
        return [f"let {n}: u32 = r.below(1_000_000) as u32;"], n
    if cls == "str":
        return [f'let {n}: String = format!("s{{}}", r.below(1000));'], f"&{n}"
    if cls == "string":
        return [f'let {n}: String = format!("S{{}}\\"q", r.below(1000));'], f"{n}.clone()"
    if cls == "opt":
        if p["none"]:
            return [f"let {n}: Option<String> = None;"], f"{n}.as_deref()"
        return [f'let {n}: Option<String> = Some(format!("o{{}}", r.below(1000)));'], f"{n}.as_deref()"
    if cls == "optnum":
        if p["none"]:
            return [f"let {n}: Option<u32> = None;"], n
        return [f"let {n}: Option<u32> = Some(r.below(1000) as u32);"], n
    if cls == "slice":
        return [f"let {n}: Vec<u32> = (0..r.range(0, 3)).map(|_| r.below(100) as u32).collect();"], f"&{n}"
    if cls == "strslice":
        return [f'let {n}_own: Vec<String> = (0..r.range(0, 3)).map(|_| format!("e{{}}", r.below(100))).collect();',
                f"let {n}: Vec<&str> = {n}_own.iter().map(|s| s.as_str()).collect();"], f"&{n}"
    if cls == "struct":
        return [f'let {n}_label: String = format!("L{{}}", r.below(100));',
                f"let {n}_x: i64 = r.below(1000) as i64 - 500;"], f"Pt {{ x: {n}_x, label: &{n}_label, flag: None }}"
    if cls == "generic":
        if (pos + idx) % 2 == 0:
            return [f"let {n}: u16 = r.below(60000) as u16;"], n
        return [f'let {n}: String = format!("g{{}}", r.below(1000));'], f"{n}.clone()"
    raise SystemExit(f"unknown class {cls}")


def gen_decl(i, d, group):
    words = d["words"]
    fname = "_".join(words)
    lt = d["lt"]
    kind = d["kind"]
    out_ty = "()" if d["out"] == "unit" else "Out"
    generics = []
    if lt == "explicit":
        generics.append("'a")
    params_sig = []
    lets = []
    args = []
    expects = []
    for pos, p in enumerate(d["params"], start=1):
        if p["cls"] == "generic":
            generics.append(f"T{pos}: serde::Serialize + std::fmt::Debug")
        attr = f'#[zlink(rename = "{p["rename"]}")] ' if p["rename"] else ""
        params_sig.append(f"{attr}{p['name']}: {rust_type(p['cls'], lt, pos, p.get('sp', ''))}")
        ls, ex = value_decl(p, pos, i)
        lets.extend(ls)
        args.append(ex)
        expects.append(f'args.push(({json.dumps(p["name"])}, serde_json::to_value(&({ex})).unwrap()));')
    gen = f"<{', '.join(generics)}>" if generics else ""
    attrs = []
    if d["rename"]:
        attrs.append(f'rename = "{d["rename"]}"')
    if kind == "more":
        attrs.append("more")
    if kind == "oneway":
        attrs.append("oneway")
    attr_line = f"        #[zlink({', '.join(attrs)})]\n" if attrs else ""
    if i % 3 == 0:
        # other attributes in front of (and behind) the macro's own one
        attr_line = "        /// Documented: the first line.\n        /// The second line.\n" + attr_line + "        #[allow(clippy::too_many_arguments)]\n"
    if kind == "oneway":
        ret = "zlink_core::Result<()>"
    elif kind == "more":
        ret = (f"zlink_core::Result<impl futures_util::stream::Stream<Item = zlink_core::Result<"
               f"std::result::Result<{out_ty}, UErr>>>>")
    else:
        ret = f"zlink_core::Result<std::result::Result<{out_ty}, UErr>>"
    sig_params = "".join(f", {p}" for p in params_sig)
    argl = ", ".join(args)
    decl_json = json.dumps(d, sort_keys=True)
    out = []
    out.append(f"pub mod m{i} {{")
    out.append("    #![allow(unused_variables, unused_mut, clippy::all)]")
    out.append("    use crate::common::*;")
    out.append(f"    use super::t{group}::*;")
    sig = attr_line + f"        async fn {fname}{gen}(&mut self{sig_params}) -> {ret};"
    out.append(f"    pub const DECL: &str = {json.dumps(decl_json)};")
    out.append(f'    pub const ID: &str = "m{i}";')
    out.append("    pub fn drive(r: &mut Rng, st: &mut Stats) {")
    for l in lets:
        out.append("        " + l)
    out.append("        let mut args: Vec<(&'static str, serde_json::Value)> = Vec::new();")
    for e in expects:
        out.append("        " + e)
    # plain form
    out.append("        {")
    out.append("            let (wire, mut conn) = fresh();")
    out.append("            {")
    out.append(f"                let fut = conn.{fname}({argl});")
    out.append("                let mut fut = std::pin::pin!(fut);")
    out.append("                let _ = poll_once(fut.as_mut());")
    out.append("            }")
    out.append('            observe_call(ID, DECL, "plain", &wire, 0, &args, st);')
    out.append("        }")
    if kind != "oneway":
        out.append("        {")
        out.append("            let (wire, mut conn) = fresh();")
        out.append("            {")
        holes = "".join("_, " for p in d["params"] if p["cls"] == "generic")
        out.append(f"                let chain = conn.chain_{fname}::<{holes}Out, UErr>({argl}).expect(\"chain\");")
        out.append("                let fut = chain.send();")
        out.append("                let mut fut = std::pin::pin!(fut);")
        out.append("                let _ = poll_once(fut.as_mut());")
        out.append("            }")
        out.append('            observe_call(ID, DECL, "chain", &wire, 0, &args, st);')
        out.append("        }")
    if kind == "plain":
        out.append("        {")
        out.append("            let (wire, mut conn) = fresh();")
        out.append("            {")
        out.append("                let base = zlink_core::Call::new(Base::Ping);")
        out.append(f"                let chain = conn.chain_call::<Base, Out, UErr>(&base).expect(\"base\").{fname}({argl}).expect(\"ext\");")
        out.append("                let fut = chain.send();")
        out.append("                let mut fut = std::pin::pin!(fut);")
        out.append("                let _ = poll_once(fut.as_mut());")
        out.append("            }")
        out.append('            observe_call(ID, DECL, "ext", &wire, 1, &args, st);')
        out.append("        }")
    # replies
    if kind == "plain":
        out.append(f"        for (fi, frame) in reply_frames({json.dumps(d['out'])}, r).into_iter().enumerate() {{")
        out.append("            let (wire, mut conn) = fresh();")
        out.append("            feed(&wire, &[frame.as_str()]);")
        out.append("            let got = {")
        out.append(f"                let fut = conn.{fname}({argl});")
        out.append("                let mut fut = std::pin::pin!(fut);")
        out.append("                match poll_once(fut.as_mut()) {")
        if d["out"] == "unit":
            out.append("                    std::task::Poll::Ready(x) => class_unit(x),")
        else:
            out.append("                    std::task::Poll::Ready(x) => class_out(x),")
        out.append('                    std::task::Poll::Pending => ("pending", String::new()),')
        out.append("                }")
        out.append("            };")
        out.append(f"            observe_reply(ID, DECL, fi, &frame, {json.dumps(d['out'])}, got, st);")
        out.append("        }")
    if kind == "more":
        out.append(f"        for (si, script) in stream_scripts({json.dumps(d['out'])}, r).into_iter().enumerate() {{")
        out.append("            let (wire, mut conn) = fresh();")
        out.append("            let refs: Vec<&str> = script.iter().map(|s| s.as_str()).collect();")
        out.append("            feed(&wire, &refs);")
        out.append("            let mut items: Vec<(&'static str, String)> = Vec::new();")
        out.append("            let mut ended = false;")
        out.append("            {")
        out.append(f"                let fut = conn.{fname}({argl});")
        out.append("                let mut fut = std::pin::pin!(fut);")
        out.append("                if let std::task::Poll::Ready(Ok(stream)) = poll_once(fut.as_mut()) {")
        out.append("                    let mut stream = std::pin::pin!(stream);")
        out.append("                    for _ in 0..(script.len() + 2) {")
        out.append("                        use futures_util::stream::Stream;")
        out.append("                        let mut cx = std::task::Context::from_waker(std::task::Waker::noop());")
        out.append("                        match stream.as_mut().poll_next(&mut cx) {")
        if d["out"] == "unit":
            out.append("                            std::task::Poll::Ready(Some(x)) => items.push(class_unit(x)),")
        else:
            out.append("                            std::task::Poll::Ready(Some(x)) => items.push(class_out(x)),")
        out.append("                            std::task::Poll::Ready(None) => { ended = true; break; }")
        out.append("                            std::task::Poll::Pending => break,")
        out.append("                        }")
        out.append("                    }")
        out.append("                }")
        out.append("            }")
        out.append(f"            observe_stream(ID, DECL, si, &script, {json.dumps(d['out'])}, items, ended, &mut conn, st);")
        out.append("        }")
    out.append("    }")
    out.append("}")
    return sig, "\n".join(out)


def main():
    src, dst = sys.argv[1], sys.argv[2]
    decls = [json.loads(l) for l in open(src) if l.strip()]
    parts = ["// @generated by gen/proxy.py from the declarations TLC enumerated (specs/MCProxyGen.tla). Do not edit.",
             f"pub const N_DECLS: usize = {len(decls)};"]
    # several methods share one trait (as real proxies do): consecutive declarations are grouped, up to
    # three per trait, as long as their Rust names differ
    groups = []
    for i, d in enumerate(decls):
        name = "_".join(d["words"])
        if groups and len(groups[-1]) < 3 and name not in [n for _, n in groups[-1]]:
            groups[-1].append((i, name))
        else:
            groups.append([(i, name)])
    for g, members in enumerate(groups):
        sigs, mods = [], []
        for i, _ in members:
            sig, mod = gen_decl(i, decls[i], g)
            sigs.append(sig)
            mods.append(mod)
        parts.append(f"pub mod t{g} {{")
        parts.append("    #![allow(unused_variables, unused_mut, clippy::all)]")
        parts.append("    use crate::common::*;")
        parts.append('    #[zlink_core::proxy(interface = "' + decls[members[0][0]]["iface"] + '", crate = "zlink_core")]')
        parts.append("    pub trait P {")
        parts.extend(sigs)
        parts.append("    }")
        parts.append("}")
        parts.extend(mods)
    parts.append("pub fn drive_all(r: &mut crate::common::Rng, st: &mut crate::common::Stats) {")
    for i in range(len(decls)):
        parts.append(f"    m{i}::drive(r, st);")
    parts.append("}")
    text = "\n".join(parts) + "\n"
    try:
        if open(dst).read() == text:
            return
    except FileNotFoundError:
        pass
    open(dst, "w").write(text)


if __name__ == "__main__":
    main()
