#!/usr/bin/env python3
"""gen/codegen.py idl <ifaces.json> <idl-dir>          descriptions (TLC, specs/MCCodegen.tla) -> IDL texts
   gen/codegen.py driver <ifaces.json> <gen-dir> <out.rs>   generated modules -> driver source

The Rust side of an interface (method, parameter, field and variant identifiers, parameter and field
types) is *read off the code zlink-codegen produced*, by position: the k-th `async fn` of the proxy
trait is the k-th method of the description, the k-th field of the k-th type definition is the k-th
field of the k-th custom type, and so on.  Nothing here predicts Rust names, so a change of the
generator's naming that keeps the wire names is not noticed, and nothing here judges: the driver
records what each generated method sent / returned and specs/Codegen.tla decides."""
import json
import os
import re
import sys


# ----------------------------------------------------------------------------- IDL text

def ty_text(t):
    k = t["t"]
    if k in ("prim", "custom"):
        return t["name"]
    if k == "opt":
        return "?" + ty_text(t["inner"][0])
    if k == "arr":
        return "[]" + ty_text(t["inner"][0])
    if k == "map":
        return "[string]" + ty_text(t["inner"][0])
    if k == "struct":
        return "(" + ", ".join(f"{f['name']}: {ty_text(f['ty'])}" for f in t["fields"]) + ")"
    if k == "enum":
        return "(" + ", ".join(v["name"] for v in t["variants"]) + ")"
    raise SystemExit(f"type {k}")


def fields_text(fs):
    return "(" + ", ".join(f"{f['name']}: {ty_text(f['ty'])}" for f in fs) + ")"


def idl_text(a):
    out = [f"interface {a['name']}", ""]
    for m in a["members"]:
        for c in m.get("comments", []):
            out.append(f"# {c}")
        if m["kind"] == "type":
            if m["isenum"]:
                out.append(f"type {m['name']} (" + ", ".join(v["name"] for v in m["variants"]) + ")")
            else:
                out.append(f"type {m['name']} {fields_text(m['ins'])}")
        elif m["kind"] == "method":
            out.append(f"method {m['name']}{fields_text(m['ins'])} -> {fields_text(m['outs'])}")
        else:
            out.append(f"error {m['name']} {fields_text(m['ins'])}")
        out.append("")
    return "\n".join(out)


# ----------------------------------------------------------------------------- reading generated Rust

def split_top(s, sep=","):
    """Split at separators that are not nested in <>, (), [], {} or string literals."""
    parts, depth, cur, in_str = [], 0, "", False
    i = 0
    while i < len(s):
        c = s[i]
        if in_str:
            cur += c
            if c == "\\":
                cur += s[i + 1]
                i += 1
            elif c == '"':
                in_str = False
        elif c == '"':
            in_str = True
            cur += c
        elif c in "<([{":
            depth += 1
            cur += c
        elif c in ">)]}":
            if c == ">" and s[i - 1] == "-":
                cur += c  # the arrow
            else:
                depth -= 1
                cur += c
        elif c == sep and depth == 0:
            parts.append(cur)
            cur = ""
        else:
            cur += c
        i += 1
    if cur.strip():
        parts.append(cur)
    return [p.strip() for p in parts]


class Generated:
    """Identifiers and types of one generated module, in order of appearance."""

    def __init__(self, src):
        self.methods = []   # dict(name, params=[(ident, type)], out, err)
        self.structs = []   # dict(name, lt, fields=[(ident, type)])
        self.enums = []     # dict(name, variants=[ident] | error variants [(ident, [(field, type)])])
        lines = src.splitlines()
        i = 0
        while i < len(lines):
            l = lines[i].strip()
            m = re.match(r"async fn (\S+?)\(&mut self(.*)\) -> zlink::Result<Result<(.*), (\w+)>>;$", l)
            if m:
                params = []
                for p in split_top(m.group(2)):
                    if not p:
                        continue
                    p = re.sub(r"^#\[zlink\(rename = \"[^\"]*\"\)\]\s*", "", p)
                    ident, ty = p.split(":", 1)
                    params.append((ident.strip(), ty.strip()))
                self.methods.append({"name": m.group(1), "params": params, "out": m.group(3).strip(), "err": m.group(4)})
                i += 1
                continue
            m = re.match(r"pub struct (\w+)(<'a>)? \{$", l)
            if m:
                fields = []
                i += 1
                while lines[i].strip() != "}":
                    f = re.match(r"pub (\S+): (.*),$", lines[i].strip())
                    if f:
                        fields.append((f.group(1), f.group(2)))
                    i += 1
                self.structs.append({"name": m.group(1), "lt": bool(m.group(2)), "fields": fields})
                i += 1
                continue
            m = re.match(r"pub enum (\w+) \{(\})?$", l)
            if m:
                variants = []
                if not m.group(2):
                    i += 1
                    while lines[i].strip() != "}":
                        s = lines[i].strip()
                        v = re.match(r"(\w+),$", s)
                        vs = re.match(r"(\w+) \{$", s)
                        if v:
                            variants.append((v.group(1), None))
                        elif vs:
                            fs = []
                            i += 1
                            while lines[i].strip() != "},":
                                f = re.match(r"(\S+): (.*),$", lines[i].strip())
                                if f:
                                    fs.append((f.group(1), f.group(2)))
                                i += 1
                            variants.append((vs.group(1), fs))
                        i += 1
                self.enums.append({"name": m.group(1), "variants": variants})
                i += 1
                continue
            i += 1


# ----------------------------------------------------------------------------- values

class Values:
    """Rust expressions of the discovered Rust types together with the JSON they stand for."""

    def __init__(self, iface, gen, salt):
        self.a = iface
        self.gen = gen
        self.n = salt
        types = [m for m in iface["members"] if m["kind"] == "type"]
        outs = {m["out"].split("<")[0] for m in gen.methods}
        errs = {m["err"] for m in gen.methods}
        # definitions that are neither output structs nor the error enum, in order: the custom types
        defs = []
        for kind, lst in (("struct", gen.structs), ("enum", gen.enums)):
            for d in lst:
                if d["name"] not in outs and d["name"] not in errs:
                    defs.append((kind, d))
        # order of appearance in the source = order of the description's type members
        self.custom = {}
        struct_defs = [d for k, d in defs if k == "struct"]
        enum_defs = [d for k, d in defs if k == "enum"]

        def norm(n):
            return re.sub(r"[^a-z0-9]", "", n.lower())

        def pick(pool, t, width):
            # by name up to case and separators if exactly one definition of the right width answers to it
            # (helper items the generator may add are then ignored), else the next one in order
            named = [d for d in pool if norm(d["name"]) == norm(t["name"])
                     and len(d.get("fields", d.get("variants"))) == width]
            d = named[0] if len(named) == 1 else (pool[0] if pool else None)
            if d is None:
                raise SystemExit(f"no generated definition for type {t['name']}")
            pool.remove(d)
            return d
        for t in types:
            if t["isenum"]:
                self.custom[t["name"]] = ("enum", t, pick(enum_defs, t, len(t["variants"])))
            else:
                self.custom[t["name"]] = ("struct", t, pick(struct_defs, t, len(t["ins"])))

    def tick(self):
        self.n += 1
        return self.n

    def json_of(self, t, present=True):
        """A JSON value of IDL type t (all optional parts present unless `present` is False)."""
        k = t["t"]
        n = self.tick()
        if k == "prim":
            return {"bool": n % 2 == 0, "int": n * 37 - 100, "float": n + 0.5, "string": f"s{n}",
                    "object": {"any": [n, "x"]}}[t["name"]]
        if k == "opt":
            return self.json_of(t["inner"][0]) if present else None
        if k == "arr":
            return [self.json_of(t["inner"][0]) for _ in range(n % 3)]
        if k == "map":
            return {f"k{j}": self.json_of(t["inner"][0]) for j in range(1 + n % 2)}
        if k == "struct":
            return {f["name"]: self.json_of(f["ty"]) for f in t["fields"]}
        if k == "enum":
            return t["variants"][n % len(t["variants"])]["name"]
        if k == "custom":
            kind, d, _ = self.custom[t["name"]]
            if kind == "enum":
                return d["variants"][n % len(d["variants"])]["name"]
            return {f["name"]: self.json_of(f["ty"], present=(self.tick() % 3 != 0)) for f in d["ins"]}
        raise SystemExit(k)

    def rust_of(self, t, rty, jv):
        """Rust expression of Rust type `rty` that must serialise to the JSON value jv of IDL type t."""
        rty = rty.strip()
        k = t["t"]
        if k == "opt":
            inner = re.match(r"Option<(.*)>$", rty)
            if not inner:
                raise SystemExit(f"optional IDL type but Rust type {rty}")
            return "None" if jv is None else f"Some({self.rust_of(t['inner'][0], inner.group(1), jv)})"
        if k == "prim":
            nm = t["name"]
            if nm == "bool":
                return "true" if jv else "false"
            if nm == "int":
                return f"{jv}i64"
            if nm == "float":
                return f"{jv}f64"
            if nm == "string":
                return json.dumps(jv) if rty.startswith("&") else f"{json.dumps(jv)}.to_string()"
            return self.value_expr(rty, jv)
        if k == "arr":
            m = re.match(r"&\[(.*)\]$", rty) or re.match(r"Vec<(.*)>$", rty)
            items = ", ".join(self.rust_of(t["inner"][0], m.group(1), x) for x in jv)
            return f"&[{items}]" if rty.startswith("&") else f"vec![{items}]"
        if k == "map":
            m = re.match(r"&?std::collections::HashMap<(&str|String|&'a str), (.*)>$", rty)
            key = (lambda s: json.dumps(s)) if m.group(1).startswith("&") else (lambda s: f"{json.dumps(s)}.to_string()")
            items = ", ".join(f"({key(kk)}, {self.rust_of(t['inner'][0], m.group(2), vv)})" for kk, vv in jv.items())
            e = f"std::collections::HashMap::from([{items}])"
            return "&" + e if rty.startswith("&") else e
        if k == "struct":
            return self.value_expr(rty, jv)
        if k == "enum":
            return json.dumps(jv) if rty.startswith("&") else f"{json.dumps(jv)}.to_string()"
        if k == "custom":
            kind, d, g = self.custom[t["name"]]
            amp = "&" if rty.startswith("&") else ""
            if kind == "enum":
                idx = [v["name"] for v in d["variants"]].index(jv)
                return f"{amp}{g['name']}::{g['variants'][idx][0]}"
            fs = []
            for f, (gname, gty) in zip(d["ins"], g["fields"]):
                val = jv.get(f["name"])
                fs.append(f"{gname}: {self.rust_of(f['ty'], gty, val)}")
            return f"{amp}{g['name']} {{ {', '.join(fs)} }}"
        raise SystemExit(k)

    @staticmethod
    def value_expr(rty, jv):
        e = f"serde_json::json!({json.dumps(jv)})"
        return "&" + e if rty.startswith("&") else e


def drop_none(jv):
    """What the wire may omit: members that are None at the top level of a parameters object."""
    return {k: v for k, v in jv.items() if v is not None}


# ----------------------------------------------------------------------------- driver

def gen_driver(idx, a, src):
    g = Generated(src)
    methods = [m for m in a["members"] if m["kind"] == "method"]
    errors = [m for m in a["members"] if m["kind"] == "error"]
    if len(g.methods) != len(methods):
        raise SystemExit(f"i{idx}: {len(methods)} methods described, {len(g.methods)} generated")
    vals = Values(a, g, idx * 1000)
    out = [f"#[path = \"gen/i{idx}.rs\"]", "#[allow(dead_code, unused_imports, non_camel_case_types, non_snake_case, clippy::all)]",
           f"pub mod i{idx};", f"pub mod d{idx} {{", "    #![allow(unused_variables, unused_mut, unused_imports, clippy::all)]",
           f"    use super::i{idx}::*;", "    use crate::common::*;",
           f"    pub const IFACE: &str = {json.dumps(json.dumps(a, sort_keys=True))};", f'    pub const ID: &str = "i{idx}";',
           "    pub fn drive(st: &mut Stats) {"]
    err_enum = None
    first_call = None
    for mi, (m, gm) in enumerate(zip(methods, g.methods), start=1):
        if len(gm["params"]) != len(m["ins"]):
            raise SystemExit(f"i{idx}.{m['name']}: {len(m['ins'])} inputs described, {len(gm['params'])} generated")
        for rnd in range(2):
            present = []
            args = []
            for j, (f, (pname, pty)) in enumerate(zip(m["ins"], gm["params"])):
                pres = not (f["ty"]["t"] == "opt" and (j + rnd) % 2 == 0)
                present.append(pres)
                jv = vals.json_of(f["ty"], present=pres)
                args.append(vals.rust_of(f["ty"], pty, jv))
            argl = ", ".join(args)
            out.append("        {")
            out.append("            let (wire, mut conn) = fresh();")
            out.append(f"            let _ = poll_once(std::pin::pin!(conn.{gm['name']}({argl})).as_mut());")
            out.append(f"            observe_cg_call(ID, IFACE, {mi}, &{json.dumps(present)}, &wire, st);")
            out.append("        }")
            # the same call through the chain-starting and the chain-extending form of the generated proxy
            if not gm["name"].startswith("r#"):
                if first_call is None:
                    first_call = (gm["name"], argl)
                out.append("        {")
                out.append("            let (wire, mut conn) = fresh();")
                out.append("            {")
                out.append(f"                if let Ok(chain) = conn.chain_{gm['name']}::<serde_json::Value, {gm['err']}>({argl}) {{")
                out.append("                    let _ = poll_once(std::pin::pin!(chain.send()).as_mut());")
                out.append("                }")
                out.append("            }")
                out.append(f"            observe_cg_call_at(ID, IFACE, {mi}, &{json.dumps(present)}, &wire, 0, st);")
                out.append("        }")
                out.append("        {")
                out.append("            let (wire, mut conn) = fresh();")
                out.append("            {")
                out.append(f"                if let Ok(chain) = conn.chain_{first_call[0]}::<serde_json::Value, {gm['err']}>({first_call[1]}) {{")
                out.append(f"                    if let Ok(chain) = chain.{gm['name']}({argl}) {{")
                out.append("                        let _ = poll_once(std::pin::pin!(chain.send()).as_mut());")
                out.append("                    }")
                out.append("                }")
                out.append("            }")
                out.append(f"            observe_cg_call_at(ID, IFACE, {mi}, &{json.dumps(present)}, &wire, 1, st);")
                out.append("        }")
        # a reply built from the description's output names
        fed = {f["name"]: vals.json_of(f["ty"]) for f in m["outs"]}
        frame = json.dumps({"parameters": fed}) if m["outs"] else "{}"
        is_unit = gm["out"] == "()"
        out.append("        {")
        out.append("            let (wire, mut conn) = fresh();")
        out.append(f"            feed(&wire, &[{json.dumps(frame)}]);")
        out.append(f"            let (cls, back) = match poll_once(std::pin::pin!(conn.{gm['name']}({argl})).as_mut()) {{")
        if is_unit:
            out.append('                std::task::Poll::Ready(Ok(Ok(()))) => ("success", serde_json::json!({})),')
        else:
            out.append('                std::task::Poll::Ready(Ok(Ok(o))) => ("success", serde_json::to_value(&o).unwrap_or(serde_json::Value::Null)),')
        out.append('                std::task::Poll::Ready(Ok(Err(e))) => ("method_err", serde_json::to_value(&e).unwrap_or(serde_json::Value::Null)),')
        out.append('                std::task::Poll::Ready(Err(e)) => (err_class(&e), serde_json::Value::Null),')
        out.append('                std::task::Poll::Pending => ("pending", serde_json::Value::Null),')
        out.append("            };")
        out.append(f"            observe_cg_reply(ID, IFACE, {mi}, {json.dumps(json.dumps(fed))}, cls, back, st);")
        out.append("        }")
        err_enum = gm["err"]
    # every declared error, through the first method
    if methods:
        m, gm = methods[0], g.methods[0]
        args = []
        for f, (pname, pty) in zip(m["ins"], gm["params"]):
            jv = vals.json_of(f["ty"])
            args.append(vals.rust_of(f["ty"], pty, jv))
        argl = ", ".join(args)
        is_unit = gm["out"] == "()"
        for ei, e in enumerate(errors, start=1):
            fed = {f["name"]: vals.json_of(f["ty"]) for f in e["ins"]}
            name = f"{a['name']}.{e['name']}"
            frame = {"error": name}
            if e["ins"]:
                frame["parameters"] = fed
            out.append("        {")
            out.append("            let (wire, mut conn) = fresh();")
            out.append(f"            feed(&wire, &[{json.dumps(json.dumps(frame))}]);")
            out.append(f"            let (cls, back) = match poll_once(std::pin::pin!(conn.{gm['name']}({argl})).as_mut()) {{")
            out.append('                std::task::Poll::Ready(Ok(Ok(_))) => ("success", serde_json::Value::Null),')
            out.append('                std::task::Poll::Ready(Ok(Err(e))) => ("method_err", serde_json::to_value(&e).unwrap_or(serde_json::Value::Null)),')
            out.append('                std::task::Poll::Ready(Err(e)) => (err_class(&e), serde_json::Value::Null),')
            out.append('                std::task::Poll::Pending => ("pending", serde_json::Value::Null),')
            out.append("            };")
            out.append(f"            observe_cg_error(ID, IFACE, {ei}, {json.dumps(json.dumps(frame))}, cls, back, st);")
            out.append("        }")
    out.append("    }")
    out.append("}")
    return "\n".join(out)


def main():
    mode = sys.argv[1]
    ifaces = [json.loads(l) for l in open(sys.argv[2]) if l.strip()]
    if mode == "idl":
        d = sys.argv[3]
        os.makedirs(d, exist_ok=True)
        keep = set()
        for i, a in enumerate(ifaces):
            p = os.path.join(d, f"i{i}.varlink")
            keep.add(os.path.basename(p))
            text = idl_text(a)
            try:
                if open(p).read() == text:
                    continue
            except FileNotFoundError:
                pass
            open(p, "w").write(text)
        for f in os.listdir(d):
            if f not in keep:
                os.remove(os.path.join(d, f))
        return
    gdir, dst = sys.argv[3], sys.argv[4]
    parts = ["// @generated by gen/codegen.py: drivers for the modules zlink-codegen produced (gen/i<k>.rs). Do not edit.",
             f"pub const N_IFACES: usize = {len(ifaces)};"]
    failed = []
    for i, a in enumerate(ifaces):
        p = os.path.join(gdir, f"i{i}.rs")
        if not os.path.exists(p):
            err = os.path.join(gdir, f"i{i}.err")
            failed.append((i, open(err).read() if os.path.exists(err) else "no output"))
            continue
        parts.append(gen_driver(i, a, open(p).read()))
    parts.append("pub fn drive_all(st: &mut crate::common::Stats) {")
    for i, a in enumerate(ifaces):
        if not any(i == f[0] for f in failed):
            parts.append(f"    d{i}::drive(st);")
    parts.append("}")
    parts.append("pub const FAILED: &[(usize, &str)] = &[" + ", ".join(f"({i}, {json.dumps(msg)})" for i, msg in failed) + "];")
    text = "\n".join(parts) + "\n"
    try:
        if open(dst).read() == text:
            return
    except FileNotFoundError:
        pass
    open(dst, "w").write(text)


if __name__ == "__main__":
    main()
