#!/usr/bin/env python3
"""gen/introspect.py <groups.json> <out.rs>

Turns the derive groups enumerated by TLC (specs/MCIntrospect.tla) into Rust: per group one module that
declares the types with #[derive(introspect::CustomType / Type / ReplyError)] and a driver that hands
the derived constants to the observer of corpus/src/bin/introspect/main.rs.  What the derives must
produce is not computed here: specs/Introspect.tla (VarlinkOf, IfaceOf) says it."""
import json
import sys

SPECIAL = {
    "Duration": "std::time::Duration", "Instant": "std::time::Instant", "SystemTime": "std::time::SystemTime",
    "PathBuf": "std::path::PathBuf", "OsString": "std::ffi::OsString", "IpAddr": "std::net::IpAddr",
    "Ipv4Addr": "std::net::Ipv4Addr", "Ipv6Addr": "std::net::Ipv6Addr", "SocketAddr": "std::net::SocketAddr",
    "SocketAddrV4": "std::net::SocketAddrV4", "SocketAddrV6": "std::net::SocketAddrV6", "Value": "serde_json::Value",
    "BoxStr": "Box<str>", "BoxPath": "Box<std::path::Path>", "BoxOsStr": "Box<std::ffi::OsStr>",
}


class Group:
    def __init__(self, g):
        self.g = g
        self.decl = {d["name"]: d for d in g["customs"] + g["inlines"]}
        self._lt = {}

    def type_has_lt(self, t):
        k = t["k"]
        if k == "prim":
            return t["n"] == "&str"
        if k == "special":
            return t["n"] == "CowStr"
        if k == "seq" and t["n"] == "slice":
            return True
        if k == "map" and t["n"].endswith("Str"):
            return True
        if k in ("custom", "inline"):
            return self.decl_has_lt(t["n"])
        return any(self.type_has_lt(x) for x in t["a"])

    def decl_has_lt(self, name):
        if name not in self._lt:
            self._lt[name] = False
            d = self.decl[name]
            self._lt[name] = any(self.type_has_lt(f["ty"]) for f in d["fields"])
        return self._lt[name]

    def rust(self, t, lt):
        """lt: the lifetime to write (`'a` inside a declaration, `'_` in expression position)."""
        k, n = t["k"], t["n"]
        a = [self.rust(x, lt) for x in t["a"]]
        if k == "prim":
            return f"&{lt} str" if n == "&str" else n
        if k == "special":
            return f"std::borrow::Cow<{lt}, str>" if n == "CowStr" else SPECIAL[n]
        if k == "opt":
            return f"Option<{a[0]}>"
        if k == "seq":
            return {"Vec": f"Vec<{a[0]}>", "slice": f"&{lt} [{a[0]}]", "HashSet": f"std::collections::HashSet<{a[0]}>",
                    "BTreeSet": f"std::collections::BTreeSet<{a[0]}>"}[n]
        if k == "map":
            key = "String" if n.endswith("String") else f"&{lt} str"
            coll = "HashMap" if n.startswith("Hash") else "BTreeMap"
            return f"std::collections::{coll}<{key}, {a[0]}>"
        if k == "wrap":
            path = {"Box": "Box", "Rc": "std::rc::Rc", "Arc": "std::sync::Arc", "Cell": "std::cell::Cell",
                    "RefCell": "std::cell::RefCell"}[n]
            return f"{path}<{a[0]}>"
        if k == "unit":
            return "()"
        if k in ("custom", "inline"):
            return f"{n}<{lt}>" if self.decl_has_lt(n) else n
        raise SystemExit(f"unknown type kind {k}")


def docs(ds, indent):
    """Doc attributes, one per comment line.  When there are several, another attribute stands between the first two
    (as `#[serde(..)]` or `#[allow(..)]` often do in real code): it must not cut the documentation short."""
    lines = [f"{indent}#[doc = {json.dumps(d)}]\n" for d in ds]
    if len(lines) >= 2:
        lines.insert(1, f"{indent}#[allow(dead_code)]\n")
    return "".join(lines)


def gen_struct(G, d, derive, out):
    lt = "<'a>" if G.decl_has_lt(d["name"]) else ""
    out.append(docs(d.get("docs", []), "    ") + f"    #[derive(zlink_core::introspect::{derive})]\n    #[zlink(crate = \"zlink_core\")]")
    out.append(f"    pub struct {d['name']}{lt} {{")
    for f in d["fields"]:
        out.append(docs(f["docs"], "        ") + f"        pub {f['name']}: {G.rust(f['ty'], chr(39) + 'a')},")
    out.append("    }")


def gen_enum(d, derive, out):
    out.append(docs(d.get("docs", []), "    ") + f"    #[derive(zlink_core::introspect::{derive})]\n    #[zlink(crate = \"zlink_core\")]")
    out.append(f"    pub enum {d['name']} {{")
    for v in d["variants"]:
        out.append(docs(v["docs"], "        ") + f"        {v['name']},")
    out.append("    }")


def gen_group(g):
    G = Group(g)
    i = g["id"]
    out = [f"pub mod g{i} {{", "    #![allow(dead_code, non_camel_case_types, clippy::all)]", "    use crate::common::*;"]
    for d in g["customs"]:
        (gen_enum(d, "CustomType", out) if d["isenum"] else gen_struct(G, d, "CustomType", out))
    for d in g["inlines"]:
        (gen_enum(d, "Type", out) if d["isenum"] else gen_struct(G, d, "Type", out))
    # the error enum
    err_lt = any((e["kind"] == "struct" and any(G.type_has_lt(f["ty"]) for f in e["fields"]))
                 or (e["kind"] == "tuple" and G.decl_has_lt(e["inline"])) for e in g["errs"])
    out.append("    #[derive(zlink_core::introspect::ReplyError)]\n    #[zlink(crate = \"zlink_core\")]")
    out.append(f"    pub enum Errs{'<' + chr(39) + 'a>' if err_lt else ''} {{")
    for e in g["errs"]:
        d = docs(e["docs"], "        ")
        if e["kind"] == "unit":
            out.append(d + f"        {e['name']},")
        elif e["kind"] == "struct":
            out.append(d + f"        {e['name']} {{")
            for f in e["fields"]:
                out.append(docs(f["docs"], "            ") + f"            {f['name']}: {G.rust(f['ty'], chr(39) + 'a')},")
            out.append("        },")
        else:
            inner = f"{e['inline']}<'a>" if G.decl_has_lt(e["inline"]) else e["inline"]
            out.append(d + f"        {e['name']}({inner}),")
    out.append("    }")
    out.append(f"    pub const GROUP: &str = {json.dumps(json.dumps(g, sort_keys=True))};")
    out.append(f'    pub const ID: &str = "g{i}";')
    out.append("    pub fn drive(st: &mut Stats) {")
    out.append("        use zlink_core::introspect::{CustomType as _, ReplyError as _, Type as _};")
    cs = ", ".join(f"<{G.rust({'k': 'custom', 'n': d['name'], 'a': []}, chr(39) + '_')} as zlink_core::introspect::CustomType>::CUSTOM_TYPE"
                   for d in g["customs"])
    out.append(f"        let customs: Vec<&'static zlink_core::idl::CustomType<'static>> = vec![{cs}];")
    out.append(f"        let errors: &'static [&'static zlink_core::idl::Error<'static>] = <Errs{'<' + chr(39) + '_>' if err_lt else ''} as zlink_core::introspect::ReplyError>::VARIANTS;")
    ps = ", ".join(f"<{G.rust(p, chr(39) + '_')} as zlink_core::introspect::Type>::TYPE" for p in g["probes"])
    out.append(f"        let probes: Vec<&'static zlink_core::idl::Type<'static>> = vec![{ps}];")
    out.append("        observe_group(ID, GROUP, &customs, errors, &probes, st);")
    out.append("    }")
    out.append("}")
    return "\n".join(out)


def main():
    src, dst = sys.argv[1], sys.argv[2]
    groups = [json.loads(l) for l in open(src) if l.strip()]
    parts = ["// @generated by gen/introspect.py from the groups TLC enumerated (specs/MCIntrospect.tla). Do not edit.",
             f"pub const N_GROUPS: usize = {len(groups)};"]
    for g in groups:
        parts.append(gen_group(g))
    parts.append("pub fn drive_all(st: &mut crate::common::Stats) {")
    for g in groups:
        parts.append(f"    g{g['id']}::drive(st);")
    parts.append("}")
    text = "\n".join(parts) + "\n"
    try:
        if open(dst).read() == text:
            return
    except FileNotFoundError:
        pass
    open(dst, "w").write(text)


if __name__ == "__main__":
    main()
